"""C20 - Compiled and dataclass payloads behave like their plain definition (generator, interpreter and dataclass front end
rendered symbolically for abstract payload definitions; nothing from /repo is executed)."""
from __future__ import annotations

import ast
import re
import string
from collections import ChainMap
from dataclasses import dataclass, field

from ..core import Ctx
from ..match import calls
from ..model import AnalysisError, ClassInfo, FuncInfo, Module, chain, const_value, norm, walk_no_nested

LEVEL = "other"
EXPLANATION = (
    "The code generator (_compile_init, _compile_from_unpack_list, _compile_to_pack_list, vp_compile), the interpreter "
    "(VariablePayload.__init__/to_pack_list/from_unpack_list/_fix_pack/_to_packlist_fmt) and the dataclass front end (type_map, "
    "convert_to_payload) are read as source and rendered SYMBOLICALLY by an abstract interpreter of this module (own evaluator over "
    "the syntax trees; field names, formats, attribute values, wire values and default values are opaque symbols, so a verdict "
    "holds for every choice of them): for a family of abstract definitions (format lists over 'bits' / string format / nested "
    "payload / list of nested payload, fix_pack_/fix_unpack_ hooks present or absent per field, constructor defaults, positional / "
    "keyword / omitted constructor arguments) the generated source text is parsed (never run) and evaluated by the same abstract "
    "interpreter, and the resulting pack list / constructor call / attribute state must equal the specification, and so must the "
    "interpreted VariablePayload methods. to_pack_list (interpreted, generated, installed by vp_compile) is evaluated TWICE on one instance, every field "
    "assigned a new opaque value in between (through a __setattr__ of the class when it defines one): the second pack list must be the specification for "
    "the new values - a form that answers from state captured earlier (memo on the instance) emits other bytes than the other forms for the same field values. "
    "vp_compile is evaluated end to end (two definitions with an equal layout and different "
    "hooks share one world, constructor defaults come from positional and keyword-only parameters; in part of the definitions the "
    "fix_pack_/fix_unpack_ hooks are inherited from a base class of the definition instead of standing in its own __dict__); "
    "convert_to_payload is evaluated for fresh, re-converted and derived dataclasses with ClassVar pseudo-fields, and for dataclasses with a "
    "keyword-only field that is not last / a field(init=False) field, whose dataclass-generated __init__ does not list the fields in "
    "definition order (names and format_list must follow dataclasses.fields()); type_map is evaluated on every annotation kind and "
    "only returns registered formats (including an explicit [payload class] list object used as the annotation). Where the evaluated code "
    "asks about the VALUE of a constructor default (truth value, None-ness) both answers are evaluated, because any object may be a default. "
    "Iterators (generator expressions, map / filter / zip / enumerate, itertools and functools pipelines) are evaluated lazily, item by item, as CPython does; "
    "small helper classes of the evaluated modules (callable objects, NamedTuple / dataclass records, Enum members) are instantiated and followed; what the "
    "interpreter has no model of is undecided, never an exception of the analysed code. "
    "The convert_to_payload scenarios model dataclasses.Field.type as the annotation AS WRITTEN (a str under postponed evaluation, a generic whose argument "
    "is still the str of a forward reference) and only typing.get_type_hints() as the resolved objects. Rule dataclass-installed-early enumerates every "
    "reference of convert_to_payload in the library backwards through helpers, decorator wrappers, context managers, mixins and partial objects to the language "
    "event that starts the path: conversion reachable only from an instance-construction hook (__new__ / __init__) of a payload class, and from no class-"
    "definition-time event (__init_subclass__, __set_name__, metaclass, class decorator, exported function, module level), is a finding per payload class (a class "
    "that has not been instantiated cannot decode); references that cannot be attributed are undecided. Rule default-literal: a constructor default that reaches the "
    "generated source as repr() text without the evaluated code having restricted its type to builtin literals (isinstance / is None on the way from "
    "inspect.signature to the template) is a finding; where the code does ask for the type of a default, the cases 'not a literal' / 'none of the literal types "
    "asked for' are evaluated too, and a rejection of such a default is not reported by the template rules. "
    "When a private builder no longer has its reviewed name / parameter list, its rule evaluates what vp_compile installs instead. Code outside the evaluated fragment is exit 2 (undecided), never a verdict. The family of "
    "definitions is finite (up to 5 formats / 19 names); equality of bytes for concrete instances is not decided."
)

LP = "ipv8/messaging/lazy_payload.py"
PD = "ipv8/messaging/payload_dataclass.py"
SER = "ipv8/messaging/serialization.py"


# ===================================================================================================== symbolic values
class Und(Exception):
    """The abstract interpreter cannot evaluate this construct: the rule is undecided (exit 2), never a verdict."""


class NeedCase(Und):
    """The evaluated code asks about a property of an opaque constructor default (its truth value / whether it is None) that
    differs between definitions the property quantifies over: the driver (`forked`) evaluates both cases.  Outside that driver
    it is an ordinary Und (undecided)."""

    def __init__(self, key: tuple, what: str) -> None:
        super().__init__(what)
        self.key = key


class NeedOrder(Und):
    """The evaluated code iterates over a set of opaque values (classes, symbols): CPython's order depends on hash values that differ
    from run to run, so every order is a possible run.  The driver (`decided` with a world) evaluates ALL orders and requires one
    common result; outside that driver it is an ordinary Und (undecided)."""

    def __init__(self, key: frozenset, what: str) -> None:
        super().__init__(what)
        self.key = key


class PyExc(Exception):
    """The analysed code raises."""

    def __init__(self, kind: str, detail: str = "") -> None:
        super().__init__(kind, detail)
        self.kind = kind
        self.detail = detail

    def __str__(self) -> str:
        return f"{self.kind}({self.detail})" if self.detail else self.kind


@dataclass(frozen=True)
class Sym:
    """Opaque atom. kind: name | fmt | field | wire | default | arg | hook | clsname | modname; typ: str | callable | any."""
    kind: str
    key: object = None
    typ: str = "any"

    def __repr__(self) -> str:
        if self.kind == "name":
            return f"n{self.key}"
        if self.kind == "hook":
            return f"<{self.key[0]}n{self.key[1]}@{self.key[2]}>"
        return f"<{self.kind}{'' if self.key is None else self.key}>"


@dataclass(frozen=True)
class Conv:
    """Part of a symbolic string: repr() ('r') or str() ('s') of a value that is not a string."""
    how: str
    value: object

    def __repr__(self) -> str:
        return f"{'repr' if self.how == 'r' else 'str'}({self.value!r})"


@dataclass(frozen=True)
class SStr:
    parts: tuple

    def __repr__(self) -> str:
        return "".join(p if isinstance(p, str) else "{" + repr(p) + "}" for p in self.parts)


@dataclass(frozen=True)
class App:
    """Opaque result of calling an opaque callable / combining opaque values."""
    fn: object
    args: tuple
    kw: tuple = ()

    def __repr__(self) -> str:
        return f"{self.fn!r}({', '.join([repr(a) for a in self.args] + [f'{k!r}={v!r}' for k, v in self.kw])})"


@dataclass(frozen=True)
class Ext:
    """Something of a module outside /repo (inspect.signature, typing.TypeVar, ...), modelled in Interp.call_ext."""
    name: str


@dataclass(frozen=True)
class Builtin:
    name: str


class IdTok:
    """id(x): an integer nobody computes with; equal / hashed by the identity of x (x is kept alive, as CPython requires for the
    comparison of two ids to mean anything)."""

    def __init__(self, key, ref) -> None:
        self.key = key
        self.ref = ref

    def __eq__(self, other) -> bool:
        return isinstance(other, IdTok) and other.key == self.key

    def __hash__(self) -> int:
        return hash(self.key)

    def __repr__(self) -> str:
        return f"id({self.ref!r})"


@dataclass(frozen=True)
class ObjInit:
    """object.__init__ reached through the named class."""
    owner: str


@dataclass(frozen=True)
class HookDef:
    """Class attribute fix_pack_<name> / fix_unpack_<name> of an abstract definition."""
    prefix: str
    index: int


@dataclass(frozen=True)
class Constructed:
    cls: object
    args: tuple
    kw: tuple = ()

    def __repr__(self) -> str:
        return f"{self.cls!r}({', '.join([repr(a) for a in self.args] + [f'{k!r}={v!r}' for k, v in self.kw])})"


class RepoCls:
    def __init__(self, ci: ClassInfo) -> None:
        self.ci = ci

    def __eq__(self, other) -> bool:
        return isinstance(other, RepoCls) and other.ci is self.ci

    def __hash__(self) -> int:
        return id(self.ci.node)

    def __repr__(self) -> str:
        return self.ci.name


class ClsObj:
    """An abstract class (payload definition, nested payload class, dataclass)."""

    def __init__(self, name: str, bases: list, attrs: dict | None = None, meta: dict | None = None) -> None:
        self.name = name
        self.bases = bases
        self.attrs = attrs if attrs is not None else {}
        self.meta = meta or {}

    def __repr__(self) -> str:
        return self.name


class Obj:
    def __init__(self, cls, attrs: dict | None = None, label: str = "obj") -> None:
        self.cls = cls
        self.attrs = attrs if attrs is not None else {}
        self.label = label
        self.fields = None          # item order of a NamedTuple helper instance
        self.match_args = None      # field order of a NamedTuple / dataclass helper instance

    def __repr__(self) -> str:
        return f"<{self.label}>"


class Rec:
    """Plain record with attributes (signature, parameter, code object, dataclass field, typing alias ...)."""

    def __init__(_self, _kind: str, /, **fields) -> None:  # noqa: N805
        _self.kind = _kind
        _self.fields = fields

    def __repr__(self) -> str:
        return f"<{self.kind} {self.fields.get('name', self.fields.get('__name__', ''))!r}>"


class Func:
    def __init__(self, node, module: Module, fi: FuncInfo | None = None, closure=None, generated: bool = False) -> None:
        self.node = node
        self.module = module
        self.fi = fi
        self.closure = closure
        self.generated = generated
        self.raw = False             # the function object BEFORE its decorators were applied (what a decorator receives)
        self.wrapped = None          # functools.wraps / update_wrapper: the function this one stands in for (__wrapped__)

    @property
    def name(self) -> str:
        return getattr(self.node, "name", "<lambda>")

    def __repr__(self) -> str:
        return f"<function {self.name}>"


@dataclass(frozen=True)
class Bound:
    func: object
    self: object


@dataclass(frozen=True)
class PyMethod:
    obj: object
    name: str

    def __hash__(self) -> int:
        return hash((id(self.obj), self.name))


@dataclass(frozen=True)
class ModRef:
    module: object

    def __hash__(self) -> int:
        return id(self.module)


@dataclass
class ExcVal:
    kind: str
    args: tuple = ()


class IterObj:
    """iter(x): position in a (live) list."""

    def __init__(self, seq: list) -> None:
        self.seq = seq
        self.pos = 0

    def __repr__(self) -> str:
        return f"<iterator at {self.pos} of {self.seq!r}>"


class GenIter:
    """A lazy one-shot iterator (generator expression, map, filter, zip, enumerate, reversed, itertools pipelines): items are
    computed when the evaluated code consumes them, exactly as CPython does, so an item that is never requested is never
    evaluated (and can neither raise nor make the rule undecided)."""

    def __init__(self, gen, label: str = "generator") -> None:
        self.gen = gen
        self.label = label

    def __repr__(self) -> str:
        return f"<{self.label} object>"


class CountIter:
    """itertools.count(start, step): an unbounded iterator."""

    def __init__(self, cur, step) -> None:
        self.cur = cur
        self.step = step


@dataclass(frozen=True)
class Partial:
    """functools.partial(fn, *args, **kw)."""
    fn: object
    args: tuple
    kw: tuple = ()

    def __hash__(self) -> int:
        return id(self)


class _Return(Exception):
    def __init__(self, value) -> None:
        self.value = value


class _Break(Exception):
    pass


class _Continue(Exception):
    pass


class _GenClose(BaseException):
    """The consumer dropped a suspended generator: its evaluation is unwound (finally blocks run), as generator.close() does."""


class _YieldSink:
    """fr.yields of a generator frame: every yielded value is handed to the consumer, and evaluation continues when it asks again."""

    def __init__(self, put) -> None:
        self.put = put

    def append(self, v) -> None:
        self.put(v)

    def extend(self, items) -> None:
        for v in items:
            self.put(v)


MISSING = object()
_PH = re.compile(r"Zq(\d+)qZ")
_EXC_NAMES = {"Exception", "BaseException", "KeyError", "IndexError", "LookupError", "TypeError", "ValueError", "AttributeError",
              "NotImplementedError", "RuntimeError", "NameError", "AssertionError", "StopIteration", "OSError", "SyntaxError",
              "ArithmeticError", "ZeroDivisionError"}
_EXC_PARENTS = {"KeyError": "LookupError", "IndexError": "LookupError", "NotImplementedError": "RuntimeError",
                "ZeroDivisionError": "ArithmeticError"}
_TYPE_NAMES = {"str", "int", "float", "bool", "bytes", "list", "tuple", "set", "frozenset", "dict", "type", "object", "super"}
_FUNC_NAMES = {"len", "range", "enumerate", "zip", "reversed", "sorted", "repr", "isinstance", "issubclass", "hasattr", "getattr", "setattr",
               "callable", "compile", "exec", "globals", "locals", "vars", "any", "all", "sum", "min", "max", "abs", "print", "staticmethod",
               "classmethod", "map", "filter", "format", "id", "iter", "next", "dir", "delattr", "divmod"}
_EXT_CLASSES = {"typing.TypeVar": "typevar", "typing_extensions.TypeVar": "typevar", "inspect.Parameter": "parameter",
                "inspect.Signature": "signature", "dataclasses.Field": "field", "types.CodeType": "code"}
# library objects modelled as records: attribute names that CERTAINLY do not exist on the real object (getattr defaults rely on them);
# any other unmodelled attribute is undecided
_LIBRARY_RECS = {"struct": (), "signature": (), "parameter": (), "field": (), "argspec": (), "code": (), "funccode": (), "function": ("__wrapped__",), "suppress": (), "template": (), "stringio": (),
                 "nullcontext": (), "staticmethod": (), "classmethod": ()}
_ALL_BUILTINS = frozenset(dir(__import__("builtins")))
_OPERATOR_FNS = {"is", "is_not", "eq", "ne", "lt", "le", "gt", "ge", "contains", "not", "truth", "getitem", "add", "concat", "sub", "mul", "mod",
                 "floordiv", "and", "or", "xor", "lshift", "rshift", "call"}
_OPAQUE_DATA = ("field", "wire", "default", "arg")      # symbols that stand for arbitrary run-time values
_IDENT = ("name", "fmt", "hook", "clsname", "modname")  # symbols that stand for distinct identities


def is_concrete(v) -> bool:
    if v is None or isinstance(v, (bool, int, float, str, bytes, range)):
        return True
    if isinstance(v, (list, tuple, set, frozenset)):
        return all(is_concrete(x) for x in v)
    if isinstance(v, dict):
        return all(is_concrete(k) and is_concrete(x) for k, x in v.items())
    return False


def is_strlike(v) -> bool:
    return isinstance(v, (str, SStr)) or (isinstance(v, Sym) and v.typ == "str")


def mkstr(parts) -> object:
    out: list = []
    for p in parts:
        for q in (p.parts if isinstance(p, SStr) else (p,)):
            if isinstance(q, str):
                if not q:
                    continue
                if out and isinstance(out[-1], str):
                    out[-1] += q
                    continue
            out.append(q)
    if not out:
        return ""
    if len(out) == 1 and (isinstance(out[0], str) or (isinstance(out[0], Sym) and out[0].typ == "str")):
        return out[0]
    return SStr(tuple(out))


def to_text(v, how: str):
    """str(v) / repr(v) as a (symbolic) string."""
    if how == "s" and is_strlike(v):
        return v
    if is_concrete(v):
        return str(v) if how == "s" else repr(v)
    return SStr((Conv(how, _freeze(v)),))


def _freeze(v):
    if isinstance(v, list):
        return ("<list>", *[_freeze(x) for x in v])
    if isinstance(v, tuple):
        return tuple(_freeze(x) for x in v)
    if isinstance(v, dict):
        return ("<dict>", *[(_freeze(k), _freeze(x)) for k, x in v.items()])
    return v


class World:
    """Mutable state shared by the evaluations of one scenario: module-level objects, placeholders, event log."""

    def __init__(self, repo) -> None:
        self.repo = repo
        self.consts: dict[int, object] = {}
        self.funcs: dict[int, Func] = {}
        self.ph: list = []
        self.ph_index: dict = {}
        self.events: list = []
        self.steps = 0
        self.sysmodules: dict = {}
        self.stubs: dict[int, object] = {}
        self.big: set[int] = set()
        self.conv_nodes: dict = {}
        self.parse_cache: dict[str, object] = {}
        self.touched: set[str] = set()
        self.exec_texts: list = []     # every source text handed to exec(), in order
        self.forking = False           # inside `forked`: questions about opaque default values are answered per case
        self.assumed: dict = {}        # ("truth" | "none", default symbol) -> bool, the case under evaluation
        self.in_const = 0              # > 0 while a value that is cached for all runs (module constant, decorated function) is computed
        self.orders: dict = {}         # frozenset of opaque values -> the iteration order under evaluation (`decided`)

    def place(self, part) -> str:
        try:
            i = self.ph_index.get(part)
        except TypeError:
            i = None
        if i is None:
            i = len(self.ph)
            self.ph.append(part)
            try:
                self.ph_index[part] = i
            except TypeError:
                pass
        return f"Zq{i}qZ"

    def render(self, s) -> str:
        if isinstance(s, str):
            return s
        parts = s.parts if isinstance(s, SStr) else (s,)
        return "".join(p if isinstance(p, str) else self.place(p) for p in parts)

    def unplace(self, s: str):
        if "Zq" not in s:
            return s
        parts: list = []
        pos = 0
        for m in _PH.finditer(s):
            parts.append(s[pos:m.start()])
            parts.append(self.ph[int(m.group(1))])
            pos = m.end()
        parts.append(s[pos:])
        return mkstr(parts)


class Frame:
    def __init__(self, func: Func, locals_: ChainMap) -> None:
        self.func = func
        self.locals = locals_
        self.exc: PyExc | None = None
        self.yields: list | None = None


# ===================================================================================================== abstract interpreter
class Interp:
    """Evaluates function bodies of /repo (and generated source) over symbolic values.  Nothing is imported or run."""

    MAX_STEPS = 3_000_000

    def __init__(self, world: World) -> None:
        self.w = world
        self.repo = world.repo
        self.depth = 0

    # ------------------------------------------------------------------------------------------ names
    def ident(self, s: str):
        return self.w.unplace(s) if self.w.ph else s

    def func_of(self, fi: FuncInfo) -> Func:
        f = self.w.funcs.get(id(fi.node))
        if f is None:
            f = self.w.funcs[id(fi.node)] = Func(fi.node, fi.module, fi)
        return f

    def module_frame(self, module: Module) -> Frame:
        return Frame(Func(module.tree, module), ChainMap({}))

    def global_get(self, module: Module, name):
        if not isinstance(name, str):
            raise PyExc("NameError", repr(name))
        r = self.repo.resolve_name(module, name)
        if isinstance(r, ClassInfo):
            return RepoCls(r)
        if isinstance(r, FuncInfo):
            return self.func_of(r)
        if isinstance(r, tuple) and r[0] == "const":
            key = id(r[2])
            if key not in self.w.consts:
                self.w.in_const += 1
                try:
                    self.w.consts[key] = self.ev(r[2], self.module_frame(r[1]))
                finally:
                    self.w.in_const -= 1
            return self.w.consts[key]
        if isinstance(r, tuple) and r[0] == "module" and r[1] is not None:
            return ModRef(r[1])
        if name in module.imports:
            mod, attr = module.imports[name]
            if mod.split(".")[0] == "ipv8" or mod in self.repo.modules:
                raise Und(f"import {name} from {mod} cannot be resolved")
            return Ext(mod + ("." + attr if attr else ""))
        if name in _TYPE_NAMES or name in _FUNC_NAMES or name in _EXC_NAMES:
            return Builtin(name)
        if name in _ALL_BUILTINS:
            if name in ("True", "False", "None", "NotImplemented", "Ellipsis", "__debug__"):
                raise Und(f"builtin constant {name} used as a name")
            return Builtin(name)          # a builtin this interpreter has no model of: calling it is undecided, not a NameError
        raise PyExc("NameError", name)

    def lookup(self, name, fr: Frame):
        if name in fr.locals:
            return fr.locals[name]
        return self.global_get(fr.func.module, name)

    # ------------------------------------------------------------------------------------------ truth / equality
    def truth(self, v):
        """True / False / None (unknown)."""
        if v is None or isinstance(v, (bool, int, float, str, bytes, list, tuple, dict, set, frozenset, range)):
            return bool(v)
        if isinstance(v, Sym):
            if v.kind in ("name", "fmt", "hook", "clsname", "modname"):
                return True          # identifiers / registered format names are not empty, hooks are functions
            if v.kind == "default":
                return self.default_case("truth", v)
            return None
        if isinstance(v, SStr):
            if any(isinstance(p, str) or (isinstance(p, Sym) and p.kind in _IDENT) or (isinstance(p, Conv) and p.how == "r") for p in v.parts):
                return True
            return None
        if isinstance(v, App):
            return None
        if isinstance(v, Obj) and isinstance(v.cls, RepoCls):
            if self.tuple_of(v) is not None:
                return bool(v.fields)
            ev = self.enum_value(v)
            if ev is not MISSING:
                return self.truth(ev)
            for special in ("__bool__", "__len__"):
                raw = self.class_member(v.cls, special)
                if isinstance(raw, Func):
                    r = self.call(Bound(raw, v), [])
                    return self.truth(r)
            if self.class_kind(v.cls.ci) is None:
                return None
            return True
        return True

    def enum_value(self, o):
        """The value an IntEnum / StrEnum / IntFlag member compares and tests as; MISSING for everything else (plain Enum members
        are only equal to themselves and always true)."""
        if isinstance(o, Obj) and isinstance(o.cls, RepoCls) and self.class_kind(o.cls.ci) == "enum" and "name" in o.attrs:
            base = o.cls.ci.base_names[0].rsplit(".", 1)[-1]
            if base in ("IntEnum", "StrEnum", "IntFlag"):
                if "value" not in o.attrs:
                    raise Und(f"value of the enumeration member {o!r}")
                return o.attrs["value"]
        return MISSING

    def default_case(self, what: str, v: Sym):
        """Truth value / None-ness of an opaque constructor default: any Python object may be a default, so both answers occur
        among the definitions the property quantifies over.  Answered from the case under evaluation (`forked`), else unknown."""
        w = self.w
        if what == "truth":
            if w.assumed.get(("none", v)) is True:
                return False
            t = w.assumed.get(("truth", v))
        else:
            if w.assumed.get(("truth", v)) is True:
                return False
            t = w.assumed.get(("none", v))
        if t is None and w.forking:
            raise NeedCase((what, v), f"the evaluated code depends on {'the truth value of' if what == 'truth' else 'whether None is'} the default value {v!r}")
        return t

    def veq(self, a, b):
        """a == b : True / False / None (unknown)."""
        if a is b:
            return True
        if isinstance(a, Obj) and self.tuple_of(a) is not None:
            a = self.tuple_of(a)
        if isinstance(b, Obj) and self.tuple_of(b) is not None:
            b = self.tuple_of(b)
        if self.enum_value(a) is not MISSING:
            a = self.enum_value(a)
        if self.enum_value(b) is not MISSING:
            b = self.enum_value(b)
        for x in (a, b):
            if isinstance(x, Obj) and isinstance(x.cls, RepoCls) and "__eq__" in {k for c in x.cls.ci.mro() for k in c.methods}:
                raise Und(f"equality of {x!r} (custom __eq__)")
        if isinstance(a, Obj) and isinstance(b, Obj) and a.cls == b.cls and isinstance(a.cls, RepoCls) and self.class_kind(a.cls.ci) == "dataclass" \
                and "__eq__" not in a.cls.ci.methods and getattr(a, "match_args", None) is not None:
            return self.veq([a.attrs.get(n) for n in a.match_args], [b.attrs.get(n) for n in b.match_args])
        if (a is None or b is None) and isinstance(b if a is None else a, Sym) and (b if a is None else a).kind == "default":
            return self.default_case("none", b if a is None else a)
        if is_concrete(a) and is_concrete(b):
            return a == b
        if isinstance(a, (list, tuple)) and isinstance(b, (list, tuple)):
            if type(a) is not type(b) or len(a) != len(b):
                return False
            res = True
            for x, y in zip(a, b):
                t = self.veq(x, y)
                if t is False:
                    return False
                if t is None:
                    res = None
            return res
        if isinstance(a, dict) and isinstance(b, dict):
            return True if a == b else None
        for x, y in ((a, b), (b, a)):
            if isinstance(x, Sym):
                if isinstance(y, Sym):
                    if x == y:
                        return True
                    return False if (x.kind in _IDENT and y.kind in _IDENT) else None
                if x.kind in _IDENT:
                    if isinstance(y, str):
                        if x.kind == "fmt" and y == "bits":
                            return False
                        raise Und(f"the code compares a {x.kind} symbol with the literal {y!r}: special-cased definitions are outside the enumerated family")
                    if isinstance(y, SStr):
                        return False
                    return False
                if x.kind in _OPAQUE_DATA:
                    return None
        if isinstance(a, SStr) and isinstance(b, SStr):
            return a == b
        for x, y in ((a, b), (b, a)):
            if isinstance(x, SStr):
                if isinstance(y, str):
                    head = x.parts[0]
                    if isinstance(head, str) and not y.startswith(head[:len(y)]):
                        return False
                    return None
                return False
        if isinstance(a, App) or isinstance(b, App):
            return True if a == b else None
        try:
            return bool(a == b)
        except Exception:  # noqa: BLE001
            return False

    def same(self, a, b):
        """a is b : True / False / None."""
        if a is b:
            return True
        if a is None or b is None:
            o = b if a is None else a
            if isinstance(o, Sym) and o.kind == "default":
                return self.default_case("none", o)
            if isinstance(o, Sym) and o.kind in ("default", "arg", "field"):
                return None
            if isinstance(o, App):
                return None
            return False
        if isinstance(a, (bool,)) or isinstance(b, (bool,)):
            if isinstance(a, bool) and isinstance(b, bool):
                return a == b
            if isinstance(a, (Sym, App)) or isinstance(b, (Sym, App)):
                o = b if isinstance(a, bool) else a
                return None if (isinstance(o, App) or o.kind in _OPAQUE_DATA) else False
            return False
        if isinstance(a, (Ext, Builtin, RepoCls, Sym, ObjInit)) or isinstance(b, (Ext, Builtin, RepoCls, Sym, ObjInit)):
            if type(a) is not type(b):
                return False         # opaque data values are ordinary run-time values, never a library sentinel / class / function
            if isinstance(a, Sym) and a != b and (a.kind in _OPAQUE_DATA or b.kind in _OPAQUE_DATA):
                return None
            return a == b
        if isinstance(a, (int, str)) and isinstance(b, (int, str)):
            return type(a) is type(b) and a == b
        if isinstance(a, App) or isinstance(b, App):
            return None
        return False

    def compare(self, op, a, b):
        if isinstance(op, ast.Eq):
            return self.veq(a, b)
        if isinstance(op, ast.NotEq):
            t = self.veq(a, b)
            return None if t is None else not t
        if isinstance(op, ast.Is):
            return self.same(a, b)
        if isinstance(op, ast.IsNot):
            t = self.same(a, b)
            return None if t is None else not t
        if isinstance(op, (ast.In, ast.NotIn)):
            t = self.contains(b, a)
            return t if isinstance(op, ast.In) or t is None else not t
        if isinstance(a, Sym) and isinstance(b, Sym) and a.kind == "name" and b.kind == "name":
            a, b = -a.key, -b.key      # convention: the abstract names are in descending lexicographic order
        if is_concrete(a) and is_concrete(b):
            try:
                if isinstance(op, ast.Lt):
                    return a < b
                if isinstance(op, ast.LtE):
                    return a <= b
                if isinstance(op, ast.Gt):
                    return a > b
                if isinstance(op, ast.GtE):
                    return a >= b
            except TypeError as e:
                raise PyExc("TypeError", str(e)) from e
        return None

    def contains(self, container, item):
        if isinstance(container, dict):
            try:
                return item in container      # hash lookup: structurally different symbolic keys are different keys
            except TypeError as e:
                raise PyExc("TypeError", str(e)) from e
        if isinstance(container, str):
            if isinstance(item, str):
                return item in container
            return None
        if isinstance(container, (set, frozenset)) and isinstance(item, (list, dict, set)):
            raise PyExc("TypeError", f"unhashable type: {type(item).__name__!r}")       # a set lookup hashes the item first
        if isinstance(container, (list, tuple, set, frozenset, range)):
            res = False
            for x in container:
                t = self.veq(x, item)
                if t is True:
                    return True
                if t is None:
                    res = None
            return res
        if isinstance(container, (IterObj, GenIter)):
            for x in self.iterate(container):     # `in` on an iterator consumes it up to the first equal item
                t = self.veq(x, item)
                if t is True:
                    return True
                if t is None:
                    raise Und("membership test on an iterator depends on a run-time value")
            return False
        if isinstance(container, (SStr, Sym, App)):
            return None
        if isinstance(container, Obj) and self.tuple_of(container) is not None:
            return self.contains(self.tuple_of(container), item)
        if not self.surely_not_iterable(container):
            raise Und(f"membership test on {container!r}")
        raise PyExc("TypeError", f"argument of type {self.type_name(container)} is not iterable")

    def iterate(self, v):
        if isinstance(v, Obj) and self.tuple_of(v) is not None:
            v = self.tuple_of(v)
        if isinstance(v, list):
            i = 0
            while i < len(v):
                yield v[i]
                i += 1
            return
        if isinstance(v, IterObj):
            while v.pos < len(v.seq):
                x = v.seq[v.pos]
                v.pos += 1
                yield x
            return
        if isinstance(v, GenIter):
            while True:
                try:
                    x = next(v.gen)
                except StopIteration:
                    return
                yield x
        if isinstance(v, CountIter):
            for _ in range(20000):
                x = v.cur
                v.cur = x + v.step
                yield x
            raise Und("an unbounded iterator is consumed without a bound")
        if isinstance(v, (tuple, range)):
            yield from v
            return
        if isinstance(v, dict):
            yield from list(v.keys())
            return
        if isinstance(v, str):
            yield from v
            return
        if isinstance(v, (set, frozenset)):
            if len(v) <= 1 or is_concrete(v):
                yield from sorted(v, key=repr)
                return
            key = frozenset(v)
            order = self.w.orders.get(key)
            if self.w.in_const:
                raise Und("a module-level constant is computed from the iteration order of a set of symbols")
            if order is None:
                if len(v) > 4:
                    raise Und(f"iteration order of a set of {len(v)} symbols")
                raise NeedOrder(key, "iteration order of a set of symbols")
            yield from order
            return
        if isinstance(v, (Sym, SStr, App)) or not self.surely_not_iterable(v):
            raise Und(f"iteration over the opaque value {v!r}")
        raise PyExc("TypeError", f"{self.type_name(v)} object is not iterable")

    def surely_not_iterable(self, v) -> bool:
        """CPython raises TypeError when this value is iterated (None, numbers, functions, builtin type objects, instances of the
        abstract payload classes): everything else this interpreter has no iteration model for is undecided."""
        if v is None or isinstance(v, (bool, int, float, Func, Bound, ClsObj, ObjInit, HookDef, Partial)):
            return True
        if isinstance(v, Builtin):
            return True
        if isinstance(v, Obj):
            return isinstance(v.cls, ClsObj) or v.cls is None
        return False

    def iter_of(self, v):
        """iter(v) as a Python generator: whether v is iterable at all is decided NOW (CPython raises TypeError when the pipeline
        is built), its items are produced when they are consumed."""
        if isinstance(v, (list, tuple, range, dict, str, set, frozenset, IterObj, GenIter, CountIter)) or self.tuple_of(v) is not None:
            return self.iterate(v)
        if isinstance(v, (Sym, SStr, App)) or not self.surely_not_iterable(v):
            raise Und(f"iteration over the opaque value {v!r}")
        raise PyExc("TypeError", f"{self.type_name(v) or type(v).__name__} object is not iterable")

    # ------------------------------------------------------------------------------------------ classes and attributes
    def linearize(self, cls) -> list:
        if isinstance(cls, RepoCls):
            return [RepoCls(c) for c in cls.ci.mro()]
        out = [cls]
        for b in cls.bases:
            for c in self.linearize(b):
                if c not in out:
                    out.append(c)
        return out

    def is_subclass(self, c, t) -> bool:
        if isinstance(c, (ClsObj, RepoCls)):
            if isinstance(t, (ClsObj, RepoCls)):
                return t in self.linearize(c)
            if isinstance(t, Builtin):
                return t.name == "object"
            if isinstance(t, Ext):
                return False
        if isinstance(c, Builtin) and c.name in _TYPE_NAMES:
            if isinstance(t, Builtin):
                return c.name == t.name or t.name == "object" or (c.name, t.name) == ("bool", "int")
            return False
        if isinstance(c, Builtin) and c.name in _EXC_NAMES:
            return isinstance(t, Builtin) and (t.name == c.name or t.name in ("Exception", "BaseException", "object"))
        if isinstance(c, (Sym, App, Ext)) or (isinstance(c, (ClsObj, RepoCls, Builtin)) and not isinstance(t, (ClsObj, RepoCls, Builtin, Ext))):
            raise Und(f"issubclass({c!r}, {t!r})")
        if isinstance(c, Builtin):
            raise Und(f"issubclass of the builtin {c.name}")
        raise PyExc("TypeError", "issubclass() arg 1 must be a class")

    def type_name(self, v):
        """Name of the builtin type of a value, a class object for instances, None if unknown."""
        if v is None:
            return "NoneType"
        for t, n in ((bool, "bool"), (int, "int"), (float, "float"), (str, "str"), (bytes, "bytes"), (list, "list"), (tuple, "tuple"),
                     (dict, "dict"), (set, "set"), (frozenset, "frozenset"), (range, "range")):
            if isinstance(v, t):
                return n
        if isinstance(v, SStr) or (isinstance(v, Sym) and v.typ == "str"):
            return "str"
        if isinstance(v, Obj):
            return v.cls
        if isinstance(v, (ClsObj, RepoCls)) or (isinstance(v, Builtin) and (v.name in _TYPE_NAMES or v.name in _EXC_NAMES)):
            return "type"
        if isinstance(v, (Func, Bound, PyMethod, ObjInit)) or (isinstance(v, Builtin)) or (isinstance(v, Sym) and v.typ == "callable"):
            return "function"
        if isinstance(v, Rec):
            return "rec:" + v.kind
        if isinstance(v, (Ext, ModRef)):
            return "ext"
        if isinstance(v, Constructed):
            return v.cls
        if isinstance(v, ExcVal):
            return "exc:" + v.kind
        if isinstance(v, (IterObj, GenIter, CountIter)):
            return "iterator"
        if isinstance(v, Partial):
            return "function"
        return None

    _LITERAL_TYPES = ("int", "str", "bytes", "bool", "float", "NoneType", "tuple")

    def default_isa(self, v: Sym, t) -> bool:
        """isinstance(<opaque constructor default>, t).  Any object may be a default, so the code's question splits the definitions
        the property quantifies over: first 'is it a value of a builtin literal type' (case key "lit"), then - only if the code goes on
        asking - which one (case keys "isa:<type>", at most one of them true; bool is an int).  In the case 'not a literal' the default is
        an instance of `object` only (an object of a class the evaluated code does not name)."""
        w = self.w
        if isinstance(t, Builtin) and t.name == "object":
            return True
        if w.assumed.get(("none", v)) is True:
            known = "NoneType"
        else:
            lit = w.assumed.get(("lit", v))
            if lit is None:
                raise NeedCase(("lit", v), f"the evaluated code depends on the type of the default value {v!r}")
            if not lit:
                return False
            known = next((k[0][4:] for k, val in w.assumed.items() if val is True and k[1] == v and k[0].startswith("isa:")), None)
        if not isinstance(t, Builtin) or t.name not in self._LITERAL_TYPES:
            return False
        if known is not None:
            return known == t.name or (known, t.name) == ("bool", "int")
        if t.name == "NoneType":
            none = self.default_case("none", v)
            if none is None:
                raise Und(f"whether the default value {v!r} is None")
            return none
        ans = w.assumed.get(("isa:" + t.name, v))
        if ans is None:
            raise NeedCase(("isa:" + t.name, v), f"the evaluated code depends on whether the default value {v!r} is a {t.name}")
        return ans

    def is_instance(self, v, t) -> bool:
        if isinstance(t, tuple):
            return any(self.is_instance(v, x) for x in t)
        if isinstance(v, Sym) and v.kind == "default" and self.w.forking:
            return self.default_isa(v, t)
        tn = self.type_name(v)
        if tn is None:
            raise Und(f"type of the opaque value {v!r} is not known")
        if isinstance(t, Builtin):
            if t.name == "object" or (t.name == "tuple" and isinstance(v, Obj) and self.tuple_of(v) is not None):
                return True
            if isinstance(tn, str):
                if tn == t.name or (tn, t.name) == ("bool", "int"):
                    return True
                if tn.startswith("exc:"):
                    return self.exc_matches(tn[4:], t.name)
                return False
            return False
        if isinstance(t, Ext):
            kind = _EXT_CLASSES.get(t.name)
            if kind is not None:          # a library class whose instances this interpreter models as records of exactly that kind
                return tn == "rec:" + kind
            if isinstance(tn, str) and tn.startswith("rec:"):
                return t.name.rsplit(".", 1)[-1].lower() == tn[4:]
            if t.name in ("collections.abc.Hashable", "typing.Hashable"):
                try:
                    hash(v)
                except TypeError:
                    return False
                return True
            raise Und(f"isinstance against the library class {t.name} (not modelled)")
        if isinstance(t, (ClsObj, RepoCls)):
            return not isinstance(tn, str) and self.is_subclass(tn, t)
        raise Und(f"isinstance against {t!r}")

    @staticmethod
    def exc_matches(kind: str, handler: str) -> bool:
        k = kind
        while k:
            if k == handler:
                return True
            k = _EXC_PARENTS.get(k)
        return handler in ("Exception", "BaseException")

    def akey(self, name):
        if isinstance(name, str):
            return self.ident(name)
        if is_strlike(name):
            return name
        raise PyExc("TypeError", "attribute name must be string")

    def class_member(self, cls, key):
        """Raw class attribute through the MRO, or MISSING."""
        for c in self.linearize(cls):
            if isinstance(c, ClsObj):
                if key in c.attrs:
                    return c.attrs[key]
            elif isinstance(key, str):
                ci = c.ci
                if key in ci.methods:
                    return self.func_of(ci.methods[key])
                if key in ci.attrs and not key.startswith("_") and self.class_kind(ci) == "enum":
                    return self.enum_member(c, key)
                if key in ci.attrs:
                    k = id(ci.attrs[key])
                    if k not in self.w.consts:
                        self.w.in_const += 1
                        try:
                            self.w.consts[k] = self.ev(ci.attrs[key], self.module_frame(ci.module))
                        finally:
                            self.w.in_const -= 1
                    return self.w.consts[k]
        return MISSING

    def _descr(self, raw, inst, cls):
        if isinstance(raw, Func):
            decs = raw.fi.decorator_names() if raw.fi else [chain(d) for d in getattr(raw.node, "decorator_list", [])]
            if "staticmethod" in decs:
                return raw
            if "classmethod" in decs:
                return Bound(raw, cls)
            if inst is not None and any(d in ("property", "functools.cached_property", "cached_property") for d in decs):
                return self.call_plain(raw, [inst])
            return Bound(raw, inst) if inst is not None else raw
        if isinstance(raw, HookDef):
            return Sym("hook", (raw.prefix, raw.index, "inst" if inst is not None else "cls"), "callable")
        if isinstance(raw, Rec) and raw.kind == "staticmethod":
            return raw.fields["func"]
        if isinstance(raw, Rec) and raw.kind == "classmethod":
            return Bound(raw.fields["func"], cls)
        if isinstance(raw, Rec) and raw.kind == "function" and inst is not None:
            return Bound(raw, inst)
        return raw

    def getattr_(self, o, name, default=MISSING):
        try:
            return self._getattr(o, self.akey(name))
        except PyExc as e:
            if e.kind == "AttributeError" and default is not MISSING:
                return default
            raise

    def _getattr(self, o, key):  # noqa: C901, PLR0911, PLR0912
        if isinstance(o, Obj):
            if key == "__class__" and o.cls is not None:
                return o.cls
            if key == "__dict__":
                return o.attrs
            if key in o.attrs:
                return o.attrs[key]
            if o.cls is not None:
                raw = self.class_member(o.cls, key)
                if raw is not MISSING:
                    return self._descr(raw, o, o.cls)
                if key == "__init__":
                    return ObjInit(repr(o.cls))
            if isinstance(o.cls, RepoCls):
                if o.fields is not None:
                    if key == "_fields":
                        return tuple(o.fields)
                    if key in ("_asdict", "_replace", "index", "count"):
                        return PyMethod(o, key)
                    if isinstance(key, str) and (hasattr(tuple, key) or key in ("_make", "_field_defaults")):
                        raise Und(f"attribute {key!r} of a NamedTuple instance (not modelled)")
                elif o.match_args is not None and key in ("__dataclass_fields__", "__dataclass_params__", "__match_args__"):
                    if key == "__match_args__":
                        return tuple(o.match_args)
                    raise Und(f"attribute {key!r} of a dataclass instance (not modelled)")
            raise self.no_attr(o, key, f"{o!r} has no attribute {key!r}")
        if isinstance(o, (ClsObj, RepoCls)):
            raw = self.class_member(o, key)
            if raw is not MISSING:
                return self._descr(raw, None, o)
            if key == "__name__":
                return o.attrs.get("__name__", o.name) if isinstance(o, ClsObj) else o.ci.name
            if key == "__qualname__":
                return o.name if isinstance(o, ClsObj) else o.ci.name
            if key == "__module__" and isinstance(o, RepoCls):
                return o.ci.module.name
            if key in ("mro", "__subclasses__"):
                return PyMethod(o, key)
            if key == "__mro__":
                return (*self.linearize(o), Builtin("object"))
            if key == "__dict__":
                return o.attrs if isinstance(o, ClsObj) else {**{k: self.func_of(f) for k, f in o.ci.methods.items()}}
            if key == "__class__":
                return Builtin("type")
            if key == "__bases__":
                return tuple(o.bases) if isinstance(o, ClsObj) else tuple(RepoCls(b) for b in o.ci.bases)
            if key in ("__init__", "__new__"):
                return ObjInit(repr(o))
            raise self.no_attr(o, key, f"type object {o!r} has no attribute {key!r}", proto=type)
        if isinstance(o, Rec):
            if o.kind == "super":
                return self._super_attr(o, key)
            if o.kind == "template" and key in ("substitute", "safe_substitute"):
                return PyMethod(o, key)
            if o.kind == "stringio" and key in ("write", "writelines", "getvalue", "close"):
                return PyMethod(o, key)
            if key in o.fields:
                return o.fields[key]
            if o.kind == "function" and key == "__get__":
                raise Und("descriptor protocol")
            if o.kind in _LIBRARY_RECS and not (isinstance(key, str) and key in _LIBRARY_RECS[o.kind]):
                # a library object of which only the attributes in use are modelled
                raise Und(f"attribute {key!r} of a {o.kind} object (not modelled)")
            raise self.no_attr(o, key, f"{o!r} has no attribute {key!r}")
        if isinstance(o, Ext):
            if not isinstance(key, str):
                raise Und(f"attribute {key!r} of {o.name}")
            return Ext(o.name + "." + key)
        if isinstance(o, ModRef):
            return self.global_get(o.module, key)
        if isinstance(o, Func):
            return self._func_attr(o, key, skip=0)
        if isinstance(o, Bound):
            if key == "__self__":
                return o.self
            if key == "__func__":
                return o.func
            return self._getattr(o.func, key)
        if isinstance(o, Builtin):
            if key == "__name__":
                return o.name
            if key == "mro" and o.name in _TYPE_NAMES:
                return PyMethod(o, key)
            if key == "__mro__" and o.name in _TYPE_NAMES:
                return (o, Builtin("object"))
            if key == "__setattr__" and o.name == "object":
                return Builtin("object.__setattr__")
            real = getattr(__import__("builtins"), o.name, None)
            if not isinstance(key, str) or real is None or hasattr(real, key):
                raise Und(f"attribute {key!r} of the builtin {o.name} (not modelled)")
            raise PyExc("AttributeError", f"{o.name} has no attribute {key!r}")
        if isinstance(o, ExcVal):
            if key == "args":
                return o.args
            raise Und(f"attribute {key!r} of an exception object")
        if isinstance(o, Constructed):
            raise Und(f"attribute {key!r} of a constructed payload")
        tn = self.type_name(o)
        if isinstance(tn, str) and tn in ("str", "list", "tuple", "dict", "set", "frozenset", "bytes", "int"):
            if key == "__class__":
                return Builtin(tn)
            if isinstance(key, str) and (hasattr({"str": "", "list": [], "tuple": (), "dict": {}, "set": set(), "frozenset": frozenset(), "bytes": b"", "int": 0}[tn], key)):
                return PyMethod(o, key)
            raise PyExc("AttributeError", f"{tn} object has no attribute {key!r}")
        if o is None:
            raise self.no_attr(o, key, f"NoneType object has no attribute {key!r}")
        if isinstance(o, (IterObj, GenIter, CountIter)) and key in ("__next__", "__iter__"):
            return PyMethod(o, key)
        raise Und(f"attribute {key!r} of the opaque value {o!r}")

    @staticmethod
    def no_attr(o, key, msg: str, proto=object):
        """AttributeError - unless it is a special attribute every object (every class, for proto=type) has and this interpreter
        simply has no model of: that is undecided, never a verdict."""
        if isinstance(key, str) and key.startswith("__") and key.endswith("__") and hasattr(proto, key):
            return Und(f"special attribute {key!r} of {o!r} (not modelled)")
        return PyExc("AttributeError", msg)

    def _super_attr(self, sup: Rec, key):
        if key == "__class__":
            return Builtin("super")
        inst, owner = sup.fields["self"], sup.fields["owner"]
        start = inst if isinstance(inst, (ClsObj, RepoCls)) else inst.cls if isinstance(inst, Obj) else None
        if start is None:
            raise Und("super() of an opaque receiver")
        lin = self.linearize(start)
        rest = lin[lin.index(owner) + 1:] if owner in lin else []
        for c in rest:
            if isinstance(c, ClsObj) and key in c.attrs:
                return self._descr(c.attrs[key], inst if isinstance(inst, Obj) else None, start)
            if isinstance(c, RepoCls) and isinstance(key, str) and key in c.ci.methods:
                return self._descr(self.func_of(c.ci.methods[key]), inst if isinstance(inst, Obj) else None, start)
        if key in ("__init__", "__new__", "__init_subclass__"):
            return ObjInit("super")
        if key == "__setattr__" and isinstance(inst, Obj):
            return Partial(Builtin("object.__setattr__"), (inst,), ())
        if isinstance(key, str) and key.startswith("__") and key.endswith("__") and hasattr(object, key):
            raise Und(f"special attribute {key!r} of a super object (not modelled)")
        raise PyExc("AttributeError", f"super object has no attribute {key!r}")

    def func_params(self, f: Func, skip: int):
        """[(name, default | EMPTY, kind)] from the syntax tree."""
        a = f.node.args
        fr = Frame(f, ChainMap({}, *(f.closure.maps if f.closure is not None else [])))
        out = []
        pos = a.posonlyargs + a.args
        off = len(pos) - len(a.defaults)
        for i, p in enumerate(pos):
            out.append((self.ident(p.arg), self.ev(a.defaults[i - off], fr) if i >= off else EMPTY, "pos"))
        if a.vararg:
            out.append((self.ident(a.vararg.arg), EMPTY, "var"))
        for p, d in zip(a.kwonlyargs, a.kw_defaults):
            out.append((self.ident(p.arg), self.ev(d, fr) if d is not None else EMPTY, "kwonly"))
        if a.kwarg:
            out.append((self.ident(a.kwarg.arg), EMPTY, "varkw"))
        return out[skip:]

    def _func_attr(self, f: Func, key, skip: int):
        if key in ("__name__", "__qualname__", "__doc__", "__module__") and f.wrapped is not None:
            return self._getattr(f.wrapped, key)
        if key == "__name__":
            return f.name
        if key in ("__code__", "__defaults__", "__kwdefaults__"):
            return function_record(f.name, self.func_params(f, skip)).fields[key]
        if key == "__wrapped__":
            if f.wrapped is not None:
                return f.wrapped
            raise PyExc("AttributeError", key)
        raise Und(f"function attribute {key!r}")

    def setattr_(self, o, name, value, raw: bool = False) -> None:
        key = self.akey(name)
        if isinstance(o, Obj) and o.cls is not None and not raw:
            # `obj.name = value` is type(obj).__setattr__(obj, name, value): a class of the evaluated code that defines it is followed
            hook = self.class_member(o.cls, "__setattr__")
            if hook is not MISSING:
                if not isinstance(hook, Func):
                    raise Und(f"__setattr__ of {o.cls!r} is {hook!r} (not modelled)")
                self.call(hook, [o, name, value])
                return
        if isinstance(o, (Obj, ClsObj)):
            o.attrs[key] = value
            self.w.events.append(("set", o, key, value))
            return
        if isinstance(o, Rec):
            o.fields[key] = value
            return
        raise Und(f"attribute store on {o!r}")

    # ------------------------------------------------------------------------------------------ calls
    def call(self, f, args, kw=None):  # noqa: C901, PLR0911
        kw = kw or {}
        if isinstance(f, Bound):
            return self.call(f.func, [f.self, *args], kw)
        if isinstance(f, Func):
            return self.call_func(f, list(args), kw)
        if isinstance(f, Builtin):
            return self.call_builtin(f.name, list(args), kw)
        if isinstance(f, Ext):
            return self.call_ext(f.name, list(args), kw)
        if isinstance(f, PyMethod):
            return self.call_pymethod(f.obj, f.name, list(args), kw)
        if isinstance(f, Partial):
            return self.call(f.fn, [*f.args, *args], {**dict(f.kw), **kw})
        if isinstance(f, ClsObj):
            return Constructed(f, tuple(_freeze(a) for a in args), tuple(sorted(((k, _freeze(v)) for k, v in kw.items()), key=repr)))
        if isinstance(f, ObjInit):
            self.w.events.append(("base-init", f.owner, args[0] if args else None))
            return None
        if isinstance(f, HookDef):
            # the plain function found in a class __dict__: calling it with an explicit receiver is the bound call
            if not args:
                raise PyExc("TypeError", f"{f.prefix}n{f.index}() missing the receiver argument")
            how = "inst" if isinstance(args[0], Obj) else "cls"
            return self.call(Sym("hook", (f.prefix, f.index, how), "callable"), list(args[1:]), kw)
        if isinstance(f, Sym) and f.typ == "callable":
            return App(f, tuple(_freeze(a) for a in args), tuple(sorted(((k, _freeze(v)) for k, v in kw.items()), key=repr)))
        if isinstance(f, RepoCls):
            if any(n.endswith(("Error", "Exception")) for n in [f.ci.name, *f.ci.all_base_names()]):
                return ExcVal(f.ci.name, tuple(args))
            return self.instantiate(f, list(args), kw)
        if isinstance(f, Obj) and isinstance(f.cls, RepoCls):
            raw = self.class_member(f.cls, "__call__")
            if isinstance(raw, Func):
                return self.call(self._descr(raw, f, f.cls), args, kw)
            raise PyExc("TypeError", f"{f!r} is not callable")
        if isinstance(f, Rec) and f.kind == "function":
            raise PyExc("TypeError", f"the definition's own {f.fields['name']} is still in place (not replaced by generated code)")
        if isinstance(f, (App, Sym)):
            raise Und(f"call of the opaque value {f!r}")
        if f is None or is_concrete(f) or isinstance(f, (list, tuple, dict, set, frozenset, SStr, IterObj, GenIter, CountIter, Constructed, IdTok)) \
                or (isinstance(f, Obj) and (f.cls is None or isinstance(f.cls, ClsObj))):
            raise PyExc("TypeError", f"{f!r} is not callable")
        raise Und(f"call of {f!r} (not modelled)")

    # -------------------------------------------------------------------------- small record / callable classes of the library
    def class_kind(self, ci: ClassInfo):
        """'plain' | 'dataclass' | 'namedtuple' | 'enum' for a small self-contained helper class (no library base class, no
        metaclass, at most a dataclass decorator), else None: only those are instantiated by this interpreter."""
        node = ci.node
        if ci.bases or node.keywords:
            return None
        decs = [(chain(d.func) if isinstance(d, ast.Call) else chain(d)) or "?" for d in node.decorator_list]
        bases = [b.rsplit(".", 1)[-1] for b in ci.base_names]
        if any(d.rsplit(".", 1)[-1] not in ("dataclass", "final", "unique") for d in decs):
            return None
        is_dc = any(d.rsplit(".", 1)[-1] == "dataclass" for d in decs)
        if not bases or bases == ["object"]:
            return "dataclass" if is_dc else "plain"
        if is_dc:
            return None
        if bases == ["NamedTuple"]:
            return "namedtuple"
        if len(bases) == 1 and bases[0] in ("Enum", "IntEnum", "StrEnum", "Flag", "IntFlag"):
            return "enum"
        return None

    def record_fields(self, ci: ClassInfo) -> list:
        """[(name, default expr | None)] of a NamedTuple / dataclass helper class, in definition order."""
        out = []
        for st in ci.node.body:
            if isinstance(st, ast.AnnAssign) and isinstance(st.target, ast.Name):
                if "ClassVar" in norm(st.annotation):
                    continue
                out.append((st.target.id, st.value))
        return out

    def instantiate(self, f: RepoCls, args: list, kw: dict):
        ci = f.ci
        kind = self.class_kind(ci)
        if kind is None:
            raise Und(f"construction of the library class {ci.name}")
        if kind == "enum":
            raise Und(f"lookup of a member of the enumeration {ci.name} by value")
        o = Obj(f, {}, f"{ci.name} object")
        if kind == "plain" or (kind == "dataclass" and "__init__" in ci.methods):
            init = ci.methods.get("__init__")
            if init is None:
                if args or kw:
                    raise PyExc("TypeError", f"{ci.name}() takes no arguments")
                return o
            self.call(Bound(self.func_of(init), o), args, kw)
            return o
        if "__new__" in ci.methods or (kind == "namedtuple" and "__init__" in ci.methods):
            raise Und(f"construction of {ci.name} (custom __new__)")
        fields = self.record_fields(ci)
        names = [n for n, _ in fields]
        if len(args) > len(names):
            raise PyExc("TypeError", f"{ci.name}() takes {len(names)} positional arguments but {len(args)} were given")
        vals = dict(zip(names, args))
        for k, v in kw.items():
            if k not in names or k in vals:
                raise PyExc("TypeError", f"{ci.name}() got an unexpected or repeated argument {k!r}")
            vals[k] = v
        mfr = self.module_frame(ci.module)
        for n, d in fields:
            if n not in vals:
                if d is None:
                    raise PyExc("TypeError", f"{ci.name}() missing required argument {n!r}")
                if isinstance(d, ast.Call) and (chain(d.func) or "").rsplit(".", 1)[-1] == "field":
                    fkw = {k.arg: k.value for k in d.keywords}
                    if "default" in fkw:
                        vals[n] = self.ev(fkw["default"], mfr)
                    elif "default_factory" in fkw:
                        vals[n] = self.call(self.ev(fkw["default_factory"], mfr), [])
                    else:
                        raise PyExc("TypeError", f"{ci.name}() missing required argument {n!r}")
                else:
                    vals[n] = self.ev(d, mfr)
        for n in names:
            o.attrs[n] = vals[n]
        o.fields = tuple(names) if kind == "namedtuple" else None
        o.match_args = tuple(names)
        post = ci.methods.get("__post_init__") if kind == "dataclass" else None
        if post is not None:
            self.call(Bound(self.func_of(post), o), [])
        return o

    def enum_member(self, f: RepoCls, key: str):
        k = ("enum", id(f.ci.node), key)
        if k not in self.w.consts:
            o = Obj(f, {"name": key, "_name_": key}, f"{f.ci.name}.{key}")
            try:
                o.attrs["value"] = o.attrs["_value_"] = self.ev(f.ci.attrs[key], self.module_frame(f.ci.module))
            except Und:
                pass        # auto() and the like: the member exists, its value is not modelled
            self.w.consts[k] = o
        return self.w.consts[k]

    def tuple_of(self, o):
        """The items of a NamedTuple helper instance, else None."""
        if isinstance(o, Obj) and getattr(o, "fields", None):
            return tuple(o.attrs[n] for n in o.fields)
        return None

    def bind(self, f: Func, args: list, kw: dict) -> dict:  # noqa: C901
        a = f.node.args
        names = [self.ident(x.arg) for x in a.posonlyargs + a.args]
        posonly = [self.ident(x.arg) for x in a.posonlyargs]
        kwonly = [self.ident(x.arg) for x in a.kwonlyargs]
        loc: dict = {}
        kw = dict(kw)
        for n, v in zip(names, args):
            loc[n] = v
        extra = args[len(names):]
        if a.vararg:
            loc[self.ident(a.vararg.arg)] = tuple(extra)
        elif extra:
            raise PyExc("TypeError", f"{f.name}() takes {len(names)} positional arguments but {len(args)} were given")
        for k in list(kw):
            if (k in names and k not in posonly) or k in kwonly:
                if k in loc:
                    raise PyExc("TypeError", f"{f.name}() got multiple values for argument {k!r}")
                loc[k] = kw.pop(k)
        if a.kwarg:
            loc[self.ident(a.kwarg.arg)] = kw
        elif kw:
            raise PyExc("TypeError", f"{f.name}() got an unexpected keyword argument {next(iter(kw))!r}")
        dfr = None
        off = len(names) - len(a.defaults)
        for i, n in enumerate(names):
            if n not in loc:
                if i < off:
                    raise PyExc("TypeError", f"{f.name}() missing required argument {n!r}")
                dfr = dfr or Frame(f, ChainMap({}, *(f.closure.maps if f.closure is not None else [])))
                loc[n] = self.ev(a.defaults[i - off], dfr)
        for n, d in zip(kwonly, a.kw_defaults):
            if n not in loc:
                if d is None:
                    raise PyExc("TypeError", f"{f.name}() missing required keyword-only argument {n!r}")
                dfr = dfr or Frame(f, ChainMap({}, *(f.closure.maps if f.closure is not None else [])))
                loc[n] = self.ev(d, dfr)
        return loc

    _STD_DECORATORS = ("staticmethod", "classmethod", "abc.abstractmethod", "abstractmethod", "property", "functools.cached_property",
                       "cached_property", "typing.final", "final", "typing.no_type_check", "no_type_check", "typing.override", "override",
                       "typing_extensions.override")

    def custom_decorators(self, node) -> list:
        """The decorator expressions of a def that are not descriptor / marker decorators (those are modelled where the attribute is
        looked up and do not change what a call evaluates)."""
        return [d for d in getattr(node, "decorator_list", []) if (chain(d) or "?") not in self._STD_DECORATORS]

    def decorated(self, f: Func, fr: Frame | None = None):
        """What the name of a decorated def is bound to: the decorator expressions are evaluated (in the module frame for module-level
        functions and methods, in the defining frame for nested functions) and applied bottom-up to the plain function, exactly as
        the def statement does.  A wrapper the decorator returns is an ordinary closure that calls the plain function; it is
        evaluated like any other function, so wrapper and body are analysed as one.  Descriptor decorators (staticmethod,
        classmethod, property) must be the outermost ones: they are applied at attribute lookup."""
        key = ("decorated", id(f.node))
        if fr is None and key in self.w.consts:
            return self.w.consts[key]
        raw = Func(f.node, f.module, f.fi, f.closure, f.generated)
        raw.raw = True
        val = raw
        seen_custom_above = False
        for d in f.node.decorator_list:          # top-down: a descriptor decorator below a custom one is not modelled
            if (chain(d) or "?") in self._STD_DECORATORS:
                if seen_custom_above and (chain(d) or "?") in ("staticmethod", "classmethod", "property", "functools.cached_property", "cached_property"):
                    raise Und(f"decorator `{norm(d)[:40]}` of {f.name} is wrapped by another decorator")
            else:
                seen_custom_above = True
        efr = fr if fr is not None else self.module_frame(f.module)
        in_class = fr is None and f.fi is not None and f.fi.cls is not None
        for d in reversed(f.node.decorator_list):
            if (chain(d) or "?") in self._STD_DECORATORS:
                continue
            try:
                dv = self.ev(d, efr)
            except PyExc as e:
                if in_class and e.kind == "NameError":
                    raise Und(f"decorator `{norm(d)[:40]}` of {f.name} is a name of the class body") from e
                raise
            self.w.in_const += fr is None
            try:
                val = self.call(dv, [val])
            finally:
                self.w.in_const -= fr is None
        if fr is None:
            self.w.consts[key] = val
        return val

    def lazy_generator(self, f: Func, fr: Frame):
        """The body of a generator function, evaluated ON DEMAND exactly as CPython does: nothing runs before the first item is asked
        for, evaluation is suspended at every yield and resumed by the next request, and a generator that is dropped is closed.  So the
        consumer and the generator interleave their effects as at run time, unbounded generators are fine, and whatever ends the body
        abnormally (an exception of the analysed code, an undecided construct) surfaces at the request during which it happens.
        The body runs on a helper thread that is strictly alternated with the consumer (one of the two is always blocked)."""
        import threading
        it = self
        resume, produced = threading.Semaphore(0), threading.Semaphore(0)
        box: dict = {}

        def put(value) -> None:
            box["item"] = value
            box["gdepth"] = it.depth
            produced.release()
            resume.acquire()
            it.depth = box["gdepth"]
            if box.get("close"):
                raise _GenClose

        def body() -> None:
            try:
                it.block(f.node.body, fr)
            except (_Return, _GenClose):
                pass
            except BaseException as e:  # noqa: BLE001  (delivered to the consumer, which re-raises it)
                box["err"] = e
            box["done"] = True
            produced.release()

        def drive():
            started = False
            cdepth = it.depth
            try:
                while True:
                    cdepth = it.depth
                    if started:
                        resume.release()
                    else:
                        if cdepth + 1 > 40:
                            raise Und("recursion depth")
                        fr.yields = _YieldSink(put)
                        it.depth = cdepth + 1
                        threading.Thread(target=body, daemon=True).start()
                        started = True
                    produced.acquire()
                    it.depth = cdepth
                    if box.get("done"):
                        err = box.pop("err", None)
                        if err is not None:
                            raise err
                        return
                    yield box.pop("item")
            finally:
                if started and not box.get("done"):
                    cdepth = it.depth
                    box["close"] = True
                    resume.release()
                    produced.acquire()
                    it.depth = cdepth
        return drive()

    def call_plain(self, f: Func, args: list):
        """Evaluate the body of a property getter."""
        loc = self.bind(f, args, {})
        fr = Frame(f, ChainMap(loc))
        self.depth += 1
        if self.depth > 40:
            raise Und("recursion depth")
        try:
            if any(isinstance(n, (ast.Yield, ast.YieldFrom)) for n in walk_no_nested(f.node) if n is not f.node):
                raise Und(f"generator property {f.name}")
            self.block(f.node.body, fr)
        except _Return as r:
            return r.value
        finally:
            self.depth -= 1
        return None

    def call_func(self, f: Func, args: list, kw: dict):
        stub = self.w.stubs.get(id(f.node))
        if stub is not None:
            return stub(self, args, kw)
        if isinstance(f.node, ast.AsyncFunctionDef):
            raise Und(f"coroutine {f.name}")
        if f.fi is not None:
            self.w.touched.add(f.fi.where)
        if not f.raw and not isinstance(f.node, ast.Lambda) and self.custom_decorators(f.node):
            return self.call(self.decorated(f), args, kw)
        loc = self.bind(f, args, kw)
        fr = Frame(f, ChainMap(loc, *(f.closure.maps if f.closure is not None else [])))
        self.depth += 1
        if self.depth > 40:
            raise Und("recursion depth")
        is_gen = not isinstance(f.node, ast.Lambda) and any(isinstance(n, (ast.Yield, ast.YieldFrom)) for n in walk_no_nested(f.node) if n is not f.node)
        if is_gen:
            self.depth -= 1
            return GenIter(self.lazy_generator(f, fr), "generator")
        try:
            if isinstance(f.node, ast.Lambda):
                return self.ev(f.node.body, fr)
            self.block(f.node.body, fr)
        except _Return as r:
            return r.value
        finally:
            self.depth -= 1
        return None

    # ------------------------------------------------------------------------------------------ builtins
    def call_builtin(self, name: str, a: list, kw: dict):  # noqa: C901, PLR0911, PLR0912, PLR0915
        if name in _EXC_NAMES:
            return ExcVal(name, tuple(a))
        if name == "len":
            v = a[0]
            if isinstance(v, Obj) and self.tuple_of(v) is not None:
                return len(v.fields)
            if isinstance(v, (list, tuple, dict, str, set, frozenset, range, bytes)):
                return len(v)
            raise Und(f"len of {v!r}")
        if name == "range":
            if all(isinstance(x, int) and not isinstance(x, bool) for x in a):
                return range(*a)
            raise Und("range over a symbolic bound")
        if name == "enumerate":
            start = kw.get("start", a[1] if len(a) > 1 else 0)
            if not (isinstance(start, int) and not isinstance(start, bool)):
                raise Und("enumerate() with a symbolic start")
            src = self.iter_of(a[0])

            def enum_gen():
                i = start
                for x in src:
                    yield (i, x)
                    i += 1
            return GenIter(enum_gen(), "enumerate")
        if name == "zip":
            gens = [self.iter_of(x) for x in a]
            strict = bool(kw.get("strict"))

            def zip_gen():
                while gens:
                    row = []
                    for g in gens:
                        x = next(g, MISSING)
                        if x is MISSING:
                            if strict and (row or any(next(h, MISSING) is not MISSING for h in gens[gens.index(g) + 1:])):
                                raise PyExc("ValueError", "zip() arguments have different lengths")
                            return
                        row.append(x)
                    yield tuple(row)
            return GenIter(zip_gen(), "zip")
        if name == "iter":
            if len(a) != 1:
                raise Und("iter() with a sentinel")
            if isinstance(a[0], (IterObj, CountIter, GenIter)):
                return a[0]
            if isinstance(a[0], list):
                return IterObj(a[0])
            return GenIter(self.iter_of(a[0]), "iterator")
        if name == "next":
            if not isinstance(a[0], (IterObj, CountIter, GenIter)):
                if self.type_name(a[0]) is None:
                    raise Und(f"next() of the opaque value {a[0]!r}")
                raise PyExc("TypeError", f"{a[0]!r} is not an iterator")
            for x in self.iterate(a[0]):
                return x
            if len(a) > 1:
                return a[1]
            raise PyExc("StopIteration")
        if name == "reversed":
            if isinstance(a[0], (IterObj, CountIter, GenIter, set, frozenset)):
                raise PyExc("TypeError", "argument to reversed() must be a sequence")
            return IterObj(list(reversed(list(self.iterate(a[0])))))
        if name == "sorted":
            if kw.get("key") is not None:
                raise Und("sorted with a key function")
            return self.sort(list(self.iterate(a[0])), bool(kw.get("reverse", False)))
        if name == "list":
            return list(self.iterate(a[0])) if a else []
        if name == "tuple":
            return tuple(self.iterate(a[0])) if a else ()
        if name in ("set", "frozenset"):
            if a and isinstance(a[0], (set, frozenset)):
                return (set if name == "set" else frozenset)(a[0])      # a copy: no order involved
            items = list(self.iterate(a[0])) if a else []
            try:
                return (set if name == "set" else frozenset)(items)
            except TypeError as e:
                raise PyExc("TypeError", str(e)) from e
        if name == "dict":
            d: dict = {}
            if a:
                if isinstance(a[0], dict):
                    d.update(a[0])
                else:
                    for pair in self.iterate(a[0]):
                        k, v = list(self.iterate(pair))
                        d[k] = v
            d.update(kw)
            return d
        if name == "str":
            return to_text(a[0], "s") if a else ""
        if name == "repr":
            return to_text(a[0], "r")
        if name == "format":
            if len(a) == 1 or a[1] == "":
                return to_text(a[0], "s")
            raise Und("format() with a format spec")
        if name == "bool":
            t = self.truth(a[0]) if a else False
            if t is None:
                return App(Sym("op", "bool"), (_freeze(a[0]),))
            return t
        if name in ("int", "float", "abs", "bytes"):
            if all(is_concrete(x) for x in a):
                try:
                    return {"int": int, "float": float, "abs": abs, "bytes": bytes}[name](*a)
                except (TypeError, ValueError) as e:
                    raise PyExc(type(e).__name__, str(e)) from e
            raise Und(f"{name}() of a symbolic value")
        if name == "divmod":
            if len(a) == 2 and all(isinstance(x, int) and not isinstance(x, bool) for x in a):
                if a[1] == 0:
                    raise PyExc("ZeroDivisionError", "integer division or modulo by zero")
                return divmod(a[0], a[1])
            raise Und("divmod() of symbolic values")
        if name in ("min", "max", "sum"):
            vals = list(self.iterate(a[0])) if len(a) == 1 else a
            if all(is_concrete(x) for x in vals) and not kw:
                try:
                    return {"min": min, "max": max, "sum": sum}[name](vals)
                except (TypeError, ValueError) as e:
                    raise PyExc(type(e).__name__, str(e)) from e
            raise Und(f"{name}() of symbolic values")
        if name in ("any", "all"):
            res = name == "all"
            unknown = False
            for x in self.iterate(a[0]):
                t = self.truth(x)
                if t is None:
                    unknown = True
                elif t != res:
                    return t
            if unknown:
                raise Und(f"{name}() over opaque values")
            return res
        if name == "isinstance":
            return self.is_instance(a[0], a[1])
        if name == "issubclass":
            t = a[1]
            return any(self.is_subclass(a[0], x) for x in t) if isinstance(t, tuple) else self.is_subclass(a[0], t)
        if name == "hasattr":
            try:
                self.getattr_(a[0], a[1])
            except PyExc as e:
                if e.kind == "AttributeError":
                    return False
                raise
            return True
        if name == "getattr":
            return self.getattr_(a[0], a[1], a[2] if len(a) > 2 else MISSING)
        if name == "setattr":
            self.setattr_(a[0], a[1], a[2])
            return None
        if name == "object.__setattr__":
            if len(a) != 3 or kw:
                raise Und("object.__setattr__ with other arguments")
            self.setattr_(a[0], a[1], a[2], raw=True)
            return None
        if name == "delattr":
            key = self.akey(a[1])
            if isinstance(a[0], (Obj, ClsObj)) and key in a[0].attrs:
                del a[0].attrs[key]
                return None
            raise PyExc("AttributeError", repr(key))
        if name == "callable":
            tn = self.type_name(a[0])
            if tn is None:
                raise Und("callable() of an opaque value")
            return tn in ("function", "type") or isinstance(a[0], (ClsObj, RepoCls))
        if name == "type":
            if len(a) == 1:
                tn = self.type_name(a[0])
                if tn is None:
                    raise Und("type() of an opaque value")
                if isinstance(tn, str):
                    if tn in _TYPE_NAMES or tn == "NoneType":
                        return Builtin(tn)
                    raise Und(f"type() of a {tn}")
                return tn
            raise Und("type() with three arguments")
        if name == "object":
            if a or kw:
                raise PyExc("TypeError", "object() takes no arguments")
            return Obj(None, {}, "object()")      # a fresh sentinel: identical only to itself
        if name == "id" and len(a) == 1:
            v = a[0]
            if isinstance(v, (Sym, App, SStr)) or is_concrete(v):
                raise Und(f"id() of the run-time value {v!r}")
            # identity token: equal exactly when `same` holds (library objects / builtins are value-equal iff identical here)
            return IdTok(v if isinstance(v, (Builtin, Ext, RepoCls, ObjInit)) else ("object", id(v)), v)
        if name == "vars":
            return self.getattr_(a[0], "__dict__")
        if name == "dir":
            raise Und("dir()")
        if name == "print":
            out = kw.get("file")
            if out is None:
                return None
            if not (isinstance(out, Rec) and out.kind == "stringio"):
                raise Und("print() into an opaque file")
            sep, end = kw.get("sep", " "), kw.get("end", "\n")
            sep, end = (" " if sep is None else sep), ("\n" if end is None else end)
            parts: list = []
            for i, x in enumerate(a):
                if i:
                    parts.append(sep)
                parts.append(to_text(x, "s"))
            parts.append(end)
            out.fields["parts"].append(mkstr(parts))
            return None
        if name in ("staticmethod", "classmethod"):
            return Rec(name, func=a[0])
        if name == "map":
            if len(a) < 2:
                raise PyExc("TypeError", "map() must have at least two arguments")
            fn, srcs = a[0], [self.iter_of(x) for x in a[1:]]

            def map_gen():
                while True:
                    row = [next(g, MISSING) for g in srcs]
                    if any(x is MISSING for x in row):
                        return
                    yield self.call(fn, row)
            return GenIter(map_gen(), "map")
        if name == "filter":
            pred, src = a[0], self.iter_of(a[1])

            def filter_gen():
                for x in src:
                    t = self.truth(self.call(pred, [x]) if pred is not None else x)
                    if t is None:
                        raise Und("filter() over opaque values")
                    if t:
                        yield x
            return GenIter(filter_gen(), "filter")
        if name == "compile":
            if not is_strlike(a[0]):
                raise PyExc("TypeError", "compile() arg 1 must be a string")
            return Rec("code", text=a[0], filename=a[1] if len(a) > 1 else None, mode=a[2] if len(a) > 2 else kw.get("mode"))
        if name == "globals":
            return ModRef(self._cur.func.module)
        if name == "locals":
            return dict(self._cur.locals.maps[0])
        if name == "exec":
            return self.do_exec(a, kw)
        if name == "super":
            if a:
                raise Und("super() with arguments")
            f = self._cur.func
            if f.fi is None or f.fi.cls is None:
                raise Und("super() outside a library method")
            first = f.node.args.args[0].arg if f.node.args.args else None
            return Rec("super", owner=RepoCls(f.fi.cls), self=self._cur.locals.get(first))
        raise Und(f"builtin {name}()")

    def sort(self, vals: list, reverse: bool = False) -> list:
        if all(is_concrete(x) for x in vals):
            try:
                return sorted(vals, reverse=reverse)
            except TypeError as e:
                raise PyExc("TypeError", str(e)) from e
        if all(isinstance(x, Sym) and x.kind == "name" for x in vals):
            # convention of the abstract definitions: field names are in DESCENDING lexicographic order (n0 > n1 > ...), which
            # is one of the definitions the property quantifies over
            return sorted(vals, key=lambda s: s.key, reverse=not reverse)
        raise Und("sorting of symbolic values")

    def do_exec(self, a: list, kw: dict):
        code = a[0]
        text = code.fields["text"] if isinstance(code, Rec) and code.kind == "code" else code
        if isinstance(code, Rec) and code.kind == "code" and code.fields.get("mode") != "exec":
            raise PyExc("TypeError", f"code compiled in mode {code.fields.get('mode')!r} is exec()ed")
        if not is_strlike(text):
            raise PyExc("TypeError", "exec() arg 1 must be a string or code object")
        g = a[1] if len(a) > 1 else kw.get("globals", ModRef(self._cur.func.module))
        loc = a[2] if len(a) > 2 else kw.get("locals")
        if not isinstance(g, ModRef):
            raise Und("exec() with a globals mapping that is not globals()")
        if loc is None:
            raise Und("exec() into module globals")
        if not isinstance(loc, dict):
            raise Und("exec() with an opaque locals mapping")
        self.w.exec_texts.append(text)
        tree = self.parse_generated(text)
        fr = Frame(Func(tree, g.module, generated=True), ChainMap(loc))
        self.block(tree.body, fr)
        return None

    def parse_generated(self, text):
        src = self.w.render(text)
        if src not in self.w.parse_cache:
            try:
                self.w.parse_cache[src] = ast.parse(src)
            except SyntaxError as e:
                self.w.parse_cache[src] = PyExc("SyntaxError", f"{e.msg} in generated source {self.show(text)!r}")
        t = self.w.parse_cache[src]
        if isinstance(t, PyExc):
            raise PyExc(t.kind, t.detail)
        return t

    def show(self, text) -> str:
        return text if isinstance(text, str) else repr(text)

    # ------------------------------------------------------------------------------------------ modelled externals
    def call_ext(self, name: str, a: list, kw: dict):  # noqa: C901, PLR0911, PLR0912
        short = name.rsplit(".", 1)[-1]
        if name in ("typing.cast", "typing_extensions.cast"):
            return a[1]
        if name in ("typing.get_args", "typing_extensions.get_args"):
            return self.getattr_(a[0], "__args__", ())
        if name in ("typing.get_origin", "typing_extensions.get_origin"):
            return self.getattr_(a[0], "__origin__", None)
        if name in ("typing.get_type_hints", "typing_extensions.get_type_hints"):
            if isinstance(a[0], ClsObj) and "hints" in a[0].meta:
                return dict(a[0].meta["hints"])
            raise Und("get_type_hints of something that is not an abstract dataclass")
        if name == "dataclasses.fields":
            if isinstance(a[0], ClsObj) and "fields" in a[0].meta:
                return tuple(a[0].meta["fields"])
            if isinstance(a[0], Obj) and isinstance(a[0].cls, ClsObj) and "fields" in a[0].cls.meta:
                return tuple(a[0].cls.meta["fields"])
            if isinstance(a[0], (RepoCls, Sym, App, Ext)) or (isinstance(a[0], Obj) and isinstance(a[0].cls, RepoCls)):
                raise Und(f"dataclasses.fields of {a[0]!r}")
            raise PyExc("TypeError", "must be called with a dataclass type or instance")
        if name == "dataclasses.is_dataclass":
            c = a[0].cls if isinstance(a[0], Obj) else a[0]
            return isinstance(c, ClsObj) and "fields" in c.meta
        if name == "inspect.signature":
            return Rec("signature", parameters=self.signature_params(a[0], follow_wrapped=kw.get("follow_wrapped", True) is not False))
        if name == "inspect.getfullargspec":
            ps = self.signature_params(a[0], keep_self=True)
            return Rec("argspec", args=[k for k, p in ps.items() if p.fields["kindname"] == "pos"],
                       varargs=next((k for k, p in ps.items() if p.fields["kindname"] == "var"), None),
                       varkw=next((k for k, p in ps.items() if p.fields["kindname"] == "varkw"), None),
                       kwonlyargs=[k for k, p in ps.items() if p.fields["kindname"] == "kwonly"],
                       defaults=tuple(p.fields["default"] for p in ps.values() if p.fields["kindname"] == "pos" and p.fields["default"] is not EMPTY) or None,
                       kwonlydefaults={k: p.fields["default"] for k, p in ps.items() if p.fields["kindname"] == "kwonly" and p.fields["default"] is not EMPTY} or None,
                       annotations={})
        if name in ("inspect.ismethod",):
            return isinstance(a[0], Bound) and isinstance(a[0].func, (Func, Rec))
        if name in ("inspect.isfunction",):
            return isinstance(a[0], Func)
        if name in ("inspect.isclass",):
            return isinstance(a[0], (ClsObj, RepoCls)) or (isinstance(a[0], Builtin) and a[0].name in _TYPE_NAMES)
        if name in ("dataclasses.asdict", "dataclasses.astuple", "dataclasses.replace") and a and isinstance(a[0], Obj) \
                and isinstance(a[0].cls, RepoCls) and a[0].fields is None and a[0].match_args is not None:
            o = a[0]
            vals = [o.attrs[n] for n in o.match_args]

            def inner(v, as_dict: bool):
                # dataclasses._asdict_inner: records and builtin containers are rebuilt, everything else is copy.deepcopy'd (classes,
                # strings, numbers and the opaque symbols of this interpreter are their own deep copies as far as equality goes)
                if isinstance(v, Obj):
                    if isinstance(v.cls, RepoCls) and v.fields is None and v.match_args is not None:
                        sub = [inner(v.attrs[n], as_dict) for n in v.match_args]
                        return dict(zip(v.match_args, sub)) if as_dict else tuple(sub)
                    raise Und(f"dataclasses.{short} over the object {v!r}")
                if isinstance(v, list):
                    return [inner(x, as_dict) for x in v]
                if isinstance(v, tuple):
                    return tuple(inner(x, as_dict) for x in v)
                if isinstance(v, dict):
                    return {inner(k, as_dict): inner(x, as_dict) for k, x in v.items()}
                if isinstance(v, (set, frozenset, IterObj, GenIter, CountIter, Rec)):
                    raise Und(f"dataclasses.{short} over {v!r}")
                return v
            if short == "asdict" and len(a) == 1 and not kw:
                return dict(zip(o.match_args, [inner(v, True) for v in vals]))
            if short == "astuple" and len(a) == 1 and not kw:
                return tuple(inner(v, False) for v in vals)
            if short == "replace" and len(a) == 1:
                return self.instantiate(o.cls, [], {**dict(zip(o.match_args, vals)), **kw})
            raise Und(f"dataclasses.{short} with options")
        if name == "string.Template" and len(a) == 1:
            return Rec("template", template=a[0])
        if name == "io.StringIO":
            if a and a[0] != "":
                raise Und("io.StringIO with initial contents")
            return Rec("stringio", parts=[])
        if name == "contextlib.suppress":
            kinds = []
            for x in a:
                k = x.name if isinstance(x, Builtin) and x.name in _EXC_NAMES else x.ci.name if isinstance(x, RepoCls) else None
                if k is None:
                    raise Und(f"contextlib.suppress of {x!r}")
                kinds.append(k)
            return Rec("suppress", kinds=kinds)
        if name == "contextlib.nullcontext":
            return Rec("nullcontext", value=a[0] if a else kw.get("enter_result"))
        if name == "itertools.islice":
            lo, hi, step = (0, a[1], 1) if len(a) == 2 else (a[1] or 0, a[2], (a[3] if len(a) > 3 and a[3] is not None else 1))
            if not all(x is None or (isinstance(x, int) and not isinstance(x, bool)) for x in (lo, hi, step)):
                raise Und("islice with symbolic bounds")
            if lo < 0 or step < 1 or (hi is not None and hi < 0):
                raise PyExc("ValueError", "islice() bounds must be non-negative")
            src = self.iter_of(a[0])

            def islice_gen():
                i = 0
                while hi is None or i < hi:
                    x = next(src, MISSING)
                    if x is MISSING:
                        return
                    if i >= lo and (i - lo) % step == 0:
                        yield x
                    i += 1
            return GenIter(islice_gen(), "islice")
        if name == "itertools.chain":
            srcs = [self.iter_of(x) for x in a]
            return GenIter((x for g in srcs for x in g), "chain")
        if name == "itertools.chain.from_iterable":
            outer = self.iter_of(a[0])
            return GenIter((x for it in outer for x in self.iter_of(it)), "chain")
        if name in ("itertools.takewhile", "itertools.dropwhile", "itertools.filterfalse"):
            pred, src = a[0], self.iter_of(a[1])

            def holds(x) -> bool:
                t = self.truth(self.call(pred, [x]) if pred is not None else x)
                if t is None:
                    raise Und(f"{short}() over opaque values")
                return t

            def while_gen():
                if short == "filterfalse":
                    for x in src:
                        if not holds(x):
                            yield x
                    return
                for x in src:
                    if short == "takewhile":
                        if not holds(x):
                            return
                        yield x
                    elif not holds(x):
                        yield x
                        yield from src
                        return
            return GenIter(while_gen(), short)
        if name == "itertools.accumulate":
            fn = a[1] if len(a) > 1 else kw.get("func")
            init = kw.get("initial")
            src = self.iter_of(a[0])

            def acc_gen():
                total = init
                started = init is not None
                if started:
                    yield total
                for x in src:
                    if not started:
                        total, started = x, True
                    elif fn is None:
                        total = self.binop(ast.Add(), total, x, ast.Constant(value="accumulate"))
                    else:
                        total = self.call(fn, [total, x])
                    yield total
            return GenIter(acc_gen(), "accumulate")
        if name == "itertools.compress":
            data, sel = self.iter_of(a[0]), self.iter_of(a[1])

            def compress_gen():
                for x, c in zip(data, sel):
                    t = self.truth(c)
                    if t is None:
                        raise Und("compress() over opaque selectors")
                    if t:
                        yield x
            return GenIter(compress_gen(), "compress")
        if name == "itertools.pairwise":
            src = self.iter_of(a[0])

            def pair_gen():
                prev = next(src, MISSING)
                if prev is MISSING:
                    return
                for x in src:
                    yield (prev, x)
                    prev = x
            return GenIter(pair_gen(), "pairwise")
        if name == "itertools.product" and not kw:
            import itertools as _it
            return IterObj(list(_it.product(*[list(self.iterate(x)) for x in a])))
        if name == "functools.reduce":
            src = self.iter_of(a[1])
            if len(a) > 2:
                total = a[2]
            else:
                total = next(src, MISSING)
                if total is MISSING:
                    raise PyExc("TypeError", "reduce() of empty iterable with no initial value")
            for x in src:
                total = self.call(a[0], [total, x])
            return total
        if name == "operator.methodcaller" and a and isinstance(a[0], str):
            return Partial(PyMethod(self, "methodcaller"), (a[0], tuple(a[1:]), tuple(kw.items())))
        if name.startswith("operator.") and short.strip("_") in _OPERATOR_FNS and not kw:
            return self.operator_fn(short.strip("_"), a)
        if name == "types.MethodType":
            return Bound(a[0], a[1])
        if name == "itertools.count":
            start, step = (a + [0, 1][len(a):])[:2] if not kw else (kw.get("start", a[0] if a else 0), kw.get("step", 1))
            if not all(isinstance(x, int) and not isinstance(x, bool) for x in (start, step)):
                raise Und("itertools.count over symbolic values")
            return CountIter(start, step)
        if name == "itertools.repeat":
            times = a[1] if len(a) > 1 else kw.get("times")
            if not (isinstance(times, int) and not isinstance(times, bool)):
                raise Und("itertools.repeat without a concrete bound")
            return IterObj([a[0]] * max(times, 0))
        if name == "itertools.starmap":
            fn, src = a[0], self.iter_of(a[1])
            return GenIter((self.call(fn, list(self.iterate(x))) for x in src), "starmap")
        if name == "itertools.zip_longest":
            cols = [list(self.iterate(x)) for x in a]
            n = max((len(c) for c in cols), default=0)
            return IterObj([tuple(c[i] if i < len(c) else kw.get("fillvalue") for c in cols) for i in range(n)])
        if name == "functools.wraps" and len(a) == 1 and not kw:
            return Partial(PyMethod(self, "update_wrapper_swapped"), (a[0],))
        if name == "functools.update_wrapper" and len(a) == 2 and not kw:
            return self.call_pymethod(self, "update_wrapper_swapped", [a[1], a[0]], {})
        if name in ("struct.calcsize", "struct.Struct") and len(a) == 1 and not kw and isinstance(a[0], (str, bytes)):
            import struct
            try:
                size = struct.calcsize(a[0])
            except struct.error as e:
                raise PyExc("struct.error", str(e)) from e
            if short == "calcsize":
                return size
            return Rec("struct", format=a[0], size=size)
        if name == "textwrap.dedent" and len(a) == 1 and not kw and is_strlike(a[0]):
            import textwrap
            if isinstance(a[0], Sym):
                return a[0]              # an identifier: no whitespace to remove
            return self.w.unplace(textwrap.dedent(self.w.render(a[0])))
        if name == "textwrap.indent" and len(a) == 2 and not kw and is_strlike(a[0]) and isinstance(a[1], str):
            import textwrap
            return self.w.unplace(textwrap.indent(self.w.render(a[0]), a[1]))
        if name == "functools.partial":
            if not a:
                raise PyExc("TypeError", "partial() needs a callable")
            return Partial(a[0], tuple(a[1:]), tuple(kw.items()))
        if name == "operator.itemgetter" and len(a) == 1:
            return Partial(PyMethod(self, "getitem_swapped"), (a[0],))
        if name == "operator.itemgetter" and len(a) > 1:
            return Partial(PyMethod(self, "getitems_swapped"), (tuple(a),))
        if name == "operator.attrgetter" and len(a) == 1 and isinstance(a[0], str):
            return Partial(PyMethod(self, "getattr_swapped"), (a[0],))
        if name == "operator.attrgetter" and len(a) > 1 and all(isinstance(x, str) for x in a):
            return Partial(PyMethod(self, "getattrs_swapped"), (tuple(a),))
        if name in ("typing.TypeVar", "typing_extensions.TypeVar"):
            return Rec("typevar", __name__=a[0])
        if short in ("getLogger",) or name.startswith("logging."):
            return None
        raise Und(f"call of {name}() (not modelled)")

    def operator_fn(self, op: str, a: list):
        """operator.<op>(*a): the operator it names, with the same three-valued discipline as the operator itself."""
        cmp = {"is": ast.Is, "is_not": ast.IsNot, "eq": ast.Eq, "ne": ast.NotEq, "lt": ast.Lt, "le": ast.LtE, "gt": ast.Gt, "ge": ast.GtE}
        if op in cmp and len(a) == 2:
            t = self.compare(cmp[op](), a[0], a[1])
            if t is None:
                raise Und(f"operator.{op} depends on a run-time value")
            return t
        if op == "contains" and len(a) == 2:
            t = self.contains(a[0], a[1])
            if t is None:
                raise Und("operator.contains depends on a run-time value")
            return t
        if op in ("not", "truth") and len(a) == 1:
            t = self.truth(a[0])
            if t is None:
                raise Und(f"operator.{op} of an opaque value")
            return (not t) if op == "not" else t
        if op == "getitem" and len(a) == 2:
            return self.getitem(a[0], a[1])
        arith = {"add": ast.Add, "concat": ast.Add, "sub": ast.Sub, "mul": ast.Mult, "mod": ast.Mod, "floordiv": ast.FloorDiv, "and": ast.BitAnd,
                 "or": ast.BitOr, "xor": ast.BitXor, "lshift": ast.LShift, "rshift": ast.RShift}
        if op in arith and len(a) == 2:
            return self.binop(arith[op](), a[0], a[1], ast.Constant(value="operator." + op))
        if op == "call" and a:
            return self.call(a[0], a[1:])
        raise Und(f"operator.{op}() (not modelled)")

    def signature_params(self, f, keep_self: bool = False, follow_wrapped: bool = False) -> dict:
        skip = 0
        if isinstance(f, Bound):
            f, skip = f.func, (0 if keep_self else 1)
        if isinstance(f, Rec) and f.kind == "function":
            params = f.fields["params"][skip:]
        elif isinstance(f, Func):
            while follow_wrapped and f.wrapped is not None:
                if not isinstance(f.wrapped, Func):
                    raise Und(f"signature of a wrapper around {f.wrapped!r}")
                f = f.wrapped
            params = self.func_params(f, skip)
        elif isinstance(f, ObjInit):
            params = [("args", EMPTY, "var"), ("kwargs", EMPTY, "varkw")]
        else:
            raise Und(f"signature of {f!r}")
        kinds = {"pos": "POSITIONAL_OR_KEYWORD", "var": "VAR_POSITIONAL", "kwonly": "KEYWORD_ONLY", "varkw": "VAR_KEYWORD"}
        return {n: Rec("parameter", name=n, default=d, kind=Ext("inspect.Parameter." + kinds[k]), kindname=k, annotation=EMPTY) for n, d, k in params}

    # ------------------------------------------------------------------------------------------ methods of builtin values
    def call_pymethod(self, o, name: str, a: list, kw: dict):  # noqa: C901, PLR0911, PLR0912, PLR0915
        if o is self:
            def dotted(obj, path: str):
                for part in path.split("."):
                    obj = self.getattr_(obj, part)
                return obj
            if name == "update_wrapper_swapped":
                # functools.update_wrapper(wrapper=a[1], wrapped=a[0]): copies __name__ / __doc__ / ..., sets __wrapped__, returns wrapper
                if isinstance(a[1], Func):
                    a[1].wrapped = a[0]
                    return a[1]
                raise Und(f"functools.wraps applied to {a[1]!r}")
            if name == "getitem_swapped":
                return self.getitem(a[1], a[0])
            if name == "getitems_swapped":
                return tuple(self.getitem(a[1], k) for k in a[0])
            if name == "getattrs_swapped":
                return tuple(dotted(a[1], k) for k in a[0])
            if name == "methodcaller":
                return self.call(self.getattr_(a[3], a[0]), list(a[1]), dict(a[2]))
            return dotted(a[1], a[0])
        if name.startswith("__") and name.endswith("__") and not isinstance(o, (ClsObj, RepoCls, Builtin)):
            r = self.call_dunder(o, name, a)
            if r is not MISSING:
                return r
        if isinstance(o, (ClsObj, RepoCls, Builtin)):
            if name == "mro":
                return [o, Builtin("object")] if isinstance(o, Builtin) else [*self.linearize(o), Builtin("object")]
            raise Und(f"{o!r}.{name}()")
        if is_strlike(o) and not isinstance(o, str) or (isinstance(o, str) and name in ("join", "format")):
            if name == "join":
                items = list(self.iterate(a[0]))
                parts: list = []
                for i, it in enumerate(items):
                    if not is_strlike(it):
                        if isinstance(it, (Sym, App)):
                            raise Und(f"join over the opaque value {it!r}")
                        raise PyExc("TypeError", f"sequence item {i}: expected str instance")
                    if i:
                        parts.append(o)
                    parts.append(it)
                return mkstr(parts)
            if name == "format":
                return self.str_format(o, a, kw)
            if name == "format_map" and len(a) == 1 and isinstance(a[0], dict):
                return self.str_format(o, [], a[0])
            if name == "replace" and len(a) == 2 and not kw:
                return self.str_replace(o, a[0], a[1])
            raise Und(f"str.{name} on a symbolic string")
        if isinstance(o, str) and name == "replace" and len(a) == 2 and not kw and not is_concrete(a[1]):
            return self.str_replace(o, a[0], a[1])
        if isinstance(o, str) and name == "format_map" and len(a) == 1 and isinstance(a[0], dict):
            return self.str_format(o, [], a[0])
        if isinstance(o, Obj) and o.fields is not None:
            if name == "_asdict" and not a and not kw:
                return {n: o.attrs[n] for n in o.fields}
            if name == "_replace" and not a:
                if any(k not in o.fields for k in kw):
                    raise PyExc("ValueError", "Got unexpected field names")
                new = Obj(o.cls, {**o.attrs, **kw}, o.label)
                new.fields, new.match_args = o.fields, o.match_args
                return new
            if name in ("index", "count"):
                return self.call_pymethod(self.tuple_of(o), name, a, kw)
        if isinstance(o, Rec) and o.kind == "template" and name in ("substitute", "safe_substitute"):
            return self.template_substitute(o.fields["template"], a, kw, safe=name == "safe_substitute")
        if isinstance(o, Rec) and o.kind == "stringio":
            if name == "write" and len(a) == 1:
                if not is_strlike(a[0]):
                    if isinstance(a[0], (Sym, App)):
                        raise Und("StringIO.write of an opaque value")
                    raise PyExc("TypeError", "string argument expected")
                o.fields["parts"].append(a[0])
                return None
            if name == "writelines" and len(a) == 1:
                for x in self.iterate(a[0]):
                    self.call_pymethod(o, "write", [x], {})
                return None
            if name == "getvalue" and not a:
                return mkstr(list(o.fields["parts"]))
            if name == "close" and not a:
                return None
            raise Und(f"StringIO.{name}()")
        if isinstance(o, str):
            if all(is_concrete(x) for x in a) and not kw:
                try:
                    return getattr(o, name)(*a)
                except (TypeError, ValueError, IndexError) as e:
                    raise PyExc(type(e).__name__, str(e)) from e
            if name in ("startswith", "endswith", "__eq__"):
                raise Und(f"str.{name} with a symbolic argument")
            raise Und(f"str.{name} with symbolic arguments")
        if isinstance(o, list):
            if name == "append":
                o.append(a[0])
                return None
            if name == "extend":
                o.extend(list(self.iterate(a[0])))
                return None
            if name == "insert":
                o.insert(a[0], a[1])
                return None
            if name == "pop":
                try:
                    return o.pop(*a)
                except IndexError as e:
                    raise PyExc("IndexError", str(e)) from e
            if name == "copy":
                return list(o)
            if name == "clear":
                o.clear()
                return None
            if name == "reverse":
                o.reverse()
                return None
            if name == "sort":
                if kw.get("key") is not None:
                    raise Und("sort with a key function")
                o[:] = self.sort(list(o), bool(kw.get("reverse", False)))
                return None
            if name in ("index", "count"):
                n = 0
                for i, x in enumerate(o):
                    t = self.veq(x, a[0])
                    if t is None:
                        raise Und(f"list.{name} over opaque values")
                    if t:
                        if name == "index":
                            return i
                        n += 1
                if name == "index":
                    raise PyExc("ValueError", "not in list")
                return n
        if isinstance(o, tuple) and name in ("index", "count"):
            return self.call_pymethod(list(o), name, a, kw)
        if isinstance(o, dict):
            try:
                if name == "get":
                    return o.get(a[0], a[1] if len(a) > 1 else None)
                if name == "pop":
                    if a[0] in o:
                        return o.pop(a[0])
                    if len(a) > 1:
                        return a[1]
                    raise PyExc("KeyError", repr(a[0]))
                if name == "setdefault":
                    return o.setdefault(a[0], a[1] if len(a) > 1 else None)
                if name == "items":
                    return [(k, v) for k, v in o.items()]
                if name == "keys":
                    return list(o.keys())
                if name == "values":
                    return list(o.values())
                if name == "copy":
                    return dict(o)
                if name == "clear":
                    o.clear()
                    return None
                if name == "update":
                    if a:
                        o.update(self.call_builtin("dict", [a[0]], {}))
                    o.update(kw)
                    return None
            except TypeError as e:
                raise PyExc("TypeError", str(e)) from e
        if isinstance(o, (set, frozenset)):
            if name == "add":
                o.add(a[0])
                return None
            if name in ("union", "intersection", "difference", "issubset", "issuperset", "copy"):
                try:
                    return getattr(o, name)(*[set(self.iterate(x)) for x in a])
                except TypeError as e:
                    raise PyExc("TypeError", str(e)) from e
        raise Und(f"method {self.type_name(o)}.{name}()")

    def str_replace(self, o, old, new):
        """o.replace(old, new) for a literal `old`: exact when every symbolic part of o is an identifier (a field / class name) and
        `old` contains a character no identifier has, so that it can only occur in the literal parts."""
        if not isinstance(old, str) or not old or not is_strlike(new):
            raise Und("str.replace with a symbolic pattern")
        parts = o.parts if isinstance(o, SStr) else (o,)
        if any(not isinstance(q, str) for q in parts):
            if all(ch.isalnum() or ch == "_" for ch in old) or not all(isinstance(q, str) or (isinstance(q, Sym) and q.kind in ("name", "clsname")) for q in parts):
                raise Und("str.replace on a symbolic string whose symbolic parts might contain the pattern")
        out: list = []
        for q in parts:
            if isinstance(q, str):
                pieces = q.split(old)
                for i, piece in enumerate(pieces):
                    if i:
                        out.append(new)
                    out.append(piece)
            else:
                out.append(q)
        return mkstr(out)

    def template_substitute(self, tpl, a: list, kw: dict, safe: bool):
        if not isinstance(tpl, str):
            raise Und("string.Template over a symbolic template")
        mapping = dict(a[0]) if a and isinstance(a[0], dict) else {}
        if a and not isinstance(a[0], dict):
            raise Und("string.Template.substitute with an opaque mapping")
        mapping.update(kw)
        out: list = []
        pos = 0
        for m in re.finditer(r"\$(?:(\$)|([_a-zA-Z][_a-zA-Z0-9]*)|\{([_a-zA-Z][_a-zA-Z0-9]*)\}|())", tpl):
            out.append(tpl[pos:m.start()])
            pos = m.end()
            if m.group(1) is not None:
                out.append("$")
                continue
            key = m.group(2) or m.group(3)
            if key is None:
                if safe:
                    out.append(m.group(0))
                    continue
                raise PyExc("ValueError", "Invalid placeholder in string")
            if key not in mapping:
                if safe:
                    out.append(m.group(0))
                    continue
                raise PyExc("KeyError", key)
            out.append(to_text(mapping[key], "s"))
        out.append(tpl[pos:])
        return mkstr(out)

    def call_dunder(self, o, name: str, a: list):
        """`x.__getitem__(k)` and friends on builtin values are the operators they implement (bound special methods are what
        map / filter / partial pipelines pass around instead of a lambda)."""
        n = len(a)
        if name == "__getitem__" and n == 1:
            if isinstance(a[0], slice):
                if isinstance(o, (list, tuple, str, range, bytes)):
                    return o[a[0]]
                raise Und(f"slice of {o!r}")
            return self.getitem(o, a[0])
        if name == "__contains__" and n == 1:
            t = self.contains(o, a[0])
            if t is None:
                raise Und("a membership test depends on a run-time value")
            return t
        if name == "__len__" and n == 0:
            return self.call_builtin("len", [o], {})
        if name == "__iter__" and n == 0:
            return self.call_builtin("iter", [o], {})
        if name == "__next__" and n == 0:
            return self.call_builtin("next", [o], {})
        if name in ("__eq__", "__ne__") and n == 1:
            t = self.veq(o, a[0])
            if t is None:
                raise Und("an equality test depends on a run-time value")
            return t if name == "__eq__" else not t
        if name == "__setitem__" and n == 2 and isinstance(o, (list, dict)):
            try:
                o[a[0]] = a[1]
            except (IndexError, TypeError, KeyError) as e:
                raise PyExc(type(e).__name__, str(e)) from e
            return None
        if name in ("__add__", "__mod__", "__mul__") and n == 1:
            op = {"__add__": ast.Add(), "__mod__": ast.Mod(), "__mul__": ast.Mult()}[name]
            return self.binop(op, o, a[0], ast.Constant(value=name))
        if name == "__str__" and n == 0:
            return to_text(o, "s")
        if name == "__repr__" and n == 0:
            return to_text(o, "r")
        return MISSING

    def str_format(self, fmt, a: list, kw: dict):
        if not isinstance(fmt, str):
            raise Und("str.format on a symbolic template")
        parts: list = []
        auto = 0
        try:
            parsed = list(string.Formatter().parse(fmt))
        except ValueError as e:
            raise PyExc("ValueError", str(e)) from e
        for lit, fld, spec, conv in parsed:
            parts.append(lit)
            if fld is None:
                continue
            if spec:
                raise Und("str.format with a format spec")
            if fld == "":
                if auto >= len(a):
                    raise PyExc("IndexError", "Replacement index out of range for positional args tuple")
                v = a[auto]
                auto += 1
            elif fld.isdigit():
                if int(fld) >= len(a):
                    raise PyExc("IndexError", "Replacement index out of range for positional args tuple")
                v = a[int(fld)]
            elif fld.isidentifier():
                if fld not in kw:
                    raise PyExc("KeyError", fld)
                v = kw[fld]
            else:
                raise Und(f"str.format field {fld!r}")
            parts.append(to_text(v, "r" if conv == "r" else "s"))
        return mkstr(parts)

    # ------------------------------------------------------------------------------------------ statements
    def block(self, stmts, fr: Frame) -> None:
        for s in stmts:
            self.stmt(s, fr)

    def stmt(self, s, fr: Frame) -> None:  # noqa: C901, PLR0912, PLR0915
        self.w.steps += 1
        if self.w.steps > self.MAX_STEPS:
            raise Und("evaluation budget exhausted")
        if isinstance(s, ast.Expr):
            if not isinstance(s.value, ast.Constant):
                self.ev(s.value, fr)
            return
        if isinstance(s, ast.Assign):
            v = self.ev(s.value, fr)
            for t in s.targets:
                self.assign(t, v, fr)
            return
        if isinstance(s, ast.AnnAssign):
            if s.value is not None:
                self.assign(s.target, self.ev(s.value, fr), fr)
            return
        if isinstance(s, ast.AugAssign):
            load = ast.copy_location(_as_load(s.target), s.target)
            cur = self.ev(load, fr)
            rhs = self.ev(s.value, fr)
            if isinstance(cur, list) and isinstance(s.op, ast.Add):
                cur.extend(list(self.iterate(rhs)))
                new = cur
            else:
                new = self.binop(s.op, cur, rhs, s)
            self.assign(s.target, new, fr)
            return
        if isinstance(s, ast.If):
            self.block(s.body if self.cond(s.test, fr) else s.orelse, fr)
            return
        if isinstance(s, ast.For):
            broke = False
            for v in self.iterate(self.ev(s.iter, fr)):
                self.assign(s.target, v, fr)
                try:
                    self.block(s.body, fr)
                except _Continue:
                    continue
                except _Break:
                    broke = True
                    break
            if not broke:
                self.block(s.orelse, fr)
            return
        if isinstance(s, ast.While):
            n = 0
            broke = False
            while self.cond(s.test, fr):
                n += 1
                if n > 5000:
                    raise Und("loop bound")
                try:
                    self.block(s.body, fr)
                except _Continue:
                    continue
                except _Break:
                    broke = True
                    break
            if not broke:
                self.block(s.orelse, fr)
            return
        if isinstance(s, ast.Return):
            raise _Return(self.ev(s.value, fr) if s.value is not None else None)
        if isinstance(s, ast.Pass):
            return
        if isinstance(s, ast.Break):
            raise _Break
        if isinstance(s, ast.Continue):
            raise _Continue
        if isinstance(s, ast.Raise):
            if s.exc is None:
                if fr.exc is not None:
                    raise PyExc(fr.exc.kind, fr.exc.detail)
                raise PyExc("RuntimeError", "No active exception to reraise")
            v = self.ev(s.exc, fr)
            if isinstance(v, ExcVal):
                raise PyExc(v.kind, ", ".join(map(repr, v.args))[:200])
            if isinstance(v, Builtin) and v.name in _EXC_NAMES:
                raise PyExc(v.name)
            if isinstance(v, RepoCls):
                raise PyExc(v.ci.name)
            raise Und(f"raise of {v!r}")
        if isinstance(s, ast.Try):
            self.try_(s, fr)
            return
        if isinstance(s, (ast.FunctionDef,)):
            nf = Func(s, fr.func.module, None, fr.locals if not isinstance(fr.func.node, ast.Module) else None, generated=fr.func.generated)
            if s.decorator_list:
                if len(self.custom_decorators(s)) != len(s.decorator_list):
                    raise Und(f"descriptor decorator on the nested function {s.name}")
                nf = self.decorated(nf, fr)
            fr.locals[self.ident(s.name)] = nf
            return
        if isinstance(s, ast.Assert):
            if not self.cond(s.test, fr):
                raise PyExc("AssertionError")
            return
        if isinstance(s, ast.Delete):
            for t in s.targets:
                if isinstance(t, ast.Name):
                    fr.locals.pop(self.ident(t.id), None)
                elif isinstance(t, ast.Subscript):
                    c, k = self.ev(t.value, fr), self.ev(t.slice, fr)
                    try:
                        del c[k]
                    except (KeyError, IndexError, TypeError) as e:
                        raise PyExc(type(e).__name__, str(e)) from e
                elif isinstance(t, ast.Attribute):
                    self.call_builtin("delattr", [self.ev(t.value, fr), t.attr], {})
                else:
                    raise Und("del target")
            return
        if isinstance(s, ast.Import):
            for al in s.names:
                if al.name.split(".")[0] == "ipv8":
                    raise Und(f"function-level import of {al.name}")
                fr.locals[al.asname or al.name.split(".")[0]] = Ext(al.name if al.asname else al.name.split(".")[0])
            return
        if isinstance(s, ast.ImportFrom):
            if s.level or (s.module or "").split(".")[0] == "ipv8":
                # a function-level import of a library module (the usual way around an import cycle): the same objects a module-level
                # import of that name denotes
                m = fr.func.module
                if s.level:
                    parts = m.name.split(".") if m.relpath.endswith("__init__.py") else m.name.split(".")[:-1]
                    parts = parts[: len(parts) - (s.level - 1)]
                    modname = ".".join(parts + ([s.module] if s.module else []))
                else:
                    modname = s.module or ""
                target = self.repo.modules.get(modname)
                for al in s.names:
                    sub = self.repo.modules.get(modname + "." + al.name)
                    if al.name == "*":
                        raise Und(f"function-level star import from {modname}")
                    if target is not None and (al.name in target.classes or al.name in target.functions or al.name in target.constants
                                               or al.name in target.imports):
                        fr.locals[al.asname or al.name] = self.global_get(target, al.name)
                    elif sub is not None:
                        fr.locals[al.asname or al.name] = ModRef(sub)
                    else:
                        raise Und(f"function-level import of {al.name} from {modname} cannot be resolved")
                return
            for al in s.names:
                fr.locals[al.asname or al.name] = Ext(f"{s.module}.{al.name}")
            return
        if isinstance(s, ast.With):
            self.with_(list(s.items), s.body, fr)
            return
        if isinstance(s, (ast.Global, ast.Nonlocal)):
            raise Und("global / nonlocal rebinding")
        if isinstance(s, ast.Match):
            subj = self.ev(s.subject, fr)
            for case in s.cases:
                t = self.match_pattern(case.pattern, subj, fr)
                if t is None:
                    raise Und(f"the pattern `{norm(case.pattern)[:60]}` depends on a run-time value")
                if t and (case.guard is None or self.cond(case.guard, fr)):
                    self.block(case.body, fr)
                    return
            return
        raise Und(f"statement `{norm(s)[:60]}`")

    def match_pattern(self, p, subj, fr: Frame):  # noqa: C901, PLR0911, PLR0912
        """True / False / None (unknown); captures are bound as CPython binds them (also on a later failure of the same case)."""
        if isinstance(p, ast.MatchValue):
            return self.veq(subj, self.ev(p.value, fr))
        if isinstance(p, ast.MatchSingleton):
            return self.same(subj, p.value)
        if isinstance(p, ast.MatchAs):
            t = True if p.pattern is None else self.match_pattern(p.pattern, subj, fr)
            if t and p.name is not None:
                fr.locals[self.ident(p.name)] = subj
            return t
        if isinstance(p, ast.MatchOr):
            res = False
            for q in p.patterns:
                t = self.match_pattern(q, subj, fr)
                if t:
                    return True
                if t is None:
                    res = None
            return res
        if isinstance(p, ast.MatchClass):
            cls = self.ev(p.cls, fr)
            if not self.is_instance(subj, cls):
                return False
            pos_attrs: list = []
            if p.patterns:
                if len(p.patterns) == 1 and isinstance(cls, Builtin) and cls.name in ("str", "int", "float", "bool", "bytes", "list", "tuple", "dict", "set", "frozenset"):
                    return self.match_pattern(p.patterns[0], subj, fr)
                ma = getattr(subj, "match_args", None) if isinstance(subj, Obj) else None
                if ma is None:
                    raise Und("class pattern with positional sub-patterns")
                if len(p.patterns) > len(ma):
                    raise PyExc("TypeError", f"{cls!r}() accepts {len(ma)} positional sub-patterns ({len(p.patterns)} given)")
                pos_attrs = list(ma[:len(p.patterns)])
            res = True
            for k, q in zip([*pos_attrs, *p.kwd_attrs], [*p.patterns, *p.kwd_patterns]):
                try:
                    v = self.getattr_(subj, k)
                except PyExc as e:
                    if e.kind == "AttributeError":
                        return False
                    raise
                t = self.match_pattern(q, v, fr)
                if t is False:
                    return False
                if t is None:
                    res = None
            return res
        if isinstance(p, ast.MatchSequence):
            if isinstance(subj, Obj) and self.tuple_of(subj) is not None:
                subj = self.tuple_of(subj)
            if not isinstance(subj, (list, tuple)):
                if self.type_name(subj) is None:
                    raise Und(f"sequence pattern against the opaque value {subj!r}")
                return False
            star = [i for i, q in enumerate(p.patterns) if isinstance(q, ast.MatchStar)]
            if not star:
                if len(subj) != len(p.patterns):
                    return False
                pairs = list(zip(p.patterns, subj))
            else:
                i = star[0]
                after = len(p.patterns) - i - 1
                if len(subj) < len(p.patterns) - 1:
                    return False
                pairs = list(zip(p.patterns[:i], subj[:i])) + list(zip(p.patterns[i + 1:], subj[len(subj) - after:]))
                if p.patterns[i].name is not None:
                    fr.locals[self.ident(p.patterns[i].name)] = list(subj[i:len(subj) - after])
            res = True
            for q, v in pairs:
                t = self.match_pattern(q, v, fr)
                if t is False:
                    return False
                if t is None:
                    res = None
            return res
        raise Und(f"pattern `{norm(p)[:60]}`")

    def with_(self, items: list, body: list, fr: Frame) -> None:
        """`with contextlib.suppress(E, ..):` / `with contextlib.nullcontext(..):` - the only context managers the evaluated fragment
        may use; `with a, b:` is `with a:` around `with b:`."""
        if not items:
            self.block(body, fr)
            return
        cm = self.ev(items[0].context_expr, fr)
        if not (isinstance(cm, Rec) and cm.kind in ("suppress", "nullcontext")):
            raise Und(f"context manager `{norm(items[0].context_expr)[:60]}`")
        if items[0].optional_vars is not None:
            self.assign(items[0].optional_vars, cm.fields["value"] if cm.kind == "nullcontext" else cm, fr)
        if cm.kind == "nullcontext":
            self.with_(items[1:], body, fr)
            return
        try:
            self.with_(items[1:], body, fr)
        except PyExc as e:
            if not any(self.exc_matches(e.kind, n) for n in cm.fields["kinds"]):
                raise

    def try_(self, s: ast.Try, fr: Frame) -> None:
        try:
            try:
                self.block(s.body, fr)
            except PyExc as e:
                for h in s.handlers:
                    if h.type is None:
                        names = ["BaseException"]
                    else:
                        tv = self.ev(h.type, fr)
                        names = [getattr(x, "name", None) or getattr(getattr(x, "ci", None), "name", "?") for x in (tv if isinstance(tv, tuple) else (tv,))]
                    if any(self.exc_matches(e.kind, n) for n in names):
                        if h.name:
                            fr.locals[h.name] = ExcVal(e.kind, (e.detail,))
                        old, fr.exc = fr.exc, e
                        try:
                            self.block(h.body, fr)
                        finally:
                            fr.exc = old
                        break
                else:
                    raise
            else:
                self.block(s.orelse, fr)
        finally:
            if s.finalbody:
                self.block(s.finalbody, fr)

    def assign(self, t, v, fr: Frame) -> None:
        if isinstance(t, ast.Name):
            fr.locals[self.ident(t.id)] = v
            return
        if isinstance(t, (ast.Tuple, ast.List)):
            vals = list(self.iterate(v))
            star = [i for i, e in enumerate(t.elts) if isinstance(e, ast.Starred)]
            if star:
                i = star[0]
                after = len(t.elts) - i - 1
                if len(vals) < len(t.elts) - 1:
                    raise PyExc("ValueError", "not enough values to unpack")
                for e, x in zip(t.elts[:i], vals[:i]):
                    self.assign(e, x, fr)
                self.assign(t.elts[i].value, vals[i:len(vals) - after], fr)
                for e, x in zip(t.elts[i + 1:], vals[len(vals) - after:]):
                    self.assign(e, x, fr)
                return
            if len(vals) != len(t.elts):
                raise PyExc("ValueError", f"cannot unpack {len(vals)} values into {len(t.elts)} targets")
            for e, x in zip(t.elts, vals):
                self.assign(e, x, fr)
            return
        if isinstance(t, ast.Attribute):
            self.setattr_(self.ev(t.value, fr), t.attr, v)
            return
        if isinstance(t, ast.Subscript):
            c = self.ev(t.value, fr)
            k = self.ev(t.slice, fr) if not isinstance(t.slice, ast.Slice) else self.slice_(t.slice, fr)
            if isinstance(c, (list, dict)):
                try:
                    c[k] = v
                except (IndexError, TypeError, KeyError) as e:
                    raise PyExc(type(e).__name__, str(e)) from e
                return
            raise Und(f"item store on {c!r}")
        raise Und("assignment target")

    # ------------------------------------------------------------------------------------------ expressions
    def test(self, e, fr: Frame):
        """Three-valued truth of a condition."""
        if isinstance(e, ast.BoolOp):
            is_and = isinstance(e.op, ast.And)
            res = is_and
            for v in e.values:
                t = self.test(v, fr)
                if t is None:
                    res = None
                elif t != is_and:
                    return t
            return res
        if isinstance(e, ast.UnaryOp) and isinstance(e.op, ast.Not):
            t = self.test(e.operand, fr)
            return None if t is None else not t
        if isinstance(e, ast.Compare):
            return self.ev_compare(e, fr)
        return self.truth(self.ev(e, fr))

    def cond(self, e, fr: Frame) -> bool:
        t = self.test(e, fr)
        if t is None:
            raise Und(f"the condition `{norm(e)[:80]}` depends on a run-time value")
        return t

    def ev_compare(self, e: ast.Compare, fr: Frame):
        left = self.ev(e.left, fr)
        res = True
        for op, c in zip(e.ops, e.comparators):
            right = self.ev(c, fr)
            t = self.compare(op, left, right)
            if t is False:
                return False
            if t is None:
                res = None
            left = right
        return res

    def slice_(self, s: ast.Slice, fr: Frame) -> slice:
        vals = [self.ev(x, fr) if x is not None else None for x in (s.lower, s.upper, s.step)]
        if not all(v is None or (isinstance(v, int) and not isinstance(v, bool)) for v in vals):
            raise Und("symbolic slice bound")
        return slice(*vals)

    def binop(self, op, l, r, node):  # noqa: C901
        if isinstance(op, ast.Add):
            if is_strlike(l) and is_strlike(r):
                return mkstr([l, r])
            if isinstance(l, list) and isinstance(r, list):
                return l + r
            if isinstance(l, tuple) and isinstance(r, tuple):
                return l + r
        if isinstance(op, ast.BitOr) and isinstance(l, dict) and isinstance(r, dict):
            return {**l, **r}
        if isinstance(op, ast.Mult) and ((isinstance(l, (list, tuple, str)) and isinstance(r, int)) or (isinstance(r, (list, tuple, str)) and isinstance(l, int))):
            return l * r
        if isinstance(l, (int, float)) and isinstance(r, (int, float)):
            try:
                if isinstance(op, ast.Add):
                    return l + r
                if isinstance(op, ast.Sub):
                    return l - r
                if isinstance(op, ast.Mult):
                    return l * r
                if isinstance(op, ast.FloorDiv):
                    return l // r
                if isinstance(op, ast.Mod):
                    return l % r
                if isinstance(op, ast.Div):
                    return l / r
                if isinstance(op, ast.Pow):
                    return l ** r
                if isinstance(op, ast.BitAnd):
                    return l & r
                if isinstance(op, ast.BitOr):
                    return l | r
                if isinstance(op, ast.BitXor):
                    return l ^ r
                if isinstance(op, ast.LShift):
                    return l << r
                if isinstance(op, ast.RShift):
                    return l >> r
            except (ZeroDivisionError, TypeError, ValueError) as e:
                raise PyExc(type(e).__name__, str(e)) from e
        if isinstance(op, ast.Mod) and is_strlike(l):
            return self.printf(l, r)
        if isinstance(l, (Sym, App)) or isinstance(r, (Sym, App)):
            return App(Sym("op", type(op).__name__), (_freeze(l), _freeze(r)))
        if isinstance(op, ast.Add) and (is_strlike(l) or is_strlike(r) or isinstance(l, (list, tuple)) or isinstance(r, (list, tuple))) \
                and all(x is None or isinstance(x, (list, tuple, dict, set, frozenset, IterObj, GenIter)) or is_strlike(x) or is_concrete(x) for x in (l, r)):
            raise PyExc("TypeError", f"unsupported operand types for +: {self.type_name(l)} and {self.type_name(r)}")
        raise Und(f"operator in `{norm(node)[:60]}`")

    def printf(self, fmt, arg):
        if not isinstance(fmt, str):
            raise Und("printf-style formatting of a symbolic template")
        vals = list(arg) if isinstance(arg, tuple) else [arg]
        parts: list = []
        pos = 0
        for m in re.finditer(r"%(.)", fmt):
            parts.append(fmt[pos:m.start()])
            pos = m.end()
            c = m.group(1)
            if c == "%":
                parts.append("%")
                continue
            if c not in "srd":
                raise Und(f"printf conversion %{c}")
            if not vals:
                raise PyExc("TypeError", "not enough arguments for format string")
            v = vals.pop(0)
            if c == "d" and not (isinstance(v, int)):
                raise Und("%d of a symbolic value")
            parts.append(to_text(v, "r" if c == "r" else "s"))
        parts.append(fmt[pos:])
        if vals:
            raise PyExc("TypeError", "not all arguments converted during string formatting")
        return mkstr(parts)

    def fstring(self, e: ast.JoinedStr, fr: Frame):
        parts = []
        for v in e.values:
            if isinstance(v, ast.Constant):
                parts.append(self.ident(v.value) if fr.func.generated else v.value)
                continue
            val = self.ev(v.value, fr)
            if v.format_spec is not None:
                spec = self.ev(v.format_spec, fr)
                if spec != "":
                    if is_concrete(val) and isinstance(spec, str) and v.conversion == -1:
                        try:
                            parts.append(format(val, spec))
                        except (TypeError, ValueError) as ex:
                            raise PyExc(type(ex).__name__, str(ex)) from ex
                        continue
                    raise Und("format spec on a symbolic value")
            t = to_text(val, "r" if v.conversion in (114, 97) else "s")
            if isinstance(t, SStr):
                for p in t.parts:
                    if isinstance(p, Conv):
                        self.w.conv_nodes.setdefault(id(fr.func.node), []).append((p, v, fr.func))
            parts.append(t)
        return mkstr(parts)

    def comp_frames(self, node, fr: Frame):
        """Python generator over the frames in which the element of a comprehension / generator expression is evaluated.  The
        outermost iterable is evaluated now (as CPython does when the comprehension object is created), everything else when
        the frames are consumed."""
        gens = node.generators
        if any(g.is_async for g in gens):
            raise Und("async comprehension")
        inner = Frame(fr.func, fr.locals.new_child())
        inner.exc = fr.exc
        inner.yields = fr.yields
        first = self.iter_of(self.ev(gens[0].iter, fr))

        def rec(i: int):
            if i == len(gens):
                yield inner
                return
            g = gens[i]
            for v in (first if i == 0 else self.iterate(self.ev(g.iter, inner))):
                self.assign(g.target, v, inner)
                if all(self.cond(c, inner) for c in g.ifs):
                    yield from rec(i + 1)
        return rec(0)

    def comprehension(self, node, fr: Frame, emit) -> None:
        for inner in self.comp_frames(node, fr):
            emit(inner)

    def call_args(self, e: ast.Call, fr: Frame):
        args: list = []
        for a in e.args:
            if isinstance(a, ast.Starred):
                args.extend(self.iterate(self.ev(a.value, fr)))
            else:
                args.append(self.ev(a, fr))
        kw: dict = {}
        for k in e.keywords:
            if k.arg is None:
                m = self.ev(k.value, fr)
                if not isinstance(m, dict):
                    raise Und("** of an opaque mapping")
                for kk, vv in m.items():
                    if kk in kw:
                        raise PyExc("TypeError", f"got multiple values for keyword argument {kk!r}")
                    kw[kk] = vv
            else:
                kw[self.ident(k.arg)] = self.ev(k.value, fr)
        return args, kw

    def ev(self, e, fr: Frame):  # noqa: C901, PLR0911, PLR0912, PLR0915
        self.w.steps += 1
        if isinstance(e, ast.Constant):
            v = e.value
            if isinstance(v, int) and not isinstance(v, bool) and v > 8:
                self.w.big.add(v)
            if isinstance(v, str) and fr.func.generated:
                return self.ident(v)
            return v
        if isinstance(e, ast.Name):
            key = self.ident(e.id)
            if isinstance(key, SStr):
                if len(key.parts) == 1 and isinstance(key.parts[0], Conv) and key.parts[0].how == "r":
                    return _thaw(key.parts[0].value)
                raise PyExc("NameError", f"generated source contains the token {key!r} where a Python literal or name is needed")
            return self.lookup(key, fr)
        if isinstance(e, ast.Attribute):
            return self.getattr_(self.ev(e.value, fr), e.attr)
        if isinstance(e, ast.Call):
            f = self.ev(e.func, fr)
            args, kw = self.call_args(e, fr)
            self._cur = fr
            return self.call(f, args, kw)
        if isinstance(e, ast.Subscript):
            c = self.ev(e.value, fr)
            if isinstance(e.slice, ast.Slice):
                sl = self.slice_(e.slice, fr)
                if isinstance(c, (list, tuple, str, range, bytes)):
                    return c[sl]
                raise Und(f"slice of {c!r}")
            k = self.ev(e.slice, fr)
            return self.getitem(c, k)
        if isinstance(e, ast.JoinedStr):
            return self.fstring(e, fr)
        if isinstance(e, ast.BinOp):
            return self.binop(e.op, self.ev(e.left, fr), self.ev(e.right, fr), e)
        if isinstance(e, ast.BoolOp):
            is_and = isinstance(e.op, ast.And)
            v = None
            for i, x in enumerate(e.values):
                v = self.ev(x, fr)
                if i == len(e.values) - 1:
                    return v
                t = self.truth(v)
                if t is None:
                    rest = ast.BoolOp(op=e.op, values=e.values[i + 1:]) if len(e.values) - i - 1 > 1 else e.values[i + 1]
                    return App(Sym("op", "and" if is_and else "or"), (_freeze(v), _freeze(self.ev(rest, fr))))
                if t != is_and:
                    return v
            return v
        if isinstance(e, ast.UnaryOp):
            if isinstance(e.op, ast.Not):
                t = self.test(e.operand, fr)
                if t is None:
                    return App(Sym("op", "not"), (_freeze(self.ev(e.operand, fr)),))
                return not t
            v = self.ev(e.operand, fr)
            if isinstance(v, (int, float)):
                return -v if isinstance(e.op, ast.USub) else +v if isinstance(e.op, ast.UAdd) else ~v
            raise Und(f"unary operator on {v!r}")
        if isinstance(e, ast.Compare):
            t = self.ev_compare(e, fr)
            if t is None:
                raise Und(f"the comparison `{norm(e)[:80]}` depends on a run-time value")
            return t
        if isinstance(e, ast.IfExp):
            return self.ev(e.body if self.cond(e.test, fr) else e.orelse, fr)
        if isinstance(e, (ast.List, ast.Tuple, ast.Set)):
            out: list = []
            for x in e.elts:
                if isinstance(x, ast.Starred):
                    out.extend(self.iterate(self.ev(x.value, fr)))
                else:
                    out.append(self.ev(x, fr))
            return out if isinstance(e, ast.List) else tuple(out) if isinstance(e, ast.Tuple) else set(out)
        if isinstance(e, ast.Dict):
            d: dict = {}
            for k, v in zip(e.keys, e.values):
                if k is None:
                    d.update(self.ev(v, fr))
                else:
                    try:
                        d[self.ev(k, fr)] = self.ev(v, fr)
                    except TypeError as ex:
                        raise PyExc("TypeError", str(ex)) from ex
            return d
        if isinstance(e, ast.GeneratorExp):
            frames = self.comp_frames(e, fr)
            return GenIter((self.ev(e.elt, f2) for f2 in frames), "generator")
        if isinstance(e, (ast.ListComp, ast.SetComp)):
            res: list = []
            self.comprehension(e, fr, lambda f2: res.append(self.ev(e.elt, f2)))
            return set(res) if isinstance(e, ast.SetComp) else res
        if isinstance(e, ast.DictComp):
            dd: dict = {}

            def put(f2: Frame) -> None:
                dd[self.ev(e.key, f2)] = self.ev(e.value, f2)
            self.comprehension(e, fr, put)
            return dd
        if isinstance(e, ast.Lambda):
            return Func(e, fr.func.module, None, fr.locals, generated=fr.func.generated)
        if isinstance(e, ast.NamedExpr):
            v = self.ev(e.value, fr)
            self.assign(e.target, v, fr)
            return v
        if isinstance(e, (ast.Yield, ast.YieldFrom)):
            if fr.yields is None:
                raise Und("yield outside an evaluated generator function")
            if isinstance(e, ast.Yield):
                fr.yields.append(self.ev(e.value, fr) if e.value is not None else None)
            else:
                fr.yields.extend(self.iterate(self.ev(e.value, fr)))
            return None
        if isinstance(e, ast.Starred):
            raise Und("starred expression")
        raise Und(f"expression `{norm(e)[:60]}`")

    def getitem(self, c, k):
        if isinstance(c, Obj) and self.tuple_of(c) is not None:
            c = self.tuple_of(c)
        if isinstance(c, (list, tuple, str, range, bytes)):
            if not isinstance(k, int):        # bool is an int: seq[True] is seq[1]
                if isinstance(k, (Sym, App, SStr)):
                    raise Und(f"index {k!r} into a sequence")
                raise PyExc("TypeError", "indices must be integers")
            try:
                return c[int(k)]
            except IndexError as e:
                raise PyExc("IndexError", f"index {k} out of range (length {len(c)})") from e
        if isinstance(c, dict):
            try:
                if k in c:
                    return c[k]
            except TypeError as e:
                raise PyExc("TypeError", str(e)) from e
            raise PyExc("KeyError", repr(k))
        if isinstance(c, Ext) and c.name == "sys.modules":
            try:
                return self.w.sysmodules.setdefault(k, Obj(None, {}, f"module {k!r}"))
            except TypeError as e:
                raise PyExc("TypeError", str(e)) from e
        if isinstance(c, (Builtin, Ext, RepoCls, ClsObj)):
            if isinstance(c, Builtin) and c.name in ("list", "tuple", "set", "dict", "type", "frozenset"):
                return Rec("generic", __origin__=c, __args__=k if isinstance(k, tuple) else (k,))
            raise Und(f"subscript of {c!r}")
        raise Und(f"subscript of the opaque value {c!r}")


def _as_load(t):
    if isinstance(t, ast.Name):
        return ast.Name(id=t.id, ctx=ast.Load())
    if isinstance(t, ast.Attribute):
        return ast.Attribute(value=t.value, attr=t.attr, ctx=ast.Load())
    if isinstance(t, ast.Subscript):
        return ast.Subscript(value=t.value, slice=t.slice, ctx=ast.Load())
    raise Und("augmented assignment target")


def _thaw(v):
    if isinstance(v, tuple) and v and v[0] == "<list>":
        return [_thaw(x) for x in v[1:]]
    if isinstance(v, tuple) and v and v[0] == "<dict>":
        return {_thaw(k): _thaw(x) for k, x in v[1:]}
    if isinstance(v, tuple):
        return tuple(_thaw(x) for x in v)
    return v


EMPTY = Ext("inspect.Parameter.empty")


def function_record(name: str, params: list) -> Rec:
    """A user-defined function seen from outside: signature, __code__, __defaults__, __kwdefaults__ (CPython's layout)."""
    pos = [p for p in params if p[2] == "pos"]
    kwo = [p for p in params if p[2] == "kwonly"]
    var = [p for p in params if p[2] in ("var", "varkw")]
    defaults = tuple(d for _, d, _ in pos if d is not EMPTY)
    kwdefaults = {n: d for n, d, _ in kwo if d is not EMPTY}
    code = Rec("funccode", co_varnames=tuple(n for n, _, _ in pos + kwo + var), co_argcount=len(pos), co_kwonlyargcount=len(kwo),
               co_posonlyargcount=0, co_name=name)
    return Rec("function", name=name, __name__=name, params=params, __code__=code, __defaults__=defaults or None,
               __kwdefaults__=kwdefaults or None)


# ===================================================================================================== abstract definitions
def N(i: int) -> Sym:
    return Sym("name", i, "str")


@dataclass
class Defn:
    """One abstract payload definition.  kinds: 'b' = "bits" (8 names), 's' = a string format, 'l' = [nested payload class], 'p' = nested payload class."""
    kinds: tuple
    pack: frozenset = frozenset()
    unpack: frozenset = frozenset()
    defaults: frozenset = frozenset()
    kwonly: frozenset = frozenset()
    custom_init: bool = False
    groups: list = field(default_factory=list)
    inherited: bool = False      # the fix_pack_ / fix_unpack_ hooks are defined on a base class of the definition, not on the class itself

    def __post_init__(self) -> None:
        i = 0
        self.groups = []
        for k in self.kinds:
            n = 8 if k == "b" else 1
            self.groups.append(list(range(i, i + n)))
            i += n
        self.n = i

    @property
    def names(self) -> list:
        return [N(i) for i in range(self.n)]

    def describe(self) -> str:
        kinds = {"b": "'bits'", "s": "<str format>", "l": "[<payload class>]", "p": "<payload class>"}
        out = f"format_list=[{', '.join(kinds[k] for k in self.kinds)}], names=[{', '.join(f'n{i}' for i in range(self.n))}]"
        for label, s in (("fix_pack_", self.pack), ("fix_unpack_", self.unpack), ("constructor defaults", self.defaults), ("keyword-only", self.kwonly)):
            if s:
                out += f", {label} on {{{', '.join(f'n{i}' for i in sorted(s))}}}"
        if self.inherited and (self.pack or self.unpack):
            out += " (the hooks are inherited from a base class of the definition)"
        return out


def _pattern(p: str, n: int) -> frozenset:
    if p == "none" or n == 0:
        return frozenset()
    return frozenset({"all": range(n), "even": range(0, n, 2), "odd": range(1, n, 2), "first": [0], "last": [n - 1]}[p])


_HOOK_PATTERNS = [("none", "all"), ("all", "none"), ("even", "odd"), ("odd", "first"), ("first", "last"), ("last", "even")]
def _seqs(alphabet: str, upto: int) -> list[tuple]:
    out: list[tuple] = [()]
    level: list[tuple] = [()]
    for _ in range(upto):
        level = [(*s, c) for s in level for c in alphabet]
        out += level
    return out


# every format list over {string format, 'bits'} up to length 3, plus longer ones with repeated 'bits'
_SHAPES_A = [*_seqs("sb", 3), ("b", "s", "b", "s"), ("s", "b", "b", "s", "s"), ("s", "s", "s", "s", "s")]
# every format list over {string format, [payload], payload} up to length 2 that nests a payload, plus mixes with 'bits'
_SHAPES_B = [s for s in _seqs("slp", 2) if "l" in s or "p" in s] + [("b", "l", "s"), ("s", "p", "b", "l"), ("p", "b", "b", "l", "s")]


def definitions(shapes) -> list[Defn]:
    out = []
    for si, kinds in enumerate(shapes):
        for v in range(3):
            pp, up = _HOOK_PATTERNS[(si + v * 2) % len(_HOOK_PATTERNS)]
            d = Defn(kinds)
            d.pack, d.unpack = _pattern(pp, d.n), _pattern(up, d.n)
            if v and d.n:
                d.defaults = frozenset(range(max(0, d.n - v), d.n)) if (si + v) % 3 else frozenset(range(d.n))
            d.inherited = v == 2
            out.append(d)
            if not d.n:
                break
    return out


class Scenario:
    """A world with the abstract class of a definition in it."""

    def __init__(self, repo, world: World | None = None) -> None:
        self.w = world or World(repo)
        self.it = Interp(self.w)
        self.repo = repo
        self.vp = RepoCls(repo.cls("VariablePayload", LP))
        self.nested: dict[int, ClsObj] = {}

    def nested_cls(self, k: int) -> ClsObj:
        if k not in self.nested:
            self.nested[k] = ClsObj(f"P{k}", [self.vp], {"names": [], "format_list": []})
        return self.nested[k]

    def formats(self, d: Defn) -> list:
        out = []
        for k, kind in enumerate(d.kinds):
            out.append("bits" if kind == "b" else Sym("fmt", k, "str") if kind == "s" else [self.nested_cls(k)] if kind == "l" else self.nested_cls(k))
        return out

    def make_class(self, d: Defn, label: str = "D") -> ClsObj:
        attrs: dict = {"names": d.names, "format_list": self.formats(d), "__name__": Sym("clsname", label, "str"),
                       "__module__": Sym("modname", label, "str")}
        bases = [self.vp]
        hooks = attrs
        if d.inherited and (d.pack or d.unpack):
            # a payload class deriving from a class that carries the per-field rules: attribute lookup finds them, the class __dict__ does not
            hooks = {"__name__": Sym("clsname", label + "Base", "str"), "__module__": Sym("modname", label, "str")}
            bases = [ClsObj(label + "Base", [self.vp], hooks)]
        for i in d.pack:
            hooks[mkstr(["fix_pack_", N(i)])] = HookDef("fix_pack_", i)
        for i in d.unpack:
            hooks[mkstr(["fix_unpack_", N(i)])] = HookDef("fix_unpack_", i)
        if d.custom_init or d.defaults or d.kwonly:
            params = [("self", EMPTY, "pos")]
            params += [(N(i), Sym("default", i) if i in d.defaults else EMPTY, "pos") for i in range(d.n) if i not in d.kwonly]
            params += [(N(i), Sym("default", i) if i in d.defaults else EMPTY, "kwonly") for i in range(d.n) if i in d.kwonly]
            attrs["__init__"] = function_record("__init__", params)
        return ClsObj(label, bases, attrs)

    def instance(self, cls: ClsObj, d: Defn, filled: bool = True) -> Obj:
        return Obj(cls, {N(i): Sym("field", i) for i in range(d.n)} if filled else {}, "payload")


def spec_fmt(d: Defn, sc: Scenario, k: int):
    kind = d.kinds[k]
    return "bits" if kind == "b" else Sym("fmt", k, "str") if kind == "s" else "payload-list" if kind == "l" else "payload"


def spec_pack(d: Defn, sc: Scenario, value=None) -> list:
    value = value or (lambda i: Sym("field", i))
    out = []
    for k, grp in enumerate(d.groups):
        vals = [App(Sym("hook", ("fix_pack_", i, "inst"), "callable"), (value(i),)) if i in d.pack else value(i) for i in grp]
        out.append((spec_fmt(d, sc, k), *vals))
    return out


def spec_unpack(d: Defn, cls: ClsObj) -> Constructed:
    return Constructed(cls, tuple(App(Sym("hook", ("fix_unpack_", i, "cls"), "callable"), (Sym("wire", i),)) if i in d.unpack else Sym("wire", i)
                                  for i in range(d.n)))


def wire(d: Defn) -> list:
    return [Sym("wire", i) for i in range(d.n)]


def init_calls(d: Defn, with_defaults: bool):
    """(label, positional, keyword, expected attribute map | None = must raise)."""
    n = d.n
    A = [Sym("arg", i) for i in range(n)]
    full = {N(i): A[i] for i in range(n)}
    out = [("all positional", A, {}, full)]
    if n:
        out.append(("all keyword", [], dict(full), full))
        h = n // 2
        out.append((f"{h} positional, {n - h} keyword", A[:h], {N(i): A[i] for i in range(h, n)}, full))
        req = [i for i in range(n) if not (with_defaults and i in d.defaults)]
        if with_defaults and d.defaults:
            exp = {N(i): (A[i] if i in req else Sym("default", i)) for i in range(n)}
            out.append(("defaulted arguments omitted", [], {N(i): A[i] for i in req}, exp))
        if req:
            miss = req[0]
            out.append((f"required argument n{miss} omitted", [], {N(i): A[i] for i in range(n) if i != miss}, None))
        out.append(("one surplus positional argument", [*A, Sym("arg", n)], {}, None))
        out.append(("n0 given positionally and by keyword", A, {N(0): Sym("arg", n)}, None))
        out.append(("an unknown keyword argument", A, {Sym("name", n, "str"): Sym("arg", n)}, None))
    return out


def run_init(sc: Scenario, cls: ClsObj, d: Defn, fn_of, with_defaults: bool):
    """Calls the constructor given by fn_of(obj) in every way; returns a description of the first disagreement or None."""
    for label, pos, kw, exp in init_calls(d, with_defaults):
        obj = sc.instance(cls, d, filled=False)
        mark = len(sc.w.events)
        try:
            sc.it.call(fn_of(obj), list(pos), dict(kw))
            got = dict(obj.attrs)
            err = None
        except PyExc as e:
            got, err = None, e
        if exp is None:
            if err is None:
                return f"constructor call with {label} is accepted (fields {got}) although the argument list is not valid for the definition"
            continue
        if err is not None:
            return f"constructor call with {label} raises {err}"
        if got != exp and not _equal_in_case(sc.w, got, exp):
            return f"constructor call with {label} leaves the fields {got}, expected {exp}"
        ev = [x for x in sc.w.events[mark:] if (x[0] == "base-init" and x[2] is obj) or (x[0] == "set" and x[1] is obj)]
        if not ev or ev[0][0] != "base-init":
            return f"constructor call with {label} does not run Payload.__init__(self) before the fields are set"
    return None


def _equal_in_case(w: World, got: dict, exp: dict) -> bool:
    """Field maps are equal given the case under evaluation: a default that is None in this case IS the value None."""
    if set(got) != set(exp):
        return False
    for k, e in exp.items():
        g = got[k]
        if g == e:
            continue
        if g is None and isinstance(e, Sym) and e.kind == "default" and w.assumed.get(("none", e)) is True:
            continue
        return False
    return True


def _same_outcome(a, b) -> bool:
    if isinstance(a, PyExc) or isinstance(b, PyExc):
        return isinstance(a, PyExc) and isinstance(b, PyExc) and a.kind == b.kind
    try:
        return bool(_freeze(a) == _freeze(b))
    except Exception:  # noqa: BLE001
        return False


_MAX_ORDER_RUNS = 48


def _all_orders(w: World, thunk):
    """thunk() evaluated under EVERY iteration order of each set of opaque values the evaluated code iterates over (discovered lazily:
    code that never iterates such a set is evaluated exactly once).  Sets with equal contents are taken to iterate in the same
    order within one run (CPython: same hashes, same insertion history).  All orders must give one outcome - then it holds for
    every run; different outcomes are undecided (the code's behaviour depends on hash values)."""
    from itertools import permutations
    pending: list[dict] = [{}]
    outcomes: list = []
    runs = 0
    try:
        while pending:
            orders = pending.pop()
            runs += 1
            if runs > _MAX_ORDER_RUNS:
                raise Und("too many iteration orders of sets of symbols")
            w.orders = orders
            try:
                outcomes.append(thunk())
            except NeedOrder as e:
                pending.extend({**orders, e.key: perm} for perm in permutations(sorted(e.key, key=repr)))
    finally:
        w.orders = {}
    if any(not _same_outcome(outcomes[0], o) for o in outcomes[1:]):
        raise Und("the outcome depends on the iteration order of a set of symbols")
    return outcomes[0]


def decided(fi_where: str, thunk, world: World | None = None):
    try:
        return thunk() if world is None else _all_orders(world, thunk)
    except Und as e:
        raise AnalysisError(f"undecided: {fi_where}: {e}") from e
    except RecursionError as e:
        raise AnalysisError(f"undecided: {fi_where}: recursion") from e


_MAX_CASES = 64


def forked(sc: Scenario, thunk):
    """thunk() -> disagreement text | None, evaluated once per CASE of the questions the evaluated code asks about opaque
    constructor defaults (truth value, None-ness).  A default may be any Python object, so every consistent case is a definition
    the property quantifies over: a disagreement in one case is a disagreement.  Cases are discovered lazily (depth first, 'truthy /
    not None' first), so code that never asks is evaluated exactly once.  All cases are evaluated while they fit in _MAX_CASES
    evaluations; beyond that (many defaults, each asked about) the cases are sampled like the definitions themselves: every answer
    'no', and each single question answered against all the others."""
    w = sc.w

    def described(msg, case):
        if msg and case:
            what = {("truth", True): "is truthy", ("truth", False): "is falsy (0, False, b'', '', None ...)",
                    ("none", True): "is None", ("none", False): "is not None", ("lit", True): "is a value of a builtin literal type",
                    ("lit", False): "is an object of another class"}
            msg += " [case: " + ", ".join(f"the default of n{k[1].key} " + what.get((k[0], v), f"{'is' if v else 'is not'} a {k[0][4:]}")
                                          for k, v in case.items()) + "]"
        return msg

    thunk0 = thunk

    def thunk():
        # a case in which a default is NOT a value of a builtin literal type, or of none of the literal types the code asked for, lies
        # outside the family these rules enumerate: whether such defaults survive the generated source is rule default-literal's
        # question, and a clean rejection of them is not reported as a disagreement of the enumerated definitions
        msg = thunk0()
        if msg and any(k[0] == "lit" and (val is False or not any(k2[1] == k[1] and v2 is True and (k2[0].startswith("isa:") or k2[0] == "none")
                                                                for k2, v2 in w.assumed.items()))
                       for k, val in w.assumed.items()):
            w.rejected_exotic = getattr(w, "rejected_exotic", 0) + 1
            return None
        return msg

    def run(policy):
        case: dict = {}
        for _ in range(400):
            w.assumed = case
            try:
                return thunk(), case
            except NeedCase as e:
                case = {**case, e.key: policy(len(case))}
        raise Und("the questions the code asks about default values do not settle")

    w.forking = True
    try:
        stack: list[dict] = [{}]
        runs = 0
        longest = 0
        while stack and runs < _MAX_CASES:
            case = stack.pop()
            runs += 1
            w.assumed = case
            try:
                msg = thunk()
            except NeedCase as e:
                stack.append({**case, e.key: False})
                stack.append({**case, e.key: True})
                continue
            longest = max(longest, len(case))
            if msg:
                return described(msg, case)
        if not stack:
            return None
        for policy in [lambda i: False] + [lambda i, j=j, v=v: (i == j) == v for j in range(longest + 1) for v in (True, False)]:
            msg, case = run(policy)
            if msg:
                return described(msg, case)
        return None
    finally:
        w.assumed, w.forking = {}, False


def scope_guard(sc: Scenario, where: str) -> None:
    if sc.w.big:
        raise AnalysisError(f"undecided: {where}: the integer constant {max(sc.w.big)} takes part in the evaluated code; the enumerated definitions "
                            "(at most 19 names) do not cover behaviour that depends on it")


def gen_function(sc: Scenario, code, name: str, module: Module) -> Func:
    """The function `name` defined by the generated code object (parsed, never run)."""
    if not (isinstance(code, Rec) and code.kind == "code"):
        raise PyExc("TypeError", f"the builder returns {code!r}, not a code object")
    scope: dict = {}
    sc.it._cur = sc.it.module_frame(module)
    sc.it.do_exec([code, ModRef(module), scope], {})
    if name not in scope:
        raise PyExc("NameError", f"the generated source does not define {name}: {sc.it.show(code.fields['text'])!r}")
    return scope[name]


def _builder(repo, name: str, params: tuple):
    """(function to report at, builder FuncInfo | None).  The builders are private: when one no longer exists under its reviewed name
    and parameter list (renamed, merged, other signature), its rule evaluates what vp_compile - the only public way to reach it -
    installs on the class instead (same abstract definitions, same expectations), so the rule does not depend on a private signature."""
    try:
        fi = repo.func(LP, name)
    except AnalysisError:
        return repo.func(LP, "vp_compile"), None
    if tuple(fi.params()) != params or fi.decorators or fi.is_async:
        return fi, None
    return fi, fi


class _LiteralGuard:
    """Which constructor defaults reach generated source as repr() text, and whether the evaluated code had restricted the default to
    a builtin literal type on the way (the case under evaluation answers `isinstance(default, ..)` / `default is None`)."""

    def __init__(self) -> None:
        self.guarded = 0
        self.unguarded: list = []
        self.failed_test = False      # rendered in a case in which the code had asked for the type and the answer was 'no literal'

    def see(self, sc: Scenario, p: Conv) -> None:
        a = sc.w.assumed
        if a.get(("lit", p.value)) is True or a.get(("none", p.value)) is True:
            self.guarded += 1
        else:
            self.unguarded.append(p)
            self.failed_test = self.failed_test or a.get(("lit", p.value)) is False


def _check_default_literal(ctx: Ctx, fi: FuncInfo, direct, vpc: FuncInfo, defs: list, lit: _LiteralGuard) -> None:
    """repr(default) pasted into the generated `def __init__(self, .., name=<text>)` denotes the default only when the text evaluates back
    to an equal object in the generator's globals: int / bool / None / str / bytes / finite float and tuples of those.  The plain
    definition accepts ANY object as a default, so the generator must either test the type of the default before it renders it or bind
    the object itself (no text).  The finding is reported at the reviewed place of the template whatever the builder is called now."""
    where = f"{LP}:_compile_init"
    construct = "repr(default) pasted into the generated __init__ signature"
    unguarded = list(lit.unguarded)
    if unguarded and direct is not None:
        # the restriction may sit where the defaults are collected: evaluate what vp_compile hands to exec()
        sc2 = Scenario(ctx.repo)
        lit2 = _LiteralGuard()

        def via_vp_compile(d: Defn):
            cls = sc2.make_class(d)
            mark = len(sc2.w.exec_texts)
            try:
                sc2.it.call(sc2.it.func_of(vpc), [cls])
            except PyExc:
                pass
            for text in sc2.w.exec_texts[mark:]:
                for p in (text.parts if isinstance(text, SStr) else ()):
                    if isinstance(p, Conv) and isinstance(p.value, Sym) and p.value.kind == "default" and p.how == "r":
                        lit2.see(sc2, p)
            return None
        for d in [d for d in defs if d.defaults][:6]:
            decided(vpc.where, lambda d=d: forked(sc2, lambda: via_vp_compile(d)), sc2.w)
        if not lit2.unguarded and lit2.guarded:
            unguarded = []
        lit = lit2 if unguarded else lit
        ctx.functions.add(vpc.where)
    if unguarded and lit.failed_test:
        construct += " although a type test on the default failed"
    ctx.check(not unguarded, "default-literal", where, construct,
              "constructor defaults reach the generated source as repr() text only after their type was restricted to builtin literals "
              f"({lit.guarded} guarded renderings)" if not unguarded else construct,
              f"{fi.qualname} pastes repr(default) into the source of the generated __init__ for ANY default object (no isinstance test on the way from "
              "inspect.signature(..).parameters to the template, no fallback that binds the object instead of its text): float('inf') / nan give "
              "NameError in vp_compile, dataclasses.field(default_factory=..) and enum members give a SyntaxError, objects with an evaluable but "
              "unequal repr give another default - the plain definition works with all of them")


# ===================================================================================================== rules
def rule_init_template(ctx: Ctx) -> None:
    repo = ctx.repo
    fi, direct = _builder(repo, "_compile_init", ("names", "defaults"))
    vpc = repo.func(LP, "vp_compile")
    defs = definitions(_SHAPES_A)
    bad = None
    conv_ok = conv_bad = 0
    bad_conv = None
    sc = Scenario(repo)
    lit = _LiteralGuard()

    def one(d: Defn):
        nonlocal conv_ok, conv_bad, bad_conv
        cls = sc.make_class(d)
        defaults = {N(i): Sym("default", i) for i in d.defaults}

        def scan(text) -> None:
            nonlocal conv_ok, conv_bad, bad_conv
            for p in (text.parts if isinstance(text, SStr) else ()):
                if isinstance(p, Conv) and isinstance(p.value, Sym) and p.value.kind == "default":
                    if p.how == "r":
                        conv_ok += 1
                        lit.see(sc, p)
                    else:
                        conv_bad += 1
                        bad_conv = bad_conv or p
        try:
            if direct is not None:
                code = sc.it.call(sc.it.func_of(direct), [d.names, defaults])
                scan(code.fields["text"] if isinstance(code, Rec) and code.kind == "code" else None)
                fn = gen_function(sc, code, "__init__", fi.module)
                get = lambda obj: Bound(fn, obj)  # noqa: E731
            else:
                mark = len(sc.w.exec_texts)
                try:
                    sc.it.call(sc.it.func_of(vpc), [cls])
                finally:
                    for text in sc.w.exec_texts[mark:]:
                        scan(text)
                get = lambda obj: sc.it.getattr_(obj, "__init__")  # noqa: E731
        except PyExc as e:
            return f"{e}"
        return run_init(sc, cls, d, get, with_defaults=True)

    for d in defs:
        msg = decided(fi.where, lambda d=d: forked(sc, lambda: one(d)), sc.w)
        if msg and bad is None:
            bad = (d, msg)
    scope_guard(sc, fi.where)
    # LINT: python values interpolated into source must use !r
    if bad_conv is not None:
        node = next((v for lst in sc.w.conv_nodes.values() for p, v, f in lst if p == bad_conv), None)
        ctx.check(False, "repr-in-codegen", fi, node.value if node is not None else fi.node, "default value rendered with !r",
                  f"_compile_init interpolates the Python value `{norm(node.value) if node is not None else '?'}` into generated source with str(): a str default "
                  "becomes a bare identifier (NameError), other objects become unparsable tokens; the interpreted form accepts them")
    else:
        ctx.check(True, "repr-in-codegen", fi, fi.node, "_compile_init: default values are rendered with !r in the generated signature")
    ctx.floor("repr-in-codegen", sum(1 for d in defs if d.defaults), 1)
    ctx.extra["defaults_rendered_with_repr"] = conv_ok
    _check_default_literal(ctx, fi, direct, vpc, defs, lit)
    ctx.check(bad is None or bad_conv is not None and "NameError" in bad[1], "template-init", fi, fi.node,
              f"generated __init__: names in order, `name=<default>` exactly for the names with a default, Payload.__init__(self) then one setter per name "
              f"({len(defs)} abstract definitions x positional / keyword / omitted arguments)",
              "the generated __init__ does not list the names in order with defaults exactly for the names that have one and assign every field from its "
              f"parameter: for {bad[0].describe()}: {bad[1]}" if bad else "")


def _repack_disagreement(sc: Scenario, d: Defn, obj: Obj, fn_again, what: str = "to_pack_list"):
    """The pack list is a function of the CURRENT field values: after a first to_pack_list() every field of the same instance is
    assigned a new (opaque) value the way user code does (`payload.name = value`, through a __setattr__ of the class if it has one)
    and to_pack_list() is called again; it must be the specification for the new values.  All three forms read the fields at pack
    time (the generated to_pack_list is `self.<name>` per field), so a form that answers from state captured earlier (a memo on the
    instance, values copied at construction) emits other bytes than the others for the same field values."""
    if not d.n:
        return None
    new = lambda i: Sym("field", ("reassigned", i))  # noqa: E731
    try:
        for i in range(d.n):
            sc.it.setattr_(obj, N(i), new(i))
    except PyExc as e:
        return f"assigning a field of the instance raises {e}"
    try:
        got = sc.it.call(fn_again(), [])
    except PyExc as e:
        return f"{what} called again after the fields were assigned new values raises {e}"
    exp = spec_pack(d, sc, new)
    if not (isinstance(got, list) and [_freeze(x) for x in got] == [_freeze(x) for x in exp]):
        return (f"{what} called a second time, after every field of the instance was assigned a new value, returns {got!r}, expected {exp!r}: "
                "the pack list does not follow the current field values")
    return None


def _pack_disagreement(sc: Scenario, d: Defn, fn_of, refetch=None):
    cls = sc.make_class(d)
    obj = sc.instance(cls, d)
    try:
        fn = fn_of(cls, obj)
        got = sc.it.call(fn, [])
    except PyExc as e:
        return f"to_pack_list raises {e}"
    exp = spec_pack(d, sc)
    if not (isinstance(got, list) and [_freeze(x) for x in got] == [_freeze(x) for x in exp]):
        return f"to_pack_list returns {got!r}, expected {exp!r}"
    return _repack_disagreement(sc, d, obj, (lambda: refetch(cls, obj)) if refetch is not None else (lambda: fn))


def rule_to_pack_template(ctx: Ctx) -> None:
    repo = ctx.repo
    fi, direct = _builder(repo, "_compile_to_pack_list", ("src_cls", "format_list", "names"))
    vpc = repo.func(LP, "vp_compile")
    sc = Scenario(repo)

    def compiled(cls, obj):
        if direct is None:
            sc.it.call(sc.it.func_of(vpc), [cls])
            return sc.it.getattr_(obj, "to_pack_list")
        code = sc.it.call(sc.it.func_of(direct), [cls, cls.attrs["format_list"], cls.attrs["names"]])
        return Bound(gen_function(sc, code, "to_pack_list", fi.module), obj)

    again = (lambda cls, obj: sc.it.getattr_(obj, "to_pack_list")) if direct is None else None

    def first_bad(defs):
        for d in defs:
            msg = decided(fi.where, lambda d=d: forked(sc, lambda: _pack_disagreement(sc, d, compiled, again)), sc.w)
            if msg:
                return d, msg
        return None

    da, db = definitions(_SHAPES_A), definitions(_SHAPES_B)
    bad = first_bad(da)
    ctx.check(bad is None, "template-to-pack-list", fi, fi.node,
              f"generated to_pack_list: formats in order, 8 names per 'bits' and 1 otherwise with a running name index, fix_pack_<name> exactly where the "
              f"source class defines it ({len(da)} abstract definitions)",
              f"the generated to_pack_list differs from the definition: for {bad[0].describe()}: {bad[1]}" if bad else "")
    badb = first_bad(db) if bad is None else None
    ctx.check(badb is None, "interpreter-agrees", fi, fi.node,
              f"generator format derivation: str -> itself, list -> payload-list, else payload ({len(db)} abstract definitions with nested payloads)",
              f"the generator derives the pack format differently from _to_packlist_fmt: for {badb[0].describe()}: {badb[1]}" if badb else "")
    scope_guard(sc, fi.where)


def _unpack_disagreement(sc: Scenario, d: Defn, fn_of):
    cls = sc.make_class(d)
    try:
        got = sc.it.call(fn_of(cls), wire(d))
    except PyExc as e:
        return f"from_unpack_list raises {e}"
    exp = spec_unpack(d, cls)
    if got != exp:
        return f"from_unpack_list returns {got!r}, expected {exp!r}"
    return None


def rule_from_unpack_template(ctx: Ctx) -> None:
    repo = ctx.repo
    fi, direct = _builder(repo, "_compile_from_unpack_list", ("src_cls", "names"))
    vpc = repo.func(LP, "vp_compile")
    sc = Scenario(repo)

    def compiled(cls):
        if direct is None:
            sc.it.call(sc.it.func_of(vpc), [cls])
            return sc.it.getattr_(cls, "from_unpack_list")
        code = sc.it.call(sc.it.func_of(direct), [cls, cls.attrs["names"]])
        return Bound(gen_function(sc, code, "from_unpack_list", fi.module), cls)

    defs = definitions(_SHAPES_A)
    bad = None
    for d in defs:
        msg = decided(fi.where, lambda d=d: forked(sc, lambda: _unpack_disagreement(sc, d, compiled)), sc.w)
        if msg:
            bad = (d, msg)
            break
    scope_guard(sc, fi.where)
    ctx.check(bad is None, "template-from-unpack-list", fi, fi.node,
              f"generated from_unpack_list: one parameter per name in order, cls(<args>) with fix_unpack_<name> exactly where the source class defines it "
              f"({len(defs)} abstract definitions)",
              "the generated from_unpack_list does not pass the fields in order with fix_unpack_ exactly where the class defines it: "
              f"for {bad[0].describe()}: {bad[1]}" if bad else "")


def rule_interpreter(ctx: Ctx) -> None:
    repo = ctx.repo
    vp = repo.cls("VariablePayload", LP)
    sc = Scenario(repo)
    da, db = definitions(_SHAPES_A), definitions(_SHAPES_B)

    def method(name: str, fallback: FuncInfo | None = None) -> FuncInfo:
        f = vp.methods.get(name) or vp.lookup(name) or fallback       # public API: found through the MRO if it moved to a base
        if f is None:
            raise AnalysisError(f"anchor-lost: VariablePayload.{name}")
        return f

    def first_bad(where, defs, probe):
        for d in defs:
            msg = decided(where, lambda d=d: forked(sc, lambda: probe(d)), sc.w)
            if msg:
                return d, msg
        return None

    tp = method("to_pack_list")
    interp_pack = lambda cls, obj: sc.it.getattr_(obj, "to_pack_list")  # noqa: E731
    bad = first_bad(tp.where, da, lambda d: _pack_disagreement(sc, d, interp_pack, interp_pack))
    ctx.check(bad is None, "interpreter-agrees", tp, tp.node,
              "interpreter emits (format, *fields) per format, 8 names per 'bits' and 1 otherwise with a running name index, fix_pack_<name> applied to "
              f"the field's raw value when defined ({len(da)} abstract definitions)",
              f"the interpreter's to_pack_list / _fix_pack differs from the definition: for {bad[0].describe()}: {bad[1]}" if bad else "")
    tf = method("_to_packlist_fmt", tp)      # private: when it is gone (inlined / renamed) the same evaluation is reported at to_pack_list
    badb = first_bad(tf.where, db, lambda d: _pack_disagreement(sc, d, interp_pack, interp_pack)) if bad is None else None
    ctx.check(badb is None, "interpreter-agrees", tf, tf.node, "_to_packlist_fmt: str -> itself, list -> payload-list, else payload",
              f"_to_packlist_fmt changed: for {badb[0].describe()}: {badb[1]}" if badb else "")
    for helper in ("_fix_pack",):
        if helper in vp.methods:
            ctx.functions.add(vp.methods[helper].where)
    fu = method("from_unpack_list")
    bad = first_bad(fu.where, da, lambda d: _unpack_disagreement(sc, d, lambda cls: sc.it.getattr_(cls, "from_unpack_list")))
    ctx.check(bad is None, "interpreter-agrees", fu, fu.node, "interpreter applies fix_unpack_<names[i]> to argument i and constructs cls(*args)",
              f"the interpreter's from_unpack_list differs from the definition: for {bad[0].describe()}: {bad[1]}" if bad else "")
    ini = method("__init__")

    def probe_init(d: Defn):
        cls = sc.make_class(Defn(d.kinds, d.pack, d.unpack))
        return run_init(sc, cls, d, lambda obj: Bound(sc.it.func_of(ini), obj), with_defaults=False)

    bad = first_bad(ini.where, da, probe_init)
    ctx.check(bad is None, "interpreter-agrees", ini, ini.node,
              "interpreter assigns names[index] from positional then keyword arguments (8 names per 'bits'), after Payload.__init__, and rejects missing / surplus "
              f"arguments ({len(da)} abstract definitions x call patterns)",
              f"the interpreter's constructor changed how arguments map to field names: for {bad[0].describe()}: {bad[1]}" if bad else "")
    scope_guard(sc, vp.where)
    ctx.assume("VariablePayload.__init__ is evaluated for definitions whose base classes have no Python-level __init__ (no old-style Payload in the MRO)")


_VPC_SHAPES = [("s",), ("s", "s"), ("b", "s"), ("s", "b", "s"), ("l", "p", "s"), ("b", "b", "s"), (), ("s", "s", "s"), ("p", "b", "l")]


def vp_compile_definitions() -> list[Defn]:
    out = []
    for si, kinds in enumerate(_VPC_SHAPES):
        for v in range(2):
            pp, up = _HOOK_PATTERNS[(si + v * 3) % len(_HOOK_PATTERNS)]
            d = Defn(kinds)
            d.pack, d.unpack = _pattern(pp, d.n), _pattern(up, d.n)
            if v == 1 and d.n:
                d.defaults = frozenset({d.n - 1})
                if si % 2:
                    d.kwonly = frozenset({d.n - 1})
            elif si % 3 == 0:
                d.custom_init = True
            d.inherited = si % 4 == 1
            out.append(d)
    return out


def rule_vp_compile(ctx: Ctx) -> None:
    repo = ctx.repo
    fi = repo.func(LP, "vp_compile")
    sc = Scenario(repo)          # ONE world: module-level state written by vp_compile is shared by all definitions, as at run time
    defs = vp_compile_definitions()

    def one(d: Defn, label: str):  # noqa: PLR0911
        cls = sc.make_class(d, label)
        before = dict(cls.attrs)
        try:
            res = sc.it.call(sc.it.func_of(fi), [cls])
        except PyExc as e:
            return f"vp_compile raises {e}"
        if res is not cls:
            return f"vp_compile returns {res!r}, not the class it was given"
        if _freeze(cls.attrs.get("names")) != _freeze(before["names"]) or _freeze(cls.attrs.get("format_list")) != _freeze(before["format_list"]):
            return "vp_compile changes names / format_list of the definition"
        msg = run_init(sc, cls, d, lambda obj: sc.it.getattr_(obj, "__init__"), with_defaults=True)
        if msg:
            return "compiled " + msg
        try:
            ma = sc.it.getattr_(cls, "__match_args__")
        except PyExc as e:
            return f"__match_args__: {e}"
        if ma != tuple(d.names):
            return f"__match_args__ is {ma!r}, expected {tuple(d.names)!r}"
        obj = sc.instance(cls, d)
        try:
            got = sc.it.call(sc.it.getattr_(obj, "to_pack_list"), [])
        except PyExc as e:
            return f"compiled to_pack_list raises {e}"
        exp = spec_pack(d, sc)
        if not (isinstance(got, list) and [_freeze(x) for x in got] == [_freeze(x) for x in exp]):
            return f"compiled to_pack_list returns {got!r}, expected {exp!r}"
        msg = _repack_disagreement(sc, d, obj, lambda: sc.it.getattr_(obj, "to_pack_list"), "compiled to_pack_list")
        if msg:
            return msg
        try:
            got = sc.it.call(sc.it.getattr_(cls, "from_unpack_list"), wire(d))
        except PyExc as e:
            return f"compiled from_unpack_list raises {e}"
        if got != spec_unpack(d, cls):
            return f"compiled from_unpack_list (called on the class) returns {got!r}, expected {spec_unpack(d, cls)!r}"
        sub = ClsObj(label + "Sub", [cls], {})
        try:
            got = sc.it.call(sc.it.getattr_(sub, "from_unpack_list"), wire(d))
        except PyExc as e:
            return f"compiled from_unpack_list called through a subclass raises {e}"
        if got not in (spec_unpack(d, cls), spec_unpack(d, sub)):
            return f"compiled from_unpack_list is not bound to a class: through a subclass it returns {got!r}"
        return None

    bad = None
    for i, d in enumerate(defs):
        msg = decided(fi.where, lambda d=d, i=i: forked(sc, lambda: one(d, f"D{i}")), sc.w)
        if msg:
            bad = (d, msg)
            break
    scope_guard(sc, fi.where)
    ctx.check(bad is None, "vp-compile-installs", fi, fi.node,
              "vp_compile feeds the three builders with names / format_list / hooks / constructor defaults of the class it is given, installs __init__, "
              f"__match_args__, from_unpack_list (bound to the class) and to_pack_list and returns the same class ({len(defs)} abstract definitions in one "
              "world, consecutive ones with an equal layout and different hooks, defaults on positional and keyword-only parameters)",
              "vp_compile feeds a builder with data of another class or other defaults, or installs something else: "
              f"for {bad[0].describe()}: {bad[1]}" if bad else "")


def registered_formats(ctx: Ctx) -> set[str]:
    """Format names the Serializer registers.  Precise when the table is one dict display stored in *_packers; otherwise an OVER-
    approximation (every string key of a dict display / dict(...) keyword / `_packers[<const>] =` store / add_packer(<const>, ..) in
    Serializer.__init__ and the functions it calls): the rule that uses it only asks 'is this name registered', and what type_map
    must return for each annotation is fixed independently by the expected table, so a larger set never hides a wrong format."""
    init = ctx.repo.method("Serializer", "__init__", SER)
    for s in walk_no_nested(init.node):
        v = getattr(s, "value", None)
        if isinstance(s, (ast.Assign, ast.AnnAssign)) and isinstance(v, ast.Dict) and "_packers" in norm(s.targets[0] if isinstance(s, ast.Assign) else s.target):
            return {const_value(k) for k in v.keys}
    keys: set = set()
    seen: set = set()

    def harvest(fi: FuncInfo, depth: int) -> None:
        if id(fi.node) in seen:
            return
        seen.add(id(fi.node))
        for n in walk_no_nested(fi.node):
            if isinstance(n, ast.Dict):
                keys.update(const_value(k) for k in n.keys if k is not None)
            elif isinstance(n, ast.Call):
                c = chain(n.func) or ""
                if c == "dict":
                    keys.update(k.arg for k in n.keywords if k.arg)
                if c.split(".")[-1] == "add_packer" and n.args:
                    keys.add(const_value(n.args[0]))
                if depth:
                    for t in ctx.repo.resolve_call(fi, n):
                        if t.module is init.module:
                            harvest(t, depth - 1)
            elif isinstance(n, ast.Assign):
                for t in n.targets:
                    if isinstance(t, ast.Subscript) and "_packers" in (chain(t.value) or ""):
                        keys.add(const_value(t.slice))
            elif isinstance(n, ast.Name) and isinstance(n.ctx, ast.Load):
                r = ctx.repo.resolve_name(fi.module, n.id)
                if isinstance(r, tuple) and r[0] == "const" and isinstance(r[2], ast.Dict):
                    keys.update(const_value(k) for k in r[2].keys if k is not None)
    harvest(init, 2)
    keys = {k for k in keys if isinstance(k, str)}
    if len(keys) < 5:
        raise AnalysisError("anchor-lost: Serializer._packers table")
    return keys


_SCALARS = {"bool": "?", "int": "q", "float": "d", "bytes": "varlenH", "str": "varlenHutf8"}


def _annotations(sc: Scenario):
    """(description, annotation value, expected type_map result | PyExc kind)."""
    if getattr(sc, "_anns", None) is not None:
        return sc._anns
    sc._anns = out = _annotations_of(sc)
    return out


def _annotations_of(sc: Scenario):
    P = sc.nested_cls(0)
    out = [(k, Builtin(k), v) for k, v in _SCALARS.items()]
    out.append(("type_from_format(<fmt>)", Rec("typevar", __name__=Sym("fmt", 0, "str")), Sym("fmt", 0, "str")))
    for origin in ("list", "tuple", "set"):
        for k in ("bool", "int", "float"):
            out.append((f"{origin}[{k}]", Rec("generic", __origin__=Builtin(origin), __args__=(Builtin(k),)), "arrayH-" + _SCALARS[k]))
        out.append((f"{origin}[<payload class>]", Rec("generic", __origin__=Builtin(origin), __args__=(P,)), [P]))
    out.append(("<payload class>", P, P))
    # an explicit Serializer nesting spec used as the annotation (`peers: [Item]`, the format_list spelling of a payload list): an
    # unhashable list object that type_map passes through unchanged
    spec = [P]
    out.append(("[<payload class>] (a list object, the format_list spelling)", spec, spec))
    # nesting is defined for every Serializable, not only for VariablePayload definitions: the plain format_list spellings [[Old]] / [Old]
    # with an old-style Payload (hand-written to_pack_list / from_unpack_list) or a bare Serializable pack and decode as payload-list /
    # payload, so the dataclass spellings list[Old] / Old must derive exactly those formats
    for label, base in (("old-style Payload class, not a VariablePayload", "Payload"), ("bare Serializable class", "Serializable")):
        ci = sc.repo.try_cls(base, SER) or sc.repo.try_cls(base)
        if ci is None:
            continue
        Q = ClsObj("Old" + base, [RepoCls(ci)], {})
        for origin in ("list", "tuple", "set"):
            out.append((f"{origin}[<{label}>]", Rec("generic", __origin__=Builtin(origin), __args__=(Q,)), [Q]))
        out.append((f"<{label}>", Q, Q))
    out.append(("dict", Builtin("dict"), PyExc("NotImplementedError")))
    out.append(("dict[str, int]", Rec("generic", __origin__=Builtin("dict"), __args__=(Builtin("str"), Builtin("int"))), PyExc("NotImplementedError")))
    return out


def _spec_type_map(sc: Scenario, ann):
    for _, a, exp in _annotations(sc):
        if a is ann or (isinstance(a, Builtin) and a == ann):
            return exp
    raise AssertionError(ann)


class DataclassWorld(Scenario):
    """Abstract dataclasses: real fields, ClassVar pseudo-fields (in __dataclass_fields__ and the type hints, not in dataclasses.fields())."""

    def __init__(self, repo, cp: FuncInfo) -> None:
        super().__init__(repo)
        self.base = RepoCls(repo.cls("DataClassPayload", PD))
        self.compiles: list = []
        vpc = repo.resolve_name(cp.module, "vp_compile")
        if not isinstance(vpc, FuncInfo):
            vpc = repo.func(LP, "vp_compile")      # referenced through a module alias: the stub is keyed by the function itself

        def stub(it: Interp, args: list, kw: dict):
            c = args[0] if args else kw.get("vp_definition")
            self.compiles.append((c, _freeze(it.getattr_(c, "names", None)), _freeze(it.getattr_(c, "format_list", None))))
            return c
        self.w.stubs[id(vpc.node)] = stub
        self.anns = [a for _, a, exp in _annotations(self) if not isinstance(exp, PyExc)]
        self.counter = 0

    def dataclass(self, label: str, n_own: int, parent: ClsObj | None = None, classvar: bool = True, kw_only: tuple = (),
                  no_init: tuple = (), declared: dict | None = None) -> ClsObj:
        """kw_only / no_init: positions (among the own fields) of fields declared field(kw_only=True) / field(init=False).  The
        dataclass-generated __init__ (what @dataclass installs before the first conversion) takes the init fields, keyword-only
        ones after all others: its parameter order is NOT the definition order as soon as a keyword-only field is not last."""
        fields = list(parent.meta["fields"]) if parent else []
        hints = dict(parent.meta["hints"]) if parent else {}
        dcf = dict(parent.attrs["__dataclass_fields__"]) if parent else {}
        missing = Ext("dataclasses.MISSING")
        for j in range(n_own):
            i = self.counter
            self.counter += 1
            ann = self.anns[i % len(self.anns)]
            raw = ann
            if declared and j in declared:
                # Field.type is the annotation AS WRITTEN (a str under postponed evaluation, a generic whose argument is still the str of a
                # forward reference); typing.get_type_hints() is what resolves it to the objects type_map understands
                raw, ann = declared[j]
            f = Rec("field", name=N(i), type=raw, default=missing, default_factory=missing, kind="field", init=j not in no_init,
                    kw_only=j in kw_only, repr=True, compare=True, hash=None, metadata={})
            fields.append(f)
            hints[N(i)] = ann
            dcf[N(i)] = f
        if classvar:
            i = self.counter
            self.counter += 1
            pseudo = Rec("field", name=N(i), type=Rec("classvar"), default=Ext("dataclasses.MISSING"), kind="classvar")
            hints[N(i)] = Rec("classvar")
            dcf[N(i)] = pseudo
        attrs = {"__dataclass_fields__": dcf, "__module__": Sym("modname", label, "str"), "__name__": Sym("clsname", label, "str")}
        # the receiver parameter has a name that is no field name (dataclasses renames it when a field is called `self`)
        init_fields = [f.fields for f in fields if f.fields.get("init", True)]
        attrs["__init__"] = function_record("__init__", [(N(-1), EMPTY, "pos")]
                                            + [(f["name"], EMPTY, "pos") for f in init_fields if not f.get("kw_only")]
                                            + [(f["name"], EMPTY, "kwonly") for f in init_fields if f.get("kw_only")])
        return ClsObj(label, [parent or self.base], attrs, {"fields": fields, "hints": hints})

    def check_converted(self, cls: ClsObj, what: str):
        names = [f.fields["name"] for f in cls.meta["fields"]]
        fmts = [_spec_type_map(self, cls.meta["hints"][f.fields["name"]]) for f in cls.meta["fields"]]
        got_n, got_f = cls.attrs.get("names"), cls.attrs.get("format_list")
        for k, v in (("names", got_n), ("format_list", got_f)):
            if v is not None and not isinstance(v, (list, tuple)):
                return f"{what}: {k} = {v!r}, not a list"
        if got_n is None or _freeze(list(got_n)) != _freeze(names):
            return f"{what}: names = {got_n if got_n is not None else self.it.getattr_(cls, 'names', None)!r}, the dataclass fields are {names!r}"
        if got_f is None or _freeze(list(got_f)) != _freeze(fmts):
            return f"{what}: format_list = {got_f if got_f is not None else self.it.getattr_(cls, 'format_list', None)!r}, expected {fmts!r} for the fields {names!r}"
        last = next((c for c in reversed(self.compiles) if c[0] is cls), None)
        if last is None:
            return f"{what}: the class is never passed to vp_compile"
        if last[1] != _freeze(names) or last[2] != _freeze(fmts):
            return f"{what}: vp_compile saw names={last[1]!r} format_list={last[2]!r}, not the final definition"
        mod = self.w.sysmodules.get(cls.attrs["__module__"])
        if mod is None or mod.attrs.get(cls.attrs["__name__"]) is not cls:
            return f"{what}: the compiled class does not replace the dataclass in its module"
        return None


def _flat_targets(s) -> list:
    out: list = []

    def flat(t) -> None:
        if isinstance(t, (ast.Tuple, ast.List)):
            for e in t.elts:
                flat(e.value if isinstance(e, ast.Starred) else e)
        else:
            out.append(t)
    for t in (s.targets if isinstance(s, ast.Assign) else [s.target]):
        flat(t)
    return out


def _record_field_names(ctx: Ctx, fi: FuncInfo, e: ast.AST):
    """Field names of the NamedTuple / dataclass helper record an expression `X._asdict()` / `dataclasses.asdict(X)` / `vars(X)` /
    `X.__dict__` spreads into a mapping, when the class of X is known; else None."""
    x = None
    if isinstance(e, ast.Call) and isinstance(e.func, ast.Attribute) and e.func.attr == "_asdict" and not e.args:
        x = e.func.value
    elif isinstance(e, ast.Call) and (chain(e.func) or "").split(".")[-1] in ("asdict", "vars") and len(e.args) == 1:
        x = e.args[0]
    elif isinstance(e, ast.Attribute) and e.attr == "__dict__":
        x = e.value
    if x is None:
        return None
    ci = _instance_class(ctx, fi, x)
    if ci is None or ci.bases or "__init__" in ci.methods or "__post_init__" in ci.methods or "__slots__" in ci.attrs:
        return None
    is_dc = any(((chain(d.func) if isinstance(d, ast.Call) else chain(d)) or "").split(".")[-1] == "dataclass" for d in ci.node.decorator_list)
    is_nt = [b.rsplit(".", 1)[-1] for b in ci.base_names] == ["NamedTuple"]
    if not (is_dc or is_nt) or (is_nt and not (isinstance(e, ast.Call) and isinstance(e.func, ast.Attribute))):
        return None
    return [st.target.id for st in ci.node.body if isinstance(st, ast.AnnAssign) and isinstance(st.target, ast.Name) and "ClassVar" not in norm(st.annotation)]


def _min_len(ctx, fi, e: ast.AST) -> int:
    """A lower bound of the number of items iterating e yields: tuple / list displays, instances of a NamedTuple helper class."""
    if isinstance(e, (ast.Tuple, ast.List)):
        return 0 if any(isinstance(x, ast.Starred) for x in e.elts) else len(e.elts)
    if ctx is not None:
        ci = _instance_class(ctx, fi, e)
        if ci is not None and not ci.bases and [b.rsplit(".", 1)[-1] for b in ci.base_names] == ["NamedTuple"] and "__iter__" not in ci.methods:
            return len([st for st in ci.node.body if isinstance(st, ast.AnnAssign) and isinstance(st.target, ast.Name) and "ClassVar" not in norm(st.annotation)])
    return 0


def _literal_loop_keys(call: ast.Call, name: str, ctx: Ctx | None = None, fi: FuncInfo | None = None):
    """`for <name>, .. in (("a", ..), ("b", ..)):` / `.. in {"a": .., "b": ..}.items()` / `zip(("a", "b"), ..)` directly around
    `call`: (the For statement, the constants <name> takes) when every iteration runs the call, else None."""
    from ..model import enclosing_stmt, parent
    st = enclosing_stmt(call)
    loop = parent(st) if st is not None else None
    if not isinstance(loop, ast.For) or st not in loop.body or loop.orelse:
        return None
    if any(isinstance(n, (ast.Break, ast.Continue, ast.Return, ast.Raise, ast.If, ast.Try, ast.While, ast.Match)) for b in loop.body for n in ast.walk(b)):
        return None
    tgt = loop.target
    if isinstance(tgt, ast.Name):
        idx = None if tgt.id == name else -1
    elif isinstance(tgt, (ast.Tuple, ast.List)):
        idx = next((i for i, e in enumerate(tgt.elts) if isinstance(e, ast.Name) and e.id == name), -1)
    else:
        idx = -1
    if idx == -1:
        return None
    it = loop.iter
    rows = None
    if isinstance(it, (ast.Tuple, ast.List)):
        rows = [r if idx is None else (r.elts[idx] if isinstance(r, (ast.Tuple, ast.List)) and len(r.elts) > idx else None) for r in it.elts]
    elif isinstance(it, ast.Call) and isinstance(it.func, ast.Attribute) and it.func.attr == "items" and isinstance(it.func.value, ast.Dict) and idx == 0:
        rows = list(it.func.value.keys)
    elif isinstance(it, ast.Dict) and idx is None:
        rows = list(it.keys)
    elif ctx is not None and isinstance(it, ast.Call) and isinstance(it.func, ast.Attribute) and it.func.attr == "items" and not it.args and idx == 0:
        names = _record_field_names(ctx, fi, it.func.value)
        if names:
            return loop, names
    elif isinstance(it, ast.Call) and chain(it.func) == "zip" and idx is not None and len(it.args) > idx and isinstance(it.args[idx], (ast.Tuple, ast.List)) \
            and not any(isinstance(e, ast.Starred) for a in it.args if isinstance(a, (ast.Tuple, ast.List)) for e in a.elts) \
            and all(_min_len(ctx, fi, a) >= len(it.args[idx].elts) for a in it.args):
        rows = list(it.args[idx].elts)
    if not rows or any(r is None for r in rows):
        return None
    vals = [const_value(r) for r in rows]
    if not all(isinstance(v, str) for v in vals):
        return None
    return loop, vals


def _wrapper_of(ctx: Ctx, fi: FuncInfo):
    """fi is decorated with one private decorator `@d` / `@d(args)` of the library whose (innermost) function returns a nested def:
    (FuncInfo of that wrapper, the name by which the wrapper calls the plain function).  The name `fi` is bound to IS the wrapper, so
    'every path of fi' is every path of the wrapper with the call of that name standing for the decorated body.  None when fi has no
    such decorator; undecided when the decorator has another shape."""
    decs = [d for d in fi.node.decorator_list if (chain(d) or "?") not in Interp._STD_DECORATORS]
    if not decs:
        return None

    def undecided(why: str):
        return AnalysisError(f"undecided: {fi.where}: decorator `{norm(decs[0])[:50]}`: {why}")
    if len(decs) != 1 or len(fi.node.decorator_list) != 1:
        raise undecided("more than one decorator")
    d = decs[0]
    target = d.func if isinstance(d, ast.Call) else d
    dec = ctx.repo.resolve_name(fi.module, target.id) if isinstance(target, ast.Name) else None
    if not isinstance(dec, FuncInfo) or dec.decorators or dec.is_async:
        raise undecided("not a plain function of the library")

    def returned_def(f: FuncInfo):
        rets = [n for n in walk_no_nested(f.node) if isinstance(n, ast.Return)]
        if len(rets) != 1 or not isinstance(rets[0].value, ast.Name) or rets[0] not in f.node.body:
            return None
        name = rets[0].value.id
        defs = [n for n in f.node.body if isinstance(n, ast.FunctionDef) and n.name == name]
        stores = [n for n in walk_no_nested(f.node) if isinstance(n, ast.Name) and n.id == name and isinstance(n.ctx, ast.Store)]
        if len(defs) != 1 or stores:
            return None
        extra = [x for x in defs[0].decorator_list if not (isinstance(x, ast.Call) and (chain(x.func) or "").split(".")[-1] == "wraps")]
        return None if extra else ctx.repo.info(defs[0])
    if isinstance(d, ast.Call):
        dec = returned_def(dec)
        if dec is None:
            raise undecided("the factory does not return one nested decorator function")
    a = dec.node.args
    if len(a.args) != 1 or a.posonlyargs or a.vararg or a.kwonlyargs or a.kwarg:
        raise undecided("the decorator does not take exactly the function")
    fparam = a.args[0].arg
    wrapper = returned_def(dec)
    if wrapper is None:
        raise undecided("the decorator does not return one nested wrapper function")
    if any(isinstance(n, ast.Name) and n.id == fparam and isinstance(n.ctx, ast.Store) for n in ast.walk(dec.node)) \
            or fparam in wrapper.params() or wrapper.is_async:
        raise undecided("the wrapper rebinds the name of the decorated function")
    return wrapper, fparam


def _effect_sites(ctx: Ctx, fi: FuncInfo, pname: str, effect: str, seen: tuple = (), bound: dict | None = None) -> list:
    """Syntax nodes of fi whose NORMAL completion implies the effect on the object parameter `pname` holds: effect 'vp_compile' = it is
    passed to vp_compile, otherwise = its attribute <effect> is stored.  A call of a module-level helper that receives the object and
    has the effect on every path to its normal exit is such a node (the helper is analysed with the parameter bound)."""
    from ..match import local_defs
    if pname not in fi.params() or local_defs(fi, pname):
        return []
    sites: list = []
    unwrapped = [(c, *_unwrap_partial(fi, c)) for c in calls(fi)]
    bound = bound or {}
    va = fi.node.args.vararg
    if va is not None and va.arg == pname:
        # a pass-through wrapper `def w(*args, **kw): ... f(*args, **kw)`: the object is args[0] exactly where the whole tuple is forwarded
        # first to the decorated function, whose first parameter then has the effect on every path of its body
        for c, f, args, _ in unwrapped:
            t = bound.get(f.id) if isinstance(f, ast.Name) else None
            if t is not None and args and isinstance(args[0], ast.Starred) and chain(args[0].value) == pname and f is c.func \
                    and t.node.args.args and not t.is_async and t.node is not fi.node:
                first = (t.node.args.posonlyargs + t.node.args.args)[0].arg
                if _on_every_path(ctx, t, _effect_sites(ctx, t, first, effect, (*seen, fi.node))):
                    sites.append(c)
        return sites
    if effect == "vp_compile":
        sites += [c for c, f, args, _ in unwrapped if (chain(f) or "").split(".")[-1] == "vp_compile" and args and chain(args[0]) == pname]
    else:
        sites += [s for s in walk_no_nested(fi.node) if isinstance(s, (ast.Assign, ast.AnnAssign)) and getattr(s, "value", None) is not None
                  and any(chain(t) == f"{pname}.{effect}" for t in _flat_targets(s))]
        for c, f, args, kws_ in unwrapped:
            if chain(f) in ("setattr", "builtins.setattr", "type.__setattr__", "object.__setattr__") and len(args) == 3 and not kws_ and chain(args[0]) == pname:
                if const_value(args[1]) == effect:
                    sites.append(c)
                elif isinstance(args[1], ast.Name):
                    lk = _literal_loop_keys(c, args[1].id, ctx, fi)
                    if lk is not None and effect in lk[1]:
                        sites.append(lk[0])
    for c, f, args, kws_ in unwrapped:
        if any(c is x for x in sites) or any(isinstance(a, ast.Starred) for a in args) or any(k.arg is None for k in kws_):
            continue
        pos = [i for i, a in enumerate(args) if chain(a) == pname]
        kws = [k.arg for k in kws_ if chain(k.value) == pname]
        if not pos and not kws:
            continue
        eff = c if f is c.func and args is c.args else ast.copy_location(ast.Call(func=f, args=list(args), keywords=list(kws_)), c)
        targets = _call_targets(ctx, fi, eff)
        plain_body = False
        if not targets and isinstance(f, ast.Name) and f.id in bound and f is c.func and not local_defs(fi, f.id):
            targets, plain_body = [(bound[f.id], False)], True      # the wrapper calls the function it decorates: its undecorated body
        if not targets or len(seen) > 3:
            continue

        def has(tb, plain_body=plain_body) -> bool:
            t, is_bound = tb
            if t.node is fi.node or any(t.node is x for x in seen) or t.is_async \
                    or (not plain_body and any(d not in ("staticmethod", "classmethod") for d in t.decorator_names())):
                return False
            a = t.node.args
            plain = [x.arg for x in a.posonlyargs + a.args][1 if is_bound else 0:]
            names = [plain[i] for i in pos if i < len(plain)] + [k for k in kws if k in plain or k in [x.arg for x in a.kwonlyargs]]
            return any(_on_every_path(ctx, t, _effect_sites(ctx, t, n, effect, (*seen, fi.node))) for n in names)
        if all(has(tb) for tb in targets):
            sites.append(c)
    return sites


def _unwrap_partial(fi: FuncInfo, c: ast.Call):
    """(callee expression, positional arguments, keywords) of a call after unfolding functools.partial: `partial(f, a)(b)` and
    `g = partial(f, a)` ... `g(b)` (g assigned once in this function) are the call f(a, b)."""
    from ..match import single_def
    f, args, kws = c.func, list(c.args), list(c.keywords)
    for _ in range(4):
        e = f
        if isinstance(e, ast.Name) and not isinstance(getattr(e, "ctx", None), ast.Store):
            sd = single_def(fi, e.id)
            if sd is not None and sd[1] is None:
                e = sd[0]
        if isinstance(e, ast.Call) and (chain(e.func) or "").split(".")[-1] == "partial" and e.args \
                and not any(isinstance(a, ast.Starred) for a in e.args) and not any(k.arg is None for k in e.keywords):
            f, args, kws = e.args[0], [*e.args[1:], *args], [*e.keywords, *kws]
            continue
        break
    return f, args, kws


def _instance_class(ctx: Ctx, fi: FuncInfo, e: ast.AST):
    """The library class of which expression e certainly is an instance: `Cls(..)`, a local assigned once to that, a module
    constant assigned to that; else None."""
    from ..match import single_def
    for _ in range(3):
        if isinstance(e, ast.Name):
            sd = single_def(fi, e.id)
            if sd is not None and sd[1] is None:
                e = sd[0]
                continue
            r = ctx.repo.resolve_name(fi.module, e.id)
            if isinstance(r, tuple) and r[0] == "const" and isinstance(r[2], ast.Call):
                return ctx.repo.resolve_class_expr(r[1], r[2].func)
            return None
        break
    if isinstance(e, ast.Call):
        return ctx.repo.resolve_class_expr(fi.module, e.func)
    return None


def _call_targets(ctx: Ctx, fi: FuncInfo, c: ast.Call) -> list:
    """[(FuncInfo, bound)] - the functions a call may run; bound = the first parameter is the receiver, not an argument.  Besides what
    the engine resolves: calling an instance of a small callable class runs its __call__, calling a class runs its __init__, and
    `<instance expression>.method(..)` runs that method."""
    f = c.func
    out: list = []
    ci = _instance_class(ctx, fi, f)
    if ci is not None:
        m = ci.lookup("__call__")
        return [(m, True)] if m else []
    if isinstance(f, ast.Attribute) and not (isinstance(f.value, ast.Name) and f.value.id in ("self", "cls")):
        ci = _instance_class(ctx, fi, f.value)
        if ci is not None:
            m = ci.lookup(f.attr)
            return [(m, "staticmethod" not in m.decorator_names())] if m else []
    for t in ctx.repo.resolve_call(fi, c):
        if t.cls is None:
            out.append((t, False))
        elif isinstance(f, ast.Name) or "staticmethod" not in t.decorator_names():
            # Cls(..) -> __init__(self, ..);  self.m(..) / Cls.m(..) for class and instance methods: the receiver is implicit, except
            # for the unbound spelling Cls.m(obj, ..) of an instance method, which the engine does not tell apart: not followed
            if isinstance(f, ast.Attribute) and not (isinstance(f.value, ast.Name) and f.value.id in ("self", "cls")) \
                    and "classmethod" not in t.decorator_names():
                return []
            out.append((t, True))
        else:
            out.append((t, False))
    return out


def _on_every_path(ctx: Ctx, fi: FuncInfo, sites: list) -> bool:
    """Every path from the entry of fi to its normal exit completes one of the sites."""
    if not sites:
        return False
    cfg = ctx.cfg(fi)
    return cfg.exit not in cfg.reach(cut_nodes=[n for x in sites for n in cfg.nodes_for(x)], follow_exc=False)


def rule_type_map(ctx: Ctx) -> None:  # noqa: C901, PLR0912, PLR0915
    repo = ctx.repo
    fi = repo.func(PD, "type_map")
    fmts = registered_formats(ctx)
    cp = repo.func(PD, "convert_to_payload")
    dw = DataclassWorld(repo, cp)
    table = _annotations(dw)
    n_const = 0
    bad = None
    scalar_pairs = {}
    for desc, ann, exp in table:
        def one(ann=ann):
            try:
                return dw.it.call(dw.it.func_of(fi), [ann])
            except PyExc as e:
                return e
        got = decided(fi.where, one, dw.w)
        if isinstance(got, str):
            n_const += 1
            if desc in _SCALARS or desc.split("[")[-1].rstrip("]") in ("bool", "int", "float"):
                scalar_pairs[desc] = got
                ctx.check(got in fmts, "type-map", fi, f"{desc} -> {got}", f"type_map({desc}) = {got!r} is a registered format",
                          f"type_map({desc}) returns {got!r}, which the Serializer does not register")
        same = (isinstance(got, PyExc) and got.kind == exp.kind) if isinstance(exp, PyExc) else (not isinstance(got, PyExc) and _freeze(got) == _freeze(exp))
        if not same and bad is None:
            bad = (desc, got, exp)
    ctx.floor("type-map", n_const, 5)
    ctx.check(bad is None, "type-map", fi, fi.node,
              "scalar annotations map to ?, q, d, varlenH, varlenHutf8; TypeVars to their name; list/tuple/set of scalars to arrayH-<scalar format>, of payloads to "
              "[payload]; payload classes to themselves; anything else is rejected",
              f"type map changed: type_map({bad[0]}) gives {bad[1]!r}, expected {bad[2]!r}: a dataclass payload with a field annotated this way no longer "
              "gets the format (or the rejection) its plain format_list definition has" if bad else "")
    # ---- convert_to_payload: every class that reaches it is converted from ITS OWN dataclass fields
    def scenario():  # noqa: PLR0911
        it = dw.it
        conv = dw.it.func_of(cp)
        dw.counter = 0               # the scenario is evaluated from scratch for every iteration order / case
        dw.compiles.clear()
        dw.w.sysmodules.clear()
        a = dw.dataclass("A", 3)
        it.call(conv, [a])
        msg = dw.check_converted(a, "fresh dataclass with a ClassVar annotation")
        if msg:
            return msg
        if "msg_id" in a.attrs:
            return "msg_id is set although none was given"
        it.call(conv, [a])
        msg = dw.check_converted(a, "dataclass converted a second time (every instantiation converts)")
        if msg:
            return msg
        b = dw.dataclass("B", 4, classvar=False)
        it.call(conv, [b], {"msg_id": 7})
        msg = dw.check_converted(b, "dataclass with a message id")
        if msg:
            return msg
        if b.attrs.get("msg_id") != 7:
            return f"msg_id = {b.attrs.get('msg_id')!r} after convert_to_payload(cls, msg_id=7)"
        c = dw.dataclass("C", 2, parent=b)
        it.call(conv, [c, 7])
        msg = dw.check_converted(c, "dataclass deriving from an already converted dataclass payload")
        if msg:
            return msg
        msg = dw.check_converted(b, "parent dataclass after its subclass was converted")
        if msg:
            return msg
        k = dw.dataclass("K", 3, classvar=False, kw_only=(1,))
        it.call(conv, [k])
        msg = dw.check_converted(k, "dataclass whose second of three fields is keyword-only (its generated __init__ takes that field last; the wire order of "
                                    "the plain definition is the definition order)")
        if msg:
            return msg
        i = dw.dataclass("I", 3, classvar=False, no_init=(2,))
        it.call(conv, [i])
        msg = dw.check_converted(i, "dataclass with a field(init=False) field (not a constructor parameter, still a field of the definition)")
        if msg:
            return msg
        # what a Field records is the annotation as written; only the resolved type hints name the objects type_map understands
        nested = next(a for desc, a, _ in table if desc == "list[<payload class>]")
        written = Rec("generic", __origin__=Builtin("list"), __args__=("Item",))
        f = dw.dataclass("F", 3, classvar=False, declared={1: (written, nested)})
        it.call(conv, [f])
        msg = dw.check_converted(f, "dataclass (module without postponed annotations) with a field annotated list[\"Item\"]: the forward reference inside "
                                    "the generic is a str in Field.type and the payload class in typing.get_type_hints()")
        if msg:
            return msg
        scalar = next(a for desc, a, _ in table if desc == "int")
        g = dw.dataclass("G", 2, classvar=False, declared={0: ("int", scalar), 1: ("list[Item]", nested)})
        it.call(conv, [g])
        return dw.check_converted(g, "dataclass of a module with postponed annotations (every Field.type is a str)")

    def guarded():
        try:
            return scenario()
        except PyExc as e:
            return f"convert_to_payload raises {e}"
    msg = decided(cp.where, guarded, dw.w)
    ctx.check(msg is None, "type-map", cp, cp.node,
              "names and format_list are derived from the same dataclasses.fields() order of the class itself and the class is replaced by vp_compile(dataclass_type) "
              "(fresh / re-converted / derived dataclasses, ClassVar pseudo-fields, with and without msg_id)",
              f"names and formats of a dataclass payload come from different orders or not from its own definition: {msg}" if msg else "")
    scope_guard(dw, cp.where)
    # every class that reaches convert_to_payload is converted from ITS OWN fields: no early exit / guard that an inherited attribute could satisfy
    entry, bound = cp, {}
    wrapped = _wrapper_of(ctx, cp)
    if wrapped is not None:
        entry, bound = wrapped[0], {wrapped[1]: cp}      # the name convert_to_payload denotes the decorator's wrapper around this body
        if not entry.params():
            raise AnalysisError(f"undecided: {cp.where}: the wrapper `{entry.qualname}` takes no parameter")
    p = entry.params()[0]
    nm, fl, comp = (_effect_sites(ctx, entry, p, e, bound=bound) for e in ("names", "format_list", "vp_compile"))
    if msg is None and not (nm and fl and comp):
        # the evaluated scenarios show that names / format_list are stored and the class is compiled, but not by a statement this rule
        # can attribute to the class parameter: 'on every path' cannot be decided on the syntax
        raise AnalysisError(f"undecided: {cp.where}: the statements that store names / format_list on `{p}` and pass it to vp_compile are not "
                            "recognisable (found: " + ", ".join(f"{k}={len(v)}" for k, v in (("names", nm), ("format_list", fl), ("vp_compile", comp))) + ")")
    ok = bool(nm) and bool(fl) and bool(comp) and all(_on_every_path(ctx, entry, grp) for grp in (nm, fl, comp))
    ctx.check(ok, "type-map", cp, cp.node, "convert_to_payload always derives names/format_list and compiles (no skip path)",
              "convert_to_payload can return without deriving names/format_list and compiling the class (e.g. a 'convert once' guard satisfied by an attribute "
              "inherited from a parent dataclass payload): the subclass keeps the parent's wire format and drops its own fields")


# ----------------------------------------------------------------------------- when is a dataclass payload converted
_DEFINITION_HOOKS = ("__init_subclass__", "__set_name__")
_CONSTRUCTION_HOOKS = ("__new__", "__init__")
_FUNC_NODES = (ast.FunctionDef, ast.AsyncFunctionDef)


def _eval_scope(node: ast.AST):
    """The def / lambda / class whose BODY evaluates `node` (None = module level).  Decorators, parameter defaults, annotations, base
    classes and class keywords are evaluated by the scope around the def / class they belong to."""
    from ..model import parent
    child, p = node, parent(node)
    while p is not None:
        if isinstance(p, (*_FUNC_NODES, ast.ClassDef)) and any(child is x for x in p.body):
            return p
        if isinstance(p, ast.Lambda) and child is p.body:
            return p
        child, p = p, parent(p)
    return None


def _is_metaclass(ci: ClassInfo) -> bool:
    return "type" in ci.all_base_names() or any(b.rsplit(".", 1)[-1] in ("ABCMeta", "EnumMeta") for b in ci.all_base_names())


def _metaclass_of(ctx: Ctx, ci: ClassInfo) -> list:
    out = []
    for c in ci.mro():
        for k in c.node.keywords:
            if k.arg == "metaclass":
                out.append(ctx.repo.resolve_class_expr(c.module, k.value) or norm(k.value))
    return out


class _ConversionPaths:
    """Backward call paths from one function (convert_to_payload) to the language-level events that start them.  Every reference of
    the function - and of every private helper / wrapper / method on the way - is enumerated over the whole library; a reference whose
    use cannot be attributed to such an event (stored, passed on, returned to an unknown caller) makes the enumeration undecided."""

    def __init__(self, ctx: Ctx, target: FuncInfo) -> None:
        self.ctx, self.repo, self.target = ctx, ctx.repo, target
        self.early: list = []        # (description, ClassInfo the hook belongs to | None = applies to every class)
        self.hooks: list = []        # (ClassInfo, FuncInfo, description): construction hooks of payload classes
        self.seen: set = set()
        self.steps: list = []
        self._names: dict = {}

    def undecided(self, why: str):
        return AnalysisError(f"undecided: {self.target.where}: the callers of {self.target.name} cannot be enumerated: {why}")

    # ---- references
    def name_refs(self, name: str) -> list:
        if name not in self._names:
            out = []
            for m in self.repo.modules.values():
                for n in ast.walk(m.tree):
                    if (isinstance(n, ast.Name) and n.id == name) or (isinstance(n, ast.Attribute) and n.attr == name):
                        out.append((m, n))
            self._names[name] = out
        return self._names[name]

    def shadowed(self, n: ast.Name, upto) -> bool:
        """a def between the reference and `upto` (None = module) binds the name itself (parameter, assignment, nested def)"""
        s = _eval_scope(n)
        while s is not None and s is not upto:
            if isinstance(s, _FUNC_NODES):
                a = s.args
                if n.id in [x.arg for x in a.posonlyargs + a.args + a.kwonlyargs] + [x.arg for x in (a.vararg, a.kwarg) if x]:
                    return True
                for x in walk_no_nested(s):
                    if (isinstance(x, ast.Name) and x.id == n.id and isinstance(x.ctx, ast.Store)) \
                            or (isinstance(x, (*_FUNC_NODES, ast.ClassDef)) and x is not s and x.name == n.id):
                        return True
            s = _eval_scope(s)
        return False

    def refs_of_function(self, t: FuncInfo) -> list:
        """reference nodes that denote function t"""
        outer = _eval_scope(t.node)
        out = []
        if isinstance(outer, (*_FUNC_NODES, ast.Lambda)):                     # nested def: visible in the enclosing function only
            for n in ast.walk(outer):
                if isinstance(n, ast.Name) and n.id == t.name and not isinstance(n.ctx, ast.Store) and not self.shadowed(n, outer) \
                        and not any(a is t.node for a in self._ancestors(n)):
                    out.append((t.module, n))
            if any(isinstance(n, ast.Name) and n.id == t.name and isinstance(n.ctx, ast.Store) for n in ast.walk(outer)):
                raise self.undecided(f"the name of the nested function {t.qualname} is rebound")
            return out
        if isinstance(outer, ast.ClassDef):                                    # method: X.name
            owners = [c for c in self.repo.all_classes() if t.name in c.methods]
            family = {id(c.node) for c in [t.cls, *t.cls.all_subclasses()]} if t.cls else set()
            foreign = [c for c in owners if id(c.node) not in family and not (t.cls and c in t.cls.mro())]
            for m, n in self.name_refs(t.name):
                if isinstance(n, ast.Name):
                    if _eval_scope(n) is outer and not isinstance(n.ctx, ast.Store):   # used by name inside the class body
                        out.append((m, n))
                    continue
                if isinstance(n.ctx, ast.Store):
                    raise self.undecided(f"attribute {t.name} is assigned at {m.relpath}:{n.lineno}")
                if not foreign:
                    out.append((m, n))
                    continue
                f = self.repo.function_of(n)
                base = n.value
                if isinstance(base, ast.Name) and base.id in ("self", "cls") and f is not None and f.cls is not None:
                    if id(f.cls.node) in family or t.cls in f.cls.mro():
                        out.append((m, n))
                    continue
                ci = self.repo.resolve_class_expr(m, base)
                if ci is not None:
                    if id(ci.node) in family:
                        out.append((m, n))
                    continue
                raise self.undecided(f"`{norm(n)}` at {m.relpath}:{n.lineno} may or may not be {t.qualname}")
            return out
        seen_ids = set()
        for m in self.repo.modules.values():                                   # imported under another name / inside a function
            for x in ast.walk(m.tree):
                if not isinstance(x, ast.ImportFrom) or (x.module is not None and x.module.split(".")[-1] != t.module.name.split(".")[-1]):
                    continue
                for al in x.names:
                    if al.name != t.name:
                        continue
                    local, scope = al.asname or al.name, _eval_scope(x)
                    if scope is None and local == t.name:
                        continue                                               # the plain module-level import: resolved by name below
                    for n in ast.walk(scope if scope is not None else m.tree):
                        if isinstance(n, ast.Name) and n.id == local and id(n) not in seen_ids:
                            if isinstance(n.ctx, ast.Store):
                                raise self.undecided(f"`{local}` (an import of {t.name}) is rebound in {m.relpath}")
                            if not self.shadowed(n, scope):
                                seen_ids.add(id(n))
                                out.append((m, n))
        for m, n in self.name_refs(t.name):                                    # module-level function
            if id(n) in seen_ids:
                continue
            if isinstance(n, ast.Name):
                if isinstance(n.ctx, ast.Store):
                    if m is t.module and _eval_scope(n) is None:
                        raise self.undecided(f"{t.name} is rebound at module level")
                    continue
                r = self.repo.resolve_name(m, n.id)
                if isinstance(r, FuncInfo) and r.node is t.node and not self.shadowed(n, None):
                    out.append((m, n))
            elif isinstance(n.value, ast.Name):
                r = self.repo.resolve_name(m, n.value.id)
                if isinstance(r, tuple) and r[0] == "module" and r[1] is t.module:
                    if isinstance(n.ctx, ast.Store):
                        raise self.undecided(f"{t.name} is replaced at {m.relpath}:{n.lineno}")
                    out.append((m, n))
        return out

    @staticmethod
    def _ancestors(n):
        from ..model import parent
        p = parent(n)
        while p is not None:
            yield p
            p = parent(p)

    # ---- uses
    def role(self, n: ast.AST):
        """('call', Call) | ('classdeco', ClassDef) | ('funcdeco', FunctionDef, applied: bool) | ('return',) | ('other', text)"""
        from ..model import parent
        p = parent(n)
        if isinstance(p, ast.Call) and p.args and p.args[0] is n and (chain(p.func) or "").split(".")[-1] == "partial":
            # functools.partial(f, ..): called on the spot, or kept in a local of the same scope that is only ever called there
            pp = parent(p)
            if isinstance(pp, ast.Call) and pp.func is p:
                return ("call", pp)
            scope = _eval_scope(p)
            if isinstance(pp, ast.Assign) and len(pp.targets) == 1 and isinstance(pp.targets[0], ast.Name) and isinstance(scope, _FUNC_NODES):
                local = pp.targets[0].id
                uses = [x for x in ast.walk(scope) if isinstance(x, ast.Name) and x.id == local and x is not pp.targets[0]]
                if uses and all(isinstance(x.ctx, ast.Load) and isinstance(parent(x), ast.Call) and parent(x).func is x and _eval_scope(x) is scope
                                for x in uses):
                    return ("call", p)
            return ("other", norm(pp)[:60] if pp is not None else "?")
        if isinstance(p, ast.Call) and p.func is n:
            pp = parent(p)
            if isinstance(pp, ast.ClassDef) and any(p is d for d in pp.decorator_list):
                return ("classdeco", pp)
            if isinstance(pp, _FUNC_NODES) and any(p is d for d in pp.decorator_list):
                return ("funcdeco", pp, True)
            return ("call", p)
        if isinstance(p, ast.ClassDef) and any(n is d for d in p.decorator_list):
            return ("classdeco", p)
        if isinstance(p, _FUNC_NODES) and any(n is d for d in p.decorator_list):
            return ("funcdeco", p, False)
        if isinstance(p, ast.Return) and p.value is n:
            return ("return",)
        return ("other", norm(p)[:60] if p is not None else "?")

    def applications(self, fn: FuncInfo, why: str) -> list:
        """FunctionDefs g such that the name g is bound to fn(g) (fn used as a decorator, directly or as the result of its factory)."""
        out = []
        for m, n in self.refs_of_function(fn):
            r = self.role(n)
            if r[0] == "funcdeco" and not r[2]:
                out.append(r[1])
            elif r[0] == "return":
                outer = _eval_scope(fn.node)
                if not isinstance(outer, _FUNC_NODES):
                    raise self.undecided(f"{why}: `{fn.qualname}` is returned outside a factory")
                for m2, n2 in self.refs_of_function(self.repo.info(outer)):
                    r2 = self.role(n2)
                    if r2[0] == "funcdeco" and r2[2]:
                        out.append(r2[1])
                    else:
                        raise self.undecided(f"{why}: the decorator factory `{outer.name}` is used as `{r2[-1] if r2[0] == 'other' else r2[0]}`")
            else:
                raise self.undecided(f"{why}: `{fn.qualname}` is used as {r[0]} ({r[-1] if r[0] == 'other' else ''}) at {m.relpath}:{n.lineno}")
        return out

    # ---- classification
    def follow(self, t: FuncInfo, via: str) -> None:
        """t runs the conversion when it is called: who calls t?"""
        if id(t.node) in self.seen:
            return
        self.seen.add(id(t.node))
        if len(self.seen) > 40:
            raise self.undecided("more than 40 functions on the way")
        self.ctx.functions.add(t.where)
        refs = self.refs_of_function(t)
        if not refs and t is not self.target:
            self.unreferenced(t, via)
        for m, n in refs:
            r = self.role(n)
            at = f"{m.relpath}:{getattr(n, 'lineno', 0)}"
            if r[0] == "call":
                self.executed_in(_eval_scope(r[1]), m, f"{via} <- call at {at}")
            elif r[0] == "classdeco":
                self.early.append((f"class decorator on {r[1].name} ({at})", None))
            elif r[0] == "return":
                # t is the wrapper a private decorator returns: the decorated names are bound to it
                outer = _eval_scope(t.node)
                if not isinstance(outer, _FUNC_NODES):
                    raise self.undecided(f"`{t.qualname}` is returned at {at}")
                for g in self.applications(self.repo.info(outer), f"wrapper {t.qualname}"):
                    self.executed_in(g, m, f"{via} <- wrapper installed by @{outer.name}", as_function=True)
            elif r[0] == "funcdeco":
                raise self.undecided(f"`{t.qualname}` decorates a function at {at}")
            else:
                raise self.undecided(f"`{t.qualname}` is not called but used in `{r[1]}` at {at}")

    def unreferenced(self, t: FuncInfo, via: str) -> None:
        exported = self.exported(t)
        if exported and t.cls is None and t.params():
            self.early.append((f"public function {t.name} of {t.module.relpath} (exported: usable as class decorator / registration at definition time)", None))
            return
        raise self.undecided(f"`{t.qualname}` ({via}) has no caller in the library and is not exported")

    def exported(self, t: FuncInfo) -> bool:
        names = None
        for st in t.module.tree.body:
            if isinstance(st, (ast.Assign, ast.AnnAssign)) and any(isinstance(x, ast.Name) and x.id == "__all__" for x in _flat_targets(st)):
                v = st.value
                if isinstance(v, (ast.List, ast.Tuple)) and all(isinstance(const_value(e), str) for e in v.elts):
                    names = [const_value(e) for e in v.elts]
                else:
                    raise self.undecided("__all__ is not a literal list")
        if names is None:
            return not t.name.startswith("_")
        return t.name in names

    def executed_in(self, scope, m: Module, via: str, as_function: bool = False) -> None:
        """the conversion runs whenever the body of `scope` runs"""
        if scope is None:
            self.early.append((f"module level of {m.relpath} ({via})", None))
            return
        if isinstance(scope, ast.ClassDef):
            self.early.append((f"body of class {scope.name} ({via})", None))
            return
        if isinstance(scope, ast.Lambda):
            raise self.undecided(f"called from a lambda ({via})")
        g = self.repo.info(scope)
        outer = _eval_scope(scope)
        if not isinstance(outer, ast.ClassDef) or g.cls is None:
            self.follow(g, via)           # module-level function or nested def: a helper on the way
            return
        k, name = g.cls, g.name
        payload = k.is_subclass_of("Serializable")
        if name in _DEFINITION_HOOKS:
            self.early.append((f"{k.name}.{name} ({via})", k))
        elif _is_metaclass(k):
            if name == "__call__":
                raise self.undecided(f"metaclass {k.name}.__call__ ({via})")
            self.early.append((f"metaclass {k.name}.{name} ({via})", ("meta", k)))
        elif name in _CONSTRUCTION_HOOKS and (payload or any(c.is_subclass_of("Serializable") for c in k.all_subclasses())):
            self.hooks.append((k, g, via))          # of a payload class, or of a mixin that payload classes inherit the hook from
        elif name in (*_CONSTRUCTION_HOOKS, "__enter__", "__exit__") and not payload:
            self.instantiations(k, name, via)
        elif name.startswith("__") and name.endswith("__"):
            raise self.undecided(f"{k.name}.{name} is invoked implicitly ({via})")
        else:
            self.follow(g, via)

    def instantiations(self, k: ClassInfo, name: str, via: str) -> None:
        """a private helper class whose __init__ / __enter__ / __exit__ runs the conversion: where it is instantiated (and, for a context
        manager, entered in the same `with` item)"""
        from ..model import parent
        if id(k.node) in self.seen:
            return
        self.seen.add(id(k.node))
        found = 0
        for m, n in self.name_refs(k.name):
            if isinstance(n.ctx, ast.Store):
                continue
            ci = self.repo.resolve_class_expr(m, n)
            if ci is None or ci.node is not k.node:
                continue
            p = parent(n)
            if isinstance(p, ast.ClassDef) and any(n is b for b in p.bases):
                raise self.undecided(f"helper class {k.name} is subclassed")
            if not (isinstance(p, ast.Call) and p.func is n):
                if isinstance(p, (ast.arg, ast.AnnAssign, ast.Subscript, ast.BinOp)) or any(isinstance(a, ast.arguments) for a in self._ancestors(n)):
                    continue        # annotation
                raise self.undecided(f"helper class {k.name} is used as a value at {m.relpath}:{n.lineno}")
            if name in ("__enter__", "__exit__") and not isinstance(parent(p), ast.withitem):
                raise self.undecided(f"context manager {k.name} is created outside a with item at {m.relpath}:{n.lineno}")
            found += 1
            self.executed_in(_eval_scope(p), m, f"{via} <- {k.name}(..) at {m.relpath}:{n.lineno}")
        if not found:
            raise self.undecided(f"helper class {k.name} is never instantiated")

    def applies_to(self, early_owner, k: ClassInfo) -> bool:
        if early_owner is None:
            return True
        if isinstance(early_owner, tuple):
            metas = _metaclass_of(self.ctx, k)
            return any(isinstance(x, ClassInfo) and early_owner[1] in x.mro() for x in metas)
        return early_owner in k.mro()


def rule_dataclass_installed_early(ctx: Ctx) -> None:
    """names / format_list and the compiled methods exist on a dataclass payload class only after convert_to_payload(cls): the class can
    encode AND decode like its plain definition only from the moment that has run.  The plain definition decodes as soon as the class
    statement has been executed, so some path to convert_to_payload must start at class-definition time."""
    repo = ctx.repo
    cp = repo.func(PD, "convert_to_payload")
    paths = _ConversionPaths(ctx, cp)
    paths.follow(cp, "convert_to_payload")
    if not paths.early and not paths.hooks:
        raise AnalysisError(f"undecided: {cp.where}: no caller of convert_to_payload was found")
    # one verdict per payload class whose construction converts: the top-most payload class of each hook
    reported = set()
    for k, g, via in paths.hooks:
        tops = [c for c in [k, *k.all_subclasses()] if c.lookup(g.name) is not None and c.lookup(g.name).node is g.node
                and c.is_subclass_of("Serializable")]
        tops = [c for c in tops if not any(b is not c and b in tops for b in c.mro())]
        for c in tops:
            if id(c.node) in reported:
                continue
            reported.add(id(c.node))
            early = [d for d, owner in paths.early if paths.applies_to(owner, c)]
            ctx.check(bool(early), "dataclass-installed-early", f"{c.module.relpath}:{c.name}.{g.name}",
                      "convert_to_payload(cls) runs only when an instance is constructed",
                      f"{c.name}: conversion is reachable from class-definition time ({'; '.join(early)[:200]})",
                      f"every call path to convert_to_payload for {c.name} subclasses starts in the instance-construction hook {g.qualname} ({via}); there is none "
                      "from class-definition time (__init_subclass__, class decorator, metaclass, exported registration function, module level). Until a first "
                      "instance has been constructed in the process the dataclass still inherits names = [] / format_list = [] and the interpreted methods: "
                      "Serializer.unpack_serializable reads zero fields and from_unpack_list() raises TypeError, while the plain definition decodes the same bytes")
    if not paths.hooks:
        ctx.check(True, "dataclass-installed-early", cp, cp.node, "convert_to_payload is reached from class-definition time only: "
                  + "; ".join(d for d, _ in paths.early)[:300])
    ctx.extra["conversion_paths"] = {"definition_time": [d for d, _ in paths.early], "construction_hooks": [f"{k.name}.{g.name} ({via})" for k, g, via in paths.hooks]}


def rule_library_defaults(ctx: Ctx) -> None:
    """Visibility of the repr finding's reach: custom __init__ defaults in shipped vp_compile'd payloads."""
    repo = ctx.repo
    found = []
    for c in repo.all_classes():
        if not c.is_subclass_of("VariablePayload") or "__init__" not in c.methods:
            continue
        if not any("vp_compile" in norm(d) for d in c.node.decorator_list):
            continue
        a = c.methods["__init__"].node.args
        for d in a.defaults + [k for k in a.kw_defaults if k is not None]:
            found.append((c.name, norm(d), type(const_value(d)).__name__))
    ctx.extra["defaults_in_library"] = found
    strs = [f for f in found if f[2] == "str"]
    ctx.instance("repr-in-codegen", LP, f"library vp_compile classes with __init__ defaults: {len(found)} (str defaults: {len(strs)})", nontrivial=False)


def run(ctx: Ctx) -> None:
    rule_init_template(ctx)
    rule_to_pack_template(ctx)
    rule_from_unpack_template(ctx)
    rule_interpreter(ctx)
    rule_vp_compile(ctx)
    rule_type_map(ctx)
    rule_dataclass_installed_early(ctx)
    rule_library_defaults(ctx)
    ctx.assume("byte equality of concrete instances follows from equal pack lists / constructor arguments plus C02's packer symmetry; it is not executed")
    ctx.assume("compiled from_unpack_list skips fix_unpack_ for None values while the interpreter does not: wire values are never None")
    ctx.assume("field names of a definition are distinct non-empty identifiers, string formats other than 'bits' are registered format names that the "
               "code does not single out; symbolic strings built differently are different strings")
    ctx.assume("code that asks about a constructor default's VALUE (truth, None-ness) is evaluated for every combination of answers while that takes at most "
               f"{_MAX_CASES} evaluations per definition, otherwise for all-yes / all-no / each single deviation")
    ctx.assume("where the evaluated code asks for the TYPE of a constructor default, the template rules only require agreement for defaults of the builtin literal "
               "types the code accepts; what happens to other defaults is rule default-literal's question (today: known finding)")
    ctx.assume("a function listed in __all__ (or public in a module without __all__) that passes its parameter to convert_to_payload counts as a definition-time "
               "path (class decorator / registration); whether users apply it is outside the library")
    ctx.assume("abstract definitions are finite: at most 5 formats / 19 names, hooks / defaults in 6 presence patterns; integer constants above 8 in the "
               "evaluated code make the rule undecided instead of silently out of scope")


WITNESSES = [
    {"name": "pre-fix: defaults rendered with str()", "file": LP, "rule": "repr-in-codegen",
     "old": "{defaults.get(name)!r}", "new": "{defaults.get(name)}"},
    {"name": "defaults for every name", "file": LP, "rule": "template-init",
     "old": "(f\"{name}={defaults.get(name)!r}\" if name in defaults else name) for name in names)",
     "new": "(f\"{name}={defaults.get(name)!r}\" if defaults else name) for name in names)"},
    {"name": "default dropped when its value is falsy", "file": LP, "rule": "template-init",
     "old": "(f\"{name}={defaults.get(name)!r}\" if name in defaults else name) for name in names)",
     "new": "(f\"{name}={defaults.get(name)!r}\" if defaults.get(name) else name) for name in names)"},
    {"name": "default dropped when its value is None", "file": LP, "rule": "template-init",
     "old": "(f\"{name}={defaults.get(name)!r}\" if name in defaults else name) for name in names)",
     "new": "(f\"{name}={defaults.get(name)!r}\" if defaults.get(name) is not None else name) for name in names)"},
    {"name": "type_map hashes the annotation (explicit [Payload] format spec is unhashable)", "file": PD, "rule": "type-map",
     "old": "    if t is bool:\n        return \"?\"", "new": "    if t in {bool: \"?\"}:\n        return \"?\""},
    {"name": "init args sorted", "file": LP, "rule": "template-init",
     "old": "if name in defaults else name) for name in names)", "new": "if name in defaults else name) for name in sorted(names))"},
    {"name": "bits consumes one name", "file": LP, "rule": "template-to-pack-list",
     "old": "        args = []\n        for _ in range(8 if fmt == \"bits\" else 1):\n            name = names[index]",
     "new": "        args = []\n        for _ in range(1):\n            name = names[index]"},
    {"name": "fix_pack applied by instance attribute only", "file": LP, "rule": "template-to-pack-list",
     "old": "            if hasattr(src_cls, \"fix_pack_\" + name):\n                args.append(f\"self.fix_pack_{name}(self.{name})\")",
     "new": "            if hasattr(src_cls, \"fix_pack_\" + name) and index:\n                args.append(f\"self.fix_pack_{name}(self.{name})\")"},
    {"name": "nested list packed as payload", "file": LP, "rule": "interpreter-agrees",
     "old": "derived_fmt = fmt if isinstance(fmt, str) else (\"payload-list\" if isinstance(fmt, list) else \"payload\")",
     "new": "derived_fmt = fmt if isinstance(fmt, str) else \"payload\""},
    {"name": "fix_unpack looked up on wrong prefix", "file": LP, "rule": "template-from-unpack-list",
     "old": "                      if hasattr(src_cls, \"fix_unpack_\" + name)", "new": "                      if hasattr(src_cls, \"fix_pack_\" + name)"},
    {"name": "interpreter packlist fmt differs", "file": LP, "rule": "interpreter-agrees",
     "old": "        if isinstance(fmt, list):\n            return \"payload-list\"\n        return \"payload\"", "new": "        return \"payload\""},
    {"name": "vp_compile takes names from format_list length", "file": LP, "rule": "vp-compile-installs",
     "old": "    exec(_compile_from_unpack_list(vp_definition, vp_definition.names), globals(), local_scope)",
     "new": "    exec(_compile_from_unpack_list(vp_definition, vp_definition.names[:len(vp_definition.format_list)]), globals(), local_scope)"},
    {"name": "from_unpack_list not bound to class", "file": LP, "rule": "vp-compile-installs",
     "old": "types.MethodType(local_scope[\"from_unpack_list\"], vp_definition))", "new": "staticmethod(local_scope[\"from_unpack_list\"]))"},
    {"name": "int maps to unregistered format", "file": PD, "rule": "type-map",
     "old": "    if t is int:\n        return \"q\"", "new": "    if t is int:\n        return \"i\""},
    {"name": "dataclass names in constructor-parameter order (keyword-only fields move last, init=False fields drop out)", "rule": "type-map",
     "edits": [{"file": PD, "old": "import dataclasses\n", "new": "import dataclasses\nimport inspect\n"},
               {"file": PD, "old": "    dataclass_type.names = [field.name for field in dt_fields]  # type: ignore[attr-defined]\n",
                "new": "    dataclass_type.names = [name for name in inspect.signature(dataclass_type.__init__).parameters\n"
                       "                            if name in {field.name for field in dt_fields}]\n"}]},
    {"name": "list of old-style payloads no longer nests (element test narrowed to VariablePayload)", "file": PD, "rule": "type-map",
     "old": "        if issubclass(fmt, Serializable):\n            return [fmt]", "new": "        if issubclass(fmt, VariablePayload):\n            return [fmt]"},
    {"name": "formats from Field.type (the annotation as written) instead of the resolved type hints", "file": PD, "rule": "type-map",
     "old": "    type_hints = get_type_hints(dataclass_type)\n", "new": "    type_hints = {field.name: field.type for field in dt_fields}\n"},
    {"name": "repaired twin: exported class decorator converts at definition time", "kind": "twin", "rule": "dataclass-installed-early",
     "edits": [{"file": PD, "old": "class DataClassPayload(VariablePayload):\n",
                "new": "def dataclass_payload(cls: type) -> type:\n    convert_to_payload(cls, getattr(cls, \"msg_id\", None))\n    return cls\n\n\n"
                       "class DataClassPayload(VariablePayload):\n"},
               {"file": PD, "old": "__all__ = [\"DataClassPayload\", \"type_from_format\"]",
                "new": "__all__ = [\"DataClassPayload\", \"dataclass_payload\", \"type_from_format\"]"}]},
    {"name": "repaired twin: __init_subclass__ converts at definition time", "kind": "twin", "rule": "dataclass-installed-early",
     "edits": [{"file": PD, "old": "        out = super().__new__(cls)\n        convert_to_payload(cls)\n        return out\n",
                "new": "        out = super().__new__(cls)\n        convert_to_payload(cls)\n        return out\n\n"
                       "    def __init_subclass__(cls, **kwargs) -> None:\n        super().__init_subclass__(**kwargs)\n        convert_to_payload(cls)\n"},
               {"file": PD, "old": "        out = super().__new__(cls)\n        convert_to_payload(cls, msg_id=cls.msg_id)\n        return out\n",
                "new": "        out = super().__new__(cls)\n        convert_to_payload(cls, msg_id=cls.msg_id)\n        return out\n\n"
                       "    def __init_subclass__(cls, **kwargs) -> None:\n        super().__init_subclass__(**kwargs)\n        convert_to_payload(cls, msg_id=cls.msg_id)\n"}]},
    {"name": "conversion moved to another construction hook (__init__): still instance time", "file": PD, "rule": "dataclass-installed-early",
     "old": "        out = super().__new__(cls)\n        convert_to_payload(cls)\n        return out\n",
     "new": "        return super().__new__(cls)\n\n    def __init__(self, *args: Any, **kwargs) -> None:  # noqa: ANN401\n"
            "        convert_to_payload(type(self))\n        super().__init__(*args, **kwargs)\n"},
    {"name": "repaired twin: defaults restricted to literal types before they are rendered", "kind": "twin", "rule": "default-literal", "file": LP,
     "old": "    arg_list = \", \".join((f\"{name}={defaults.get(name)!r}\" if name in defaults else name) for name in names)\n",
     "new": "    for default in defaults.values():\n        if not isinstance(default, (int, str, bytes, bool, type(None))):\n"
            "            raise TypeError(\"default value cannot be compiled\")\n"
            "    arg_list = \", \".join((f\"{name}={defaults.get(name)!r}\" if name in defaults else name) for name in names)\n"},
    {"name": "type test on the default that does not restrict what is rendered", "file": LP, "rule": "default-literal",
     "old": "    arg_list = \", \".join((f\"{name}={defaults.get(name)!r}\" if name in defaults else name) for name in names)\n",
     "new": "    unusual = [default for default in defaults.values() if not isinstance(default, (int, str, bytes, bool, type(None)))]\n"
            "    arg_list = \", \".join((f\"{name}={defaults.get(name)!r}\" if name in defaults else name) for name in names)\n"},
    {"name": "interpreted pack list memoised on the instance (stale after a field is assigned)", "file": LP, "rule": "interpreter-agrees",
     "edits": [{"file": LP, "old": "        out = []\n        index = 0\n        for i in range(len(self.format_list)):\n            args = []\n            for _ in range(8 if self.format_list[i]",
                "new": "        out = self.__dict__.get(\"_pack_list\")\n        if out is not None:\n            return out\n"
                       "        out = []\n        index = 0\n        for i in range(len(self.format_list)):\n            args = []\n            for _ in range(8 if self.format_list[i]"},
               {"file": LP, "old": "            out.append((self._to_packlist_fmt(self.format_list[i]), *args))\n        return out\n",
                "new": "            out.append((self._to_packlist_fmt(self.format_list[i]), *args))\n        self._pack_list = out\n        return out\n"}]},
    {"name": "repaired twin: memoised pack list dropped by __setattr__ whenever an attribute is assigned", "kind": "twin", "rule": "interpreter-agrees",
     "edits": [{"file": LP, "old": "        out = []\n        index = 0\n        for i in range(len(self.format_list)):\n            args = []\n            for _ in range(8 if self.format_list[i]",
                "new": "        out = self.__dict__.get(\"_pack_list\")\n        if out is not None:\n            return out\n"
                       "        out = []\n        index = 0\n        for i in range(len(self.format_list)):\n            args = []\n            for _ in range(8 if self.format_list[i]"},
               {"file": LP, "old": "            out.append((self._to_packlist_fmt(self.format_list[i]), *args))\n        return out\n",
                "new": "            out.append((self._to_packlist_fmt(self.format_list[i]), *args))\n        object.__setattr__(self, \"_pack_list\", out)\n        return out\n\n"
                       "    def __setattr__(self, key: str, value: object) -> None:\n        self.__dict__.pop(\"_pack_list\", None)\n"
                       "        super().__setattr__(key, value)\n"}]},
    {"name": "dataclass formats from sorted hints", "file": PD, "rule": "type-map",
     "old": "    dataclass_type.format_list = [type_map(type_hints[field.name]) for field in  # type: ignore[attr-defined]\n                                  dt_fields]",
     "new": "    dataclass_type.format_list = [type_map(type_hints[name]) for name in  # type: ignore[attr-defined]\n                                  sorted(type_hints)]"},
]
