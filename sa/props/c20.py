"""C20 - Compiled and dataclass payloads behave like their plain definition (generator analysed as a program transformer)."""
from __future__ import annotations

import ast

from ..core import Ctx
from ..match import arg, call_name, calls, local_defs, resolve, single_def
from ..model import AnalysisError, FuncInfo, ancestors, chain, const_value, enclosing_stmt, norm, parent, strip_cast, walk_no_nested

LEVEL = "other"
EXPLANATION = (
    "The code generator (_compile_init, _compile_from_unpack_list, _compile_to_pack_list, vp_compile), the interpreter "
    "(VariablePayload.__init__/to_pack_list/from_unpack_list) and the dataclass front end (type_map, convert_to_payload) "
    "are analysed as source: the f-string templates must have the shape that reproduces the interpreter for every "
    "definition (names in order; defaults exactly under `name in defaults` and rendered with repr; one name per format, "
    "eight for 'bits', with a running index; fix_pack_/fix_unpack_ hooks exactly under hasattr on the source class; same "
    "format derivation str/list/else), vp_compile feeds the builders from the same class and installs exactly the three "
    "functions, type_map only returns registered formats. Nothing from /repo is executed; equality of bytes for concrete "
    "instances is not decided."
)

LP = "ipv8/messaging/lazy_payload.py"
PD = "ipv8/messaging/payload_dataclass.py"
SER = "ipv8/messaging/serialization.py"


def _fstring_parts(js: ast.JoinedStr):
    out = []
    for v in js.values:
        if isinstance(v, ast.Constant):
            out.append(("text", v.value))
        else:
            out.append(("expr", norm(v.value), v.conversion))
    return out


def _template_text(js: ast.JoinedStr) -> str:
    return "".join(p[1] if p[0] == "text" else "{" + p[1] + ("!r" if p[2] == 114 else "") + "}" for p in _fstring_parts(js))


def _join_over(e: ast.AST):
    """`SEP.join(<comprehension>)` -> (sep, element expr, iter expr text, target) or None"""
    e = strip_cast(e)
    if isinstance(e, ast.Call) and call_name(e) == "join" and isinstance(e.func.value, ast.Constant) and len(e.args) == 1:
        a = e.args[0]
        if isinstance(a, (ast.GeneratorExp, ast.ListComp)) and len(a.generators) == 1 and not a.generators[0].ifs:
            g = a.generators[0]
            return e.func.value.value, a.elt, norm(g.iter), norm(g.target)
        if isinstance(a, ast.Name):
            return e.func.value.value, None, a.id, None
    return None


def rule_init_template(ctx: Ctx) -> None:
    fi = ctx.repo.func(LP, "_compile_init")
    names, defaults = fi.params()
    al = single_def(fi, "arg_list")
    j = _join_over(al[0]) if al else None
    ok = j is not None and j[0] == ", " and j[2] == names
    elt = j[1] if j else None
    shape = False
    if ok and isinstance(elt, ast.IfExp):
        v = j[3]
        test_ok = norm(elt.test) == f"{v} in {defaults}"
        else_ok = norm(elt.orelse) == v
        body_ok = isinstance(elt.body, ast.JoinedStr) and [p[:2] for p in _fstring_parts(elt.body)] == [("expr", v), ("text", "="), ("expr", f"{defaults}.get({v})")]
        shape = test_ok and else_ok and body_ok
    ctx.check(ok and shape, "template-init", fi, fi.node, "arg_list: names in order, `name=<default>` exactly under `name in defaults`, bare name otherwise",
              "the generated __init__ signature does not list the names in order with defaults exactly for the names that have one")
    st = single_def(fi, "setters")
    j2 = _join_over(st[0]) if st else None
    ok2 = j2 is not None and j2[2] == names and isinstance(j2[1], ast.JoinedStr) and _template_text(j2[1]) == "self.{" + j2[3] + "} = {" + j2[3] + "}" and "\n" in j2[0]
    ctx.check(ok2, "template-init", fi, fi.node, "setters: `self.<name> = <name>` for every name, one per line", "the generated __init__ does not assign every field from its parameter")
    fc = single_def(fi, "f_code")
    txt = _template_text(fc[0]) if fc and isinstance(fc[0], ast.JoinedStr) else ""
    ok3 = "def __init__(self, {arg_list}):" in txt and "Payload.__init__(self)" in txt and "{setters}" in txt and txt.index("Payload.__init__") < txt.index("{setters}")
    ctx.check(ok3, "template-init", fi, fi.node, "template: def __init__(self, <args>): Payload.__init__(self); <setters>", f"the __init__ template changed: {txt!r}")
    # LINT: python values interpolated into source must use !r
    n = 0
    for gen in ("_compile_init", "_compile_from_unpack_list", "_compile_to_pack_list"):
        g = ctx.repo.func(LP, gen)
        for node in ast.walk(g.node):
            if isinstance(node, ast.FormattedValue):
                mentions_value = any(isinstance(x, ast.Call) and chain(x.func) in (f"{defaults}.get",) or (isinstance(x, ast.Subscript) and chain(x.value) == defaults) for x in ast.walk(node.value))
                if mentions_value:
                    n += 1
                    ctx.check(node.conversion == 114, "repr-in-codegen", g, node.value, f"{gen}: default value rendered with !r",
                              f"{gen} interpolates the Python value `{norm(node.value)}` into generated source with str(): a str default becomes a bare identifier (NameError), "
                              "other objects become unparsable tokens; the interpreted form accepts them")
            if isinstance(node, ast.Call) and chain(node.func) in ("str", "format") and any(chain(x) == defaults for x in ast.walk(node)):
                ctx.check(False, "repr-in-codegen", g, node, "no str()/format() of default values", "default values are rendered with str()/format()")
    ctx.floor("repr-in-codegen", n, 1)
    rets = [r for r in walk_no_nested(fi.node) if isinstance(r, ast.Return)]
    ok4 = len(rets) == 1 and isinstance(rets[0].value, ast.Call) and chain(rets[0].value.func) == "compile" and norm(rets[0].value.args[0]) == "f_code" and const_value(rets[0].value.args[2]) == "exec"
    ctx.check(ok4, "template-init", fi, fi.node, "the template text itself is compiled", "_compile_init compiles something other than the template")


def rule_to_pack_template(ctx: Ctx) -> None:
    fi = ctx.repo.func(LP, "_compile_to_pack_list")
    src, fl, names = fi.params()
    loops = [l for l in walk_no_nested(fi.node) if isinstance(l, ast.For)]
    outer = [l for l in loops if norm(l.iter) == fl]
    ok = len(outer) == 1
    inner = [l for l in ast.walk(outer[0]) if isinstance(l, ast.For) and l is not outer[0]] if ok else []
    fv = norm(outer[0].target) if ok else "fmt"
    ok = ok and len(inner) == 1 and norm(inner[0].iter) == f"range(8 if {fv} == 'bits' else 1)"
    ctx.check(ok, "template-to-pack-list", fi, fi.node, "formats in order; 8 names for 'bits', 1 otherwise", "the generated to_pack_list does not consume 8 names per 'bits' format and 1 per other format")
    if not ok:
        return
    body = inner[0].body
    nm = [s for s in body if isinstance(s, ast.Assign) and norm(s.value) == f"{names}[index]"]
    inc = [s for s in body if isinstance(s, ast.AugAssign) and norm(s.target) == "index" and const_value(s.value) == 1 and isinstance(s.op, ast.Add)]
    init = [d for d in local_defs(fi, "index") if d[1] is not None and const_value(d[1]) == 0]
    ctx.check(len(nm) == 1 and len(inc) == 1 and len(init) == 1 and len(local_defs(fi, "index")) == 2, "template-to-pack-list", fi, inner[0],
              "running index into names, advanced once per consumed name", "field names are not consumed with a single running index")
    v = norm(nm[0].targets[0]) if nm else "name"
    ifs = [s for s in body if isinstance(s, ast.If)]
    ok = len(ifs) == 1 and norm(ifs[0].test) == f"hasattr({src}, 'fix_pack_' + {v})"
    if ok:
        t = [c for c in ast.walk(ifs[0].body[0]) if isinstance(c, ast.JoinedStr)]
        e = [c for c in ast.walk(ifs[0].orelse[0]) if isinstance(c, ast.JoinedStr)] if ifs[0].orelse else []
        ok = bool(t) and bool(e) and _template_text(t[0]) == "self.fix_pack_{" + v + "}(self.{" + v + "})" and _template_text(e[0]) == "self.{" + v + "}" \
            and all(isinstance(x, ast.Expr) and chain(x.value.func) == "args.append" for x in (ifs[0].body[0], ifs[0].orelse[0]))
    ctx.check(ok, "template-to-pack-list", fi, inner[0], "fix_pack_<name> applied exactly under hasattr(src_cls, 'fix_pack_' + name)",
              "the generated to_pack_list applies the fix_pack_ hook under a different condition / to a different field than the interpreter")
    d = single_def(fi, "derived_fmt")
    ok = d is not None and norm(d[0]) == f"{fv} if isinstance({fv}, str) else 'payload-list' if isinstance({fv}, list) else 'payload'"
    ctx.check(ok, "interpreter-agrees", fi, fi.node, "generator format derivation: str -> itself, list -> payload-list, else payload", "the generator derives the pack format differently from _to_packlist_fmt")
    ap = [c for c in calls(fi, "fmts.append")]
    ok = len(ap) == 1 and isinstance(ap[0].args[0], ast.Call) and call_name(ap[0].args[0]) == "format" and const_value(ap[0].args[0].func.value) == '("{}", {})' \
        and [norm(a) for a in ap[0].args[0].args] == ["derived_fmt", "', '.join(args)"] and any(a is outer[0] for a in ancestors(ap[0])) and not any(a is inner[0] for a in ancestors(ap[0]))
    ctx.check(ok, "template-to-pack-list", fi, fi.node, "one (format, *args) tuple per format", "the generated to_pack_list does not emit one tuple per format")
    fc = single_def(fi, "f_code")
    txt = _template_text(fc[0]) if fc and isinstance(fc[0], ast.JoinedStr) else ""
    ctx.check("def to_pack_list(self):" in txt and "return [{', '.join(fmts)}]" in txt, "template-to-pack-list", fi, fi.node, "template: def to_pack_list(self): return [<tuples>]",
              f"the to_pack_list template changed: {txt!r}")


def rule_from_unpack_template(ctx: Ctx) -> None:
    fi = ctx.repo.func(LP, "_compile_from_unpack_list")
    src, names = fi.params()
    al = single_def(fi, "arg_list")
    ok = al is not None and norm(al[0]) == f"', '.join({names})"
    ar = single_def(fi, "args")
    j = _join_over(ar[0]) if ar else None
    ok2 = j is not None and j[2] == names and isinstance(j[1], ast.IfExp)
    if ok2:
        v = j[3]
        e = j[1]
        hook = "cls.fix_unpack_{" + v + "}({" + v + "})"
        ok2 = norm(e.test) == f"hasattr({src}, 'fix_unpack_' + {v})" and norm(e.orelse) == v and isinstance(e.body, ast.JoinedStr) \
            and _template_text(e.body) in (hook, "None if {" + v + "} is None else " + hook)
    ctx.check(ok and ok2, "template-from-unpack-list", fi, fi.node, "parameters and arguments: names in order; fix_unpack_<name> exactly under hasattr(src_cls, 'fix_unpack_' + name)",
              "the generated from_unpack_list does not pass the fields in order with fix_unpack_ exactly where the class defines it")
    fc = single_def(fi, "f_code")
    txt = _template_text(fc[0]) if fc and isinstance(fc[0], ast.JoinedStr) else ""
    ctx.check("def from_unpack_list(cls, {arg_list}):" in txt and "return cls({args})" in txt, "template-from-unpack-list", fi, fi.node,
              "template: def from_unpack_list(cls, <names>): return cls(<args>)", f"the from_unpack_list template changed: {txt!r}")


def rule_interpreter(ctx: Ctx) -> None:
    repo = ctx.repo
    vp = repo.cls("VariablePayload", LP)
    # field-count expression at the interpreter sites
    sites = []
    for name in ("__init__", "to_pack_list"):
        f = vp.methods[name]
        for l in [l for l in walk_no_nested(f.node) if isinstance(l, ast.For)]:
            it = norm(l.iter)
            if it.startswith("range(8 if") and it.endswith("== 'bits' else 1)"):
                sites.append((f, l))
    ctx.check(len(sites) == 2, "interpreter-agrees", vp.where, "bits arity", "interpreter consumes 8 names per 'bits' format in __init__ and to_pack_list",
              "the interpreter's field count per format differs from the generator's (8 for 'bits', 1 otherwise)")
    tf = vp.methods["_to_packlist_fmt"]
    p = tf.params()[0]
    body = [s for s in tf.node.body if not (isinstance(s, ast.Expr) and isinstance(s.value, ast.Constant))]
    txt = [norm(s) if not isinstance(s, ast.If) else f"if {norm(s.test)}: {norm(s.body[0])}" for s in body]
    ok = txt == [f"if isinstance({p}, str): return {p}", f"if isinstance({p}, list): return 'payload-list'", "return 'payload'"]
    ctx.check(ok, "interpreter-agrees", tf, tf.node, "_to_packlist_fmt: str -> itself, list -> payload-list, else payload", f"_to_packlist_fmt changed: {txt}")
    fp = vp.methods["_fix_pack"]
    d = single_def(fp, "custom_rule")
    ok = d is not None and norm(d[0]) == f"'fix_pack_' + {fp.params()[1]}" and any(
        isinstance(s, ast.If) and norm(s.test) == "hasattr(self, custom_rule)" and norm(s.body[0]) == "return getattr(self, custom_rule)(raw_value)" for s in walk_no_nested(fp.node)) \
        and norm(single_def(fp, "raw_value")[0]) == f"getattr(self, {fp.params()[1]})"
    ctx.check(ok, "interpreter-agrees", fp, fp.node, "interpreter applies fix_pack_<name> when defined, to the field's raw value", "the interpreter's fix_pack_ handling changed")
    tp = vp.methods["to_pack_list"]
    ap = [c for c in calls(tp, "args.append")]
    ok = len(ap) == 1 and norm(ap[0].args[0]) == "self._fix_pack(self.names[index])"
    oa = [c for c in calls(tp, "out.append")]
    ok = ok and len(oa) == 1 and norm(oa[0].args[0]) == "(self._to_packlist_fmt(self.format_list[i]), *args)"
    ctx.check(ok, "interpreter-agrees", tp, tp.node, "interpreter emits (format, *fields) per format with a running name index", "the interpreter's to_pack_list changed shape")
    fu = vp.methods["from_unpack_list"]
    d = single_def(fu, "custom_rule")
    ok = d is not None and norm(d[0]) == "'fix_unpack_' + cls.names[i]"
    rets = [r for r in walk_no_nested(fu.node) if isinstance(r, ast.Return)]
    ok = ok and len(rets) == 1 and norm(rets[0].value) == "cls(*unpack_args)" and any(
        isinstance(s, ast.If) and norm(s.test) == "hasattr(cls, custom_rule)" and norm(s.body[0]) == "unpack_args[i] = getattr(cls, custom_rule)(args[i])" for s in walk_no_nested(fu.node))
    ctx.check(ok, "interpreter-agrees", fu, fu.node, "interpreter applies fix_unpack_<names[i]> to argument i and constructs cls(*args)", "the interpreter's from_unpack_list changed shape")
    ini = vp.methods["__init__"]
    sets = [c for c in calls(ini, "setattr") if norm(c.args[0]) == "self"]
    ok = len(sets) == 1 and norm(sets[0].args[1]) == "self.names[index]" and norm(sets[0].args[2]) == "value"
    d = single_def(ini, "value")
    ok = ok and d is not None and norm(d[0]) == "args[index] if index < len(args) else kwargs.pop(self.names[index])"
    raises = [r for r in walk_no_nested(ini.node) if isinstance(r, ast.Raise)]
    ok = ok and len(raises) >= 2
    ctx.check(ok, "interpreter-agrees", ini, ini.node, "interpreter assigns names[index] from positional then keyword arguments and rejects surplus",
              "the interpreter's constructor changed how arguments map to field names")


def rule_vp_compile(ctx: Ctx) -> None:
    fi = ctx.repo.func(LP, "vp_compile")
    d = fi.params()[0]
    ex = [c for c in calls(fi, "exec")]
    gens = {}
    for c in ex:
        g = c.args[0]
        if isinstance(g, ast.Call):
            gens[chain(g.func)] = g
    ok = set(gens) == {"_compile_init", "_compile_from_unpack_list", "_compile_to_pack_list"} and all(norm(c.args[2]) == "local_scope" for c in ex)
    if ok:
        gi = gens["_compile_init"]
        ok = norm(gi.args[0]) == f"{d}.names" and isinstance(gi.args[1], ast.DictComp) and f"inspect.signature({d}.__init__).parameters.items()" in norm(gi.args[1]) \
            and "v.default" in norm(gi.args[1].value) and "is not inspect.Parameter.empty" in norm(gi.args[1])
        ok = ok and [norm(a) for a in gens["_compile_from_unpack_list"].args] == [d, f"{d}.names"]
        ok = ok and [norm(a) for a in gens["_compile_to_pack_list"].args] == [d, f"{d}.format_list", f"{d}.names"]
    ctx.check(ok, "vp-compile-installs", fi, fi.node, "the three builders are fed names/format_list/defaults of the same class", "vp_compile feeds a builder with data of another class or other defaults")
    sa = {const_value(c.args[1]): norm(c.args[2]) for c in calls(fi, "setattr") if norm(c.args[0]) == d}
    want = {"__init__": "local_scope['__init__']", "__match_args__": f"tuple({d}.names)",
            "from_unpack_list": f"types.MethodType(local_scope['from_unpack_list'], {d})", "to_pack_list": "local_scope['to_pack_list']"}
    ctx.check(sa == want, "vp-compile-installs", fi, fi.node, "vp_compile installs exactly __init__, __match_args__, from_unpack_list (bound to the class), to_pack_list",
              f"vp_compile installs {sa}")
    rets = [r for r in walk_no_nested(fi.node) if isinstance(r, ast.Return)]
    ctx.check(len(rets) == 1 and norm(rets[0].value) == d, "vp-compile-installs", fi, fi.node, "vp_compile returns the same class", "vp_compile returns another class")


def registered_formats(ctx: Ctx) -> set[str]:
    init = ctx.repo.method("Serializer", "__init__", SER)
    for s in walk_no_nested(init.node):
        v = getattr(s, "value", None)
        if isinstance(s, (ast.Assign, ast.AnnAssign)) and isinstance(v, ast.Dict) and "_packers" in norm(s.targets[0] if isinstance(s, ast.Assign) else s.target):
            return {const_value(k) for k in v.keys}
    raise AnalysisError("anchor-lost: Serializer._packers table")


def rule_type_map(ctx: Ctx) -> None:
    fi = ctx.repo.func(PD, "type_map")
    fmts = registered_formats(ctx)
    consts = [const_value(r.value) for r in walk_no_nested(fi.node) if isinstance(r, ast.Return) and isinstance(const_value(r.value), str)]
    ctx.floor("type-map", len(consts), 5)
    pairs = {}
    for s in walk_no_nested(fi.node):
        if isinstance(s, ast.If) and isinstance(s.test, ast.Compare) and isinstance(s.test.ops[0], ast.Is) and isinstance(s.body[0], ast.Return):
            pairs[norm(s.test.comparators[0])] = const_value(s.body[0].value)
    for t, f in pairs.items():
        ctx.check(f in fmts, "type-map", fi, f"{t} -> {f}", f"type_map({t}) = {f!r} is a registered format", f"type_map({t}) returns {f!r}, which the Serializer does not register")
    ctx.check(pairs == {"bool": "?", "int": "q", "float": "d", "bytes": "varlenH", "str": "varlenHutf8"}, "type-map", fi, fi.node,
              "scalar annotations map to ?, q, d, varlenH, varlenHutf8", f"scalar type map changed: {pairs}")
    arr = [n for n in ast.walk(fi.node) if isinstance(n, ast.JoinedStr)]
    ok = len(arr) == 1 and _template_text(arr[0]) == "arrayH-{type_map(fmt)}" and all(f"arrayH-{x}" in fmts for x in ("?", "q", "d"))
    ctx.check(ok, "type-map", fi, fi.node, "lists of scalars map to arrayH-<scalar format> (registered for ?, q, d)", "list annotations map to an unregistered array format")
    cp = ctx.repo.func(PD, "convert_to_payload")
    dt = fi = cp
    p = cp.params()[0]
    nm = [s for s in walk_no_nested(cp.node) if isinstance(s, ast.Assign) and norm(s.targets[0]) == f"{p}.names"]
    fl = [s for s in walk_no_nested(cp.node) if isinstance(s, ast.Assign) and norm(s.targets[0]) == f"{p}.format_list"]
    ok = len(nm) == 1 and len(fl) == 1 and norm(nm[0].value) == "[field.name for field in dt_fields]" and norm(fl[0].value) == "[type_map(type_hints[field.name]) for field in dt_fields]" \
        and norm(single_def(cp, "dt_fields")[0]) == f"dataclasses.fields({p})"
    ctx.check(ok, "type-map", cp, cp.node, "names and format_list are derived from the same dataclass field order", "names and formats of a dataclass payload come from different orders")
    comp = [c for c in calls(cp) if call_name(c) == "setattr" and isinstance(c.args[2], ast.Call) and chain(c.args[2].func) == "vp_compile" and norm(c.args[2].args[0]) == p]
    ctx.check(bool(comp), "type-map", cp, cp.node, "the dataclass is replaced by vp_compile(dataclass_type)", "dataclass payloads are not compiled from their own definition")
    # every class that reaches convert_to_payload is converted from ITS OWN fields: no early exit / guard that an inherited attribute could satisfy
    cfgc = ctx.cfg(cp)
    must = [n for s_ in [*nm, *fl] for n in cfgc.nodes_for(s_)] + [n for c in comp for n in cfgc.nodes_for(c)]
    ok = bool(comp) and all(cfgc.exit not in cfgc.reach(cut_nodes=cfgc.nodes_for(x), follow_exc=False) for x in [*nm, *fl, *comp])
    ctx.check(ok, "type-map", cp, cp.node, "convert_to_payload always derives names/format_list and compiles (no skip path)",
              "convert_to_payload can return without deriving names/format_list and compiling the class (e.g. a 'convert once' guard satisfied by an attribute "
              "inherited from a parent dataclass payload): the subclass keeps the parent's wire format and drops its own fields")


def rule_library_defaults(ctx: Ctx) -> None:
    """Visibility of the repr finding's reach: custom __init__ defaults in shipped vp_compile'd payloads."""
    repo = ctx.repo
    found = []
    for c in repo.all_classes():
        if not c.is_subclass_of("VariablePayload") or "__init__" not in c.methods:
            continue
        if not any("vp_compile" in norm(d) for d in c.node.decorator_list):
            continue
        a = c.methods["__init__"].node.args
        for d in a.defaults + [k for k in a.kw_defaults if k is not None]:
            found.append((c.name, norm(d), type(const_value(d)).__name__))
    ctx.extra["defaults_in_library"] = found
    strs = [f for f in found if f[2] == "str"]
    ctx.instance("repr-in-codegen", LP, f"library vp_compile classes with __init__ defaults: {len(found)} (str defaults: {len(strs)})", nontrivial=False)


def run(ctx: Ctx) -> None:
    rule_init_template(ctx)
    rule_to_pack_template(ctx)
    rule_from_unpack_template(ctx)
    rule_interpreter(ctx)
    rule_vp_compile(ctx)
    rule_type_map(ctx)
    rule_library_defaults(ctx)
    ctx.assume("byte equality of concrete instances follows from the template shapes plus C02's packer symmetry; it is not executed")
    ctx.assume("compiled from_unpack_list skips fix_unpack_ for None values while the interpreter does not: wire values are never None")


WITNESSES = [
    {"name": "pre-fix: defaults rendered with str()", "file": LP, "rule": "repr-in-codegen",
     "old": "{defaults.get(name)!r}", "new": "{defaults.get(name)}"},
    {"name": "defaults for every name", "file": LP, "rule": "template-init",
     "old": "(f\"{name}={defaults.get(name)!r}\" if name in defaults else name) for name in names)",
     "new": "(f\"{name}={defaults.get(name)!r}\" if defaults else name) for name in names)"},
    {"name": "init args sorted", "file": LP, "rule": "template-init",
     "old": "if name in defaults else name) for name in names)", "new": "if name in defaults else name) for name in sorted(names))"},
    {"name": "bits consumes one name", "file": LP, "rule": "template-to-pack-list",
     "old": "        args = []\n        for _ in range(8 if fmt == \"bits\" else 1):\n            name = names[index]",
     "new": "        args = []\n        for _ in range(1):\n            name = names[index]"},
    {"name": "fix_pack applied by instance attribute only", "file": LP, "rule": "template-to-pack-list",
     "old": "            if hasattr(src_cls, \"fix_pack_\" + name):\n                args.append(f\"self.fix_pack_{name}(self.{name})\")",
     "new": "            if hasattr(src_cls, \"fix_pack_\" + name) and index:\n                args.append(f\"self.fix_pack_{name}(self.{name})\")"},
    {"name": "nested list packed as payload", "file": LP, "rule": "interpreter-agrees",
     "old": "derived_fmt = fmt if isinstance(fmt, str) else (\"payload-list\" if isinstance(fmt, list) else \"payload\")",
     "new": "derived_fmt = fmt if isinstance(fmt, str) else \"payload\""},
    {"name": "fix_unpack looked up on wrong prefix", "file": LP, "rule": "template-from-unpack-list",
     "old": "                      if hasattr(src_cls, \"fix_unpack_\" + name)", "new": "                      if hasattr(src_cls, \"fix_pack_\" + name)"},
    {"name": "interpreter packlist fmt differs", "file": LP, "rule": "interpreter-agrees",
     "old": "        if isinstance(fmt, list):\n            return \"payload-list\"\n        return \"payload\"", "new": "        return \"payload\""},
    {"name": "vp_compile takes names from format_list length", "file": LP, "rule": "vp-compile-installs",
     "old": "    exec(_compile_from_unpack_list(vp_definition, vp_definition.names), globals(), local_scope)",
     "new": "    exec(_compile_from_unpack_list(vp_definition, vp_definition.names[:len(vp_definition.format_list)]), globals(), local_scope)"},
    {"name": "from_unpack_list not bound to class", "file": LP, "rule": "vp-compile-installs",
     "old": "types.MethodType(local_scope[\"from_unpack_list\"], vp_definition))", "new": "staticmethod(local_scope[\"from_unpack_list\"]))"},
    {"name": "int maps to unregistered format", "file": PD, "rule": "type-map",
     "old": "    if t is int:\n        return \"q\"", "new": "    if t is int:\n        return \"i\""},
    {"name": "dataclass formats from sorted hints", "file": PD, "rule": "type-map",
     "old": "    dataclass_type.format_list = [type_map(type_hints[field.name]) for field in  # type: ignore[attr-defined]\n                                  dt_fields]",
     "new": "    dataclass_type.format_list = [type_map(type_hints[name]) for name in  # type: ignore[attr-defined]\n                                  sorted(type_hints)]"},
]
