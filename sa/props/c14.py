"""C14 - The DHT routing table stays a valid Kademlia tree."""
from __future__ import annotations

import ast

from ..core import Ctx
from ..match import Fact, _atoms_with_polarity, arg, call_name, facts_at, local_defs, resolve, single_def
from ..model import NOCONST, AnalysisError, FuncInfo, ancestors, chain, clone, const_value, enclosing_stmt, norm, parent, set_parents, strip_cast, \
    walk_no_nested

LEVEL = "other"
EXPLANATION = (
    "Local guards from which the tree invariants follow by induction over add/split/remove: a node is stored in a bucket "
    "only under bucket.owns(node.id) and len(nodes) < max_size (and nowhere outside Bucket.add); split happens only under "
    "bucket.owns(my_node_id) after Bucket.add refused the node, stores prefix+'0' -> first half and prefix+'1' -> second "
    "half (from Bucket.split, which redistributes through owns), deletes the parent afterwards on every path and then "
    "retries; Trie.__delitem__ never returns without having cleared the value; owns is a prefix test on the 160-bit "
    "binary id; closest_nodes walks the subtrees from the longest prefix outwards, leaves the walk only after a complete "
    "level and once it holds at least max_nodes live nodes, admits no BAD node, never compares a table entry with the excluded node as objects (Peer "
    "equality is by public key and would drop every entry of that key; the node to leave out is told apart by its id), "
    "sorts by XOR distance to the target and truncates; early-bound callables (`f = X.m`, also unpacked from a tuple) are "
    "respelled as the chain they stand for when the root is bound once before and no attribute of the chain is ever "
    "assigned outside constructors, and X.__getitem__/__setitem__/__delitem__/__contains__ calls as the subscript / "
    "assignment / del / `in` they perform; the refresh id is the bucket's prefix followed by 160-len(prefix) random bits (taint: the prefix "
    "characters, not just its length, flow into the result). Constructs are recognised by what they compute: guards are "
    "dominating CFG conditions closed under flag / decision locals (all assignments, checked against intervening "
    "mutations), predicate helpers, closures, lambdas, generators and filters; stores, calls and exits are followed "
    "into the private helpers of the call tree with parameters bound to the caller's arguments; loops over literal "
    "sequences are unrolled; values are followed through all reaching definitions. A guard that is missing where the "
    "construct IS recognised is a violation; a construct that is not recognisable at all (state machine, match "
    "statement, recursion instead of the level loop, arithmetic re-implementation of a string test) is reported as "
    "undecided. The identifier a table splits along (RoutingTable.my_node_id) is written only while the table is "
    "constructed; every caller of Bucket.generate_id() calls it on a bucket that is current at the call (not on a loop "
    "variable left over from a loop that does not contain the call), so the id refreshes the bucket that is stamped. "
    "Every use of the trie in RoutingTable.add's call tree (the bucket lookup included) lies inside one `with self.lock:` "
    "region, so lookup, split and write-back are atomic with respect to other threads. "
    "Entries leave a node table only in Bucket.add (eviction from a full bucket) and - BAD nodes only - in "
    "remove_bad_nodes or a method it delegates to (every other function of the module that removes entries is held to "
    "the BAD-only condition, a remover keyed by a parameter is decided in its callers' call trees). "
    "Spellings that need library knowledge (operator.* functions, methodcaller / attrgetter / itemgetter / partial "
    "objects, map over one iterable, contextlib.suppress, Enum members, match statements with sequence / class "
    "patterns, `x is True` on boolean values, small record and callable classes of the module) are rewritten into "
    "plain syntax on a private copy of the two DHT modules before the rules run; several tests of one decision local "
    "are combined, components of a helper's result object / tuple are followed into the helper's returns, a callable "
    "picked from a conditional expression or a dispatch table stands for every member of the table, and a method that "
    "only one class of the module defines is followed on a local receiver. Tree shape over long histories is not executed."
)

RT = "ipv8/dht/routing.py"
TRIE = "ipv8/dht/trie.py"

_COMPS = (ast.ListComp, ast.SetComp, ast.GeneratorExp)
_FUNCS = (ast.FunctionDef, ast.AsyncFunctionDef)


# ----------------------------------------------------------------------------------- expression helpers
def _copy(e):
    """Copy of the syntax fields only (never follows the engine's `_parent` back-links)."""
    return clone(e)


def _expand(fi: FuncInfo, e: ast.AST, stop=(), depth: int = 6) -> ast.AST:
    """Copy of e with single-assignment locals (not in `stop`) replaced by their defining expression."""
    class T(ast.NodeTransformer):
        def visit_Name(self, n):
            if depth > 0 and isinstance(n.ctx, ast.Load) and n.id not in stop:
                d = single_def(fi, n.id)
                if d is not None and d[1] is None and not isinstance(strip_cast(d[0]), (ast.Lambda, ast.Yield, ast.YieldFrom, ast.Await)):
                    return _expand(fi, strip_cast(d[0]), stop, depth - 1)
                if d is not None and isinstance(d[1], int):
                    el = _elem_of_name(fi, n.id)                         # a, b = <statically known sequence>
                    if el is not None and not (isinstance(el, ast.Subscript) and isinstance(el.value, ast.Name) and el.value.id == n.id):
                        return _expand(fi, strip_cast(el), stop, depth - 1)
            return n
    return T().visit(_copy(e))


def _xnorm(fi: FuncInfo, e: ast.AST, stop=()) -> str:
    return norm(_expand(fi, e, stop))


def _subst(e: ast.AST, env: dict[str, ast.AST]) -> ast.AST:
    class T(ast.NodeTransformer):
        def visit_Name(self, n):
            if isinstance(n.ctx, ast.Load) and n.id in env:
                return _copy(env[n.id])
            return n
    return T().visit(_copy(e))


def _names_shape(e: ast.AST):
    """Name structure of a (possibly nested tuple) binding target / identity element, None if anything else."""
    if isinstance(e, ast.Name):
        return e.id
    if isinstance(e, (ast.Tuple, ast.List)):
        parts = [_names_shape(x) for x in e.elts]
        return None if any(p is None for p in parts) else tuple(parts)
    return None


def _target_names(t: ast.AST) -> set[str]:
    return {n.id for n in ast.walk(t) if isinstance(n, ast.Name)}


def _strip_snapshot(e: ast.AST) -> ast.AST:
    """list(x) / tuple(x) of one positional argument keep the elements and their order."""
    while isinstance(e, ast.Call) and isinstance(e.func, ast.Name) and e.func.id in ("list", "tuple") and len(e.args) == 1 and not e.keywords \
            and not isinstance(e.args[0], ast.Starred):
        e = e.args[0]
    return e


def _strip_collection_wrap(e: ast.AST) -> ast.AST:
    while isinstance(e, ast.Call) and isinstance(e.func, ast.Name) and e.func.id in ("set", "frozenset", "list", "tuple", "iter") and len(e.args) == 1 \
            and not e.keywords and not isinstance(e.args[0], ast.Starred):
        e = e.args[0]
    return e


def _fkey(f: Fact):
    return (f.op, norm(f.left), norm(f.right) if f.right is not None else None, f.pos)


def _intersect(per: list[list[Fact]]) -> list[Fact]:
    if not per:
        return []
    keys = [{_fkey(f) for f in fs} for fs in per[1:]]
    return [f for f in per[0] if all(_fkey(f) in k for k in keys)]


def _fold(e: ast.AST) -> ast.AST:
    """Constant folding of the few spellings a literal can take after unrolling: 'ab'[0], ('a','b')[1], str(0), 'a'+'b', f'{"a"}'."""
    class T(ast.NodeTransformer):
        def visit_Subscript(self, n):
            self.generic_visit(n)
            i = const_value(n.slice)
            if isinstance(i, int) and not isinstance(i, bool):
                v = n.value
                if isinstance(v, ast.Constant) and isinstance(v.value, (str, tuple)) and -len(v.value) <= i < len(v.value):
                    return ast.copy_location(ast.Constant(value=v.value[i]), n)
                if isinstance(v, (ast.Tuple, ast.List)) and not any(isinstance(x, ast.Starred) for x in v.elts) and -len(v.elts) <= i < len(v.elts):
                    return v.elts[i]
            return n

        def visit_Call(self, n):
            self.generic_visit(n)
            if isinstance(n.func, ast.Name) and n.func.id == "str" and len(n.args) == 1 and not n.keywords and isinstance(n.args[0], ast.Constant) \
                    and isinstance(n.args[0].value, (int, str)) and not isinstance(n.args[0].value, bool):
                return ast.copy_location(ast.Constant(value=str(n.args[0].value)), n)
            return n

        def visit_BinOp(self, n):
            self.generic_visit(n)
            if isinstance(n.op, ast.Add) and isinstance(n.left, ast.Constant) and isinstance(n.right, ast.Constant) \
                    and isinstance(n.left.value, str) and isinstance(n.right.value, str):
                return ast.copy_location(ast.Constant(value=n.left.value + n.right.value), n)
            return n
    return T().visit(e)


def _str_parts(e: ast.AST) -> list | None:
    """A string built by + / f-string as a list of parts: str for literal text, ('e', normalised text) for an expression."""
    e = _fold(_copy(e))
    out: list = []

    def add(x) -> bool:
        if isinstance(x, ast.Constant) and isinstance(x.value, (str, int)) and not isinstance(x.value, bool):
            s = str(x.value)
            if out and isinstance(out[-1], str):
                out[-1] += s
            elif s:
                out.append(s)
            return True
        if isinstance(x, ast.BinOp) and isinstance(x.op, ast.Add):
            return add(x.left) and add(x.right)
        if isinstance(x, ast.JoinedStr):
            for v in x.values:
                if isinstance(v, ast.FormattedValue):
                    if v.conversion != -1 or v.format_spec is not None:
                        return False
                    if not add(v.value):
                        return False
                elif not add(v):
                    return False
            return True
        if isinstance(x, ast.Call) and isinstance(x.func, ast.Attribute) and x.func.attr == "join" and const_value(x.func.value) == "" and len(x.args) == 1 \
                and isinstance(x.args[0], (ast.Tuple, ast.List)) and not x.keywords and not any(isinstance(y, ast.Starred) for y in x.args[0].elts):
            return all(add(y) for y in x.args[0].elts)
        if isinstance(x, ast.Call) and isinstance(x.func, ast.Attribute) and x.func.attr == "format" and isinstance(const_value(x.func.value), str) \
                and not x.keywords and const_value(x.func.value) == "{}" * len(x.args) and not any(isinstance(y, ast.Starred) for y in x.args):
            return all(add(y) for y in x.args)
        if isinstance(x, (ast.Name, ast.Attribute, ast.Subscript, ast.Call)):
            out.append(("e", norm(x)))
            return True
        return False
    return out if add(e) else None


# ----------------------------------------------------------------------------------- statically known sequences
def _is_split_call(e: ast.AST) -> bool:
    return isinstance(e, ast.Call) and isinstance(e.func, ast.Attribute) and e.func.attr == "split" and not e.args and not e.keywords \
        and not isinstance(e.func.value, (ast.Constant, ast.JoinedStr))


def _split_of(e: ast.AST) -> ast.Call | None:
    """e is <bucket>.split(), or that call guarded inside the expression (`b.split() if c else None`, `c and b.split()`):
    whenever the value is a pair it is the pair split() returned."""
    e = strip_cast(e)
    if isinstance(e, ast.NamedExpr):
        e = strip_cast(e.value)
    if _is_split_call(e):
        return e
    if isinstance(e, ast.IfExp):
        a, b = strip_cast(e.body), strip_cast(e.orelse)
        for x, y in ((a, b), (b, a)):
            if _is_split_call(x) and isinstance(y, ast.Constant) and not y.value:
                return x
    if isinstance(e, ast.BoolOp) and isinstance(e.op, ast.And) and _is_split_call(strip_cast(e.values[-1])):
        return strip_cast(e.values[-1])
    return None


def _elems(fi: FuncInfo, e: ast.AST, depth: int = 6) -> list[ast.AST] | None:
    """Elements of an expression that statically denotes a sequence of known length (literal, zip/enumerate/reversed of
    such, comprehension over such without filter, the two halves of <bucket>.split()), else None."""
    if depth <= 0 or e is None:
        return None
    e = _strip_snapshot(strip_cast(e))
    if isinstance(e, ast.Constant) and isinstance(e.value, str):
        return [ast.copy_location(ast.Constant(value=c), e) for c in e.value] if len(e.value) <= 8 else None
    if isinstance(e, (ast.Tuple, ast.List)):
        return None if any(isinstance(x, ast.Starred) for x in e.elts) or len(e.elts) > 8 else list(e.elts)
    if isinstance(e, ast.Name):
        d = single_def(fi, e.id)
        if d is None:
            return None
        if d[1] is None:
            v = strip_cast(d[0])
            if _split_of(v) is not None:
                return [ast.copy_location(ast.Subscript(value=ast.Name(id=e.id, ctx=ast.Load()), slice=ast.Constant(value=i), ctx=ast.Load()), e) for i in (0, 1)]
            return _elems(fi, v, depth - 1)
        outer = _elems(fi, d[0], depth - 1)
        if outer is not None and isinstance(d[1], int) and d[1] < len(outer):
            return _elems(fi, outer[d[1]], depth - 1)
        return None
    if isinstance(e, ast.Subscript):
        i = const_value(e.slice)
        pairs = _dict_pairs(fi, e.value, depth - 1) if isinstance(i, str) else None
        if pairs is not None:
            hit = [v for k, v in pairs if const_value(k) == i]
            return _elems(fi, hit[-1], depth - 1) if hit else None
        base = _elems(fi, e.value, depth - 1)
        if base is not None and isinstance(i, int) and -len(base) <= i < len(base):
            return _elems(fi, base[i], depth - 1)
        return None
    nt = _namedtuple_values(fi, e)
    if nt is not None:
        return nt
    if isinstance(e, ast.Call) and not e.keywords and not any(isinstance(a, ast.Starred) for a in e.args):
        c = chain(e.func)
        if c == "zip" and e.args:
            cols = [_elems(fi, a, depth - 1) for a in e.args]
            if any(col is None for col in cols):
                return None
            n = min(len(col) for col in cols)
            return [ast.copy_location(ast.Tuple(elts=[col[i] for col in cols], ctx=ast.Load()), e) for i in range(n)]
        if c == "enumerate" and 1 <= len(e.args) <= 2:
            col = _elems(fi, e.args[0], depth - 1)
            start = const_value(e.args[1]) if len(e.args) == 2 else 0
            if col is None or not isinstance(start, int):
                return None
            return [ast.copy_location(ast.Tuple(elts=[ast.Constant(value=start + i), x], ctx=ast.Load()), e) for i, x in enumerate(col)]
        if c == "reversed" and len(e.args) == 1:
            col = _elems(fi, e.args[0], depth - 1)
            return None if col is None else list(reversed(col))
        if c == "range" and 1 <= len(e.args) <= 3:
            vals = [const_value(a) for a in e.args]
            if all(isinstance(v, int) for v in vals) and len(range(*vals)) <= 8:
                return [ast.copy_location(ast.Constant(value=i), e) for i in range(*vals)]
            return None
        if isinstance(e.func, ast.Attribute) and e.func.attr in ("items", "values", "keys") and not e.args:
            pairs = _dict_pairs(fi, e.func.value, depth - 1)
            if pairs is None:
                return None
            if e.func.attr == "keys":
                return [k for k, _v in pairs]
            if e.func.attr == "values":
                return [v for _k, v in pairs]
            return [ast.copy_location(ast.Tuple(elts=[k, v], ctx=ast.Load()), e) for k, v in pairs]
        if _is_split_call(e):
            return [ast.copy_location(ast.Subscript(value=e, slice=ast.Constant(value=i), ctx=ast.Load()), e) for i in (0, 1)]
        return None
    if isinstance(e, (ast.ListComp, ast.GeneratorExp)) and len(e.generators) == 1 and not e.generators[0].ifs and not e.generators[0].is_async:
        g = e.generators[0]
        col = _elems(fi, g.iter, depth - 1)
        if col is None:
            return None
        out = []
        for x in col:
            b = _bind(g.target, x)
            if b is None:
                return None
            out.append(_fold(_subst(e.elt, b)))
        return out
    return None


def _namedtuple_fields(fi: FuncInfo, name: str) -> list[str] | None:
    """field names (in order) of a NamedTuple class of fi's module"""
    ci = fi.module.classes.get(name)
    if ci is None or not any((chain(b) or "").split(".")[-1] == "NamedTuple" for b in ci.node.bases):
        return None
    lay = _class_layout(fi.module, ci.node)
    return list(lay[2]) if lay is not None else None


def _namedtuple_values(fi: FuncInfo, e: ast.AST) -> list[ast.AST] | None:
    """Rec(a, b) / Rec(x=a, y=b) with Rec a NamedTuple of the module: the tuple (a, b) it is"""
    if not (isinstance(e, ast.Call) and isinstance(e.func, ast.Name)) or _namedtuple_fields(fi, e.func.id) is None:
        return None
    fm = _bind_record(_class_layout(fi.module, fi.module.classes[e.func.id].node), e)
    return list(fm.values()) if fm is not None else None


def _dict_pairs(fi: FuncInfo, e: ast.AST, depth: int) -> list[tuple[ast.AST, ast.AST]] | None:
    """(key, value) expressions of a dict literal / dict(<static pairs>) / dict comprehension over a static sequence,
    possibly held in a single-assignment local that is not modified (insertion order = iteration order)"""
    e = strip_cast(e)
    if depth <= 0:
        return None
    if isinstance(e, ast.Name):
        d = single_def(fi, e.id)
        if d is None or d[1] is not None:
            return None
        for n in walk_no_nested(fi.node):
            if isinstance(n, ast.Subscript) and isinstance(n.ctx, (ast.Store, ast.Del)) and isinstance(n.value, ast.Name) and n.value.id == e.id:
                return None
            if isinstance(n, ast.Call) and isinstance(n.func, ast.Attribute) and isinstance(n.func.value, ast.Name) and n.func.value.id == e.id \
                    and n.func.attr in _DICT_MUTATORS:
                return None
        return _dict_pairs(fi, d[0], depth - 1)
    if isinstance(e, ast.Dict):
        if any(k is None for k in e.keys) or len(e.keys) > 8:
            return None
        return list(zip(e.keys, e.values))
    if isinstance(e, ast.Call) and chain(e.func) == "dict" and len(e.args) == 1 and not e.keywords:
        col = _elems(fi, e.args[0], depth - 1)
        if col is None or not all(isinstance(x, (ast.Tuple, ast.List)) and len(x.elts) == 2 for x in col):
            return None
        return [(x.elts[0], x.elts[1]) for x in col]
    if isinstance(e, ast.DictComp) and len(e.generators) == 1 and not e.generators[0].ifs and not e.generators[0].is_async:
        g = e.generators[0]
        col = _elems(fi, g.iter, depth - 1)
        if col is None:
            return None
        out = []
        for x in col:
            b = _bind(g.target, x)
            if b is None:
                return None
            out.append((_fold(_subst(e.key, b)), _fold(_subst(e.value, b))))
        return out
    return None


_DICT_MUTATORS = {"pop", "popitem", "clear", "update", "setdefault", "__setitem__", "__delitem__"}


def _bind(target: ast.AST, elem: ast.AST) -> dict[str, ast.AST] | None:
    """Loop target := element, as a substitution of the target's names."""
    if isinstance(target, ast.Name):
        return {target.id: elem}
    if isinstance(target, (ast.Tuple, ast.List)) and not any(isinstance(t, ast.Starred) for t in target.elts):
        out: dict[str, ast.AST] = {}
        for i, t in enumerate(target.elts):
            if isinstance(elem, (ast.Tuple, ast.List)) and len(elem.elts) == len(target.elts):
                sub = elem.elts[i]
            else:
                sub = ast.Subscript(value=elem, slice=ast.Constant(value=i), ctx=ast.Load())
            b = _bind(t, sub)
            if b is None:
                return None
            out.update(b)
        return out
    return None


def _elem_of_name(fi: FuncInfo, name: str) -> ast.AST | None:
    """`a, b = <static sequence>`: the element bound to the name."""
    d = single_def(fi, name)
    if d is None or d[1] is None or not isinstance(d[1], int):
        return None
    col = _elems(fi, d[0])
    return col[d[1]] if col is not None and d[1] < len(col) else None


_VIEWS: dict = {}


def _view(ctx: Ctx, fi: FuncInfo) -> FuncInfo:
    """The function with every `for` over a statically known sequence unrolled (no break/continue/else, targets not
    rebound): the same statements in the same order, so verdicts about the view are verdicts about the function."""
    cache = ctx.__dict__.setdefault("_c14_views", {})      # (not ctx.extra: that is written to the evidence file)
    if id(fi.node) in cache:
        return cache[id(fi.node)]
    changed = [False]

    def own_jump(stmts) -> bool:
        """a break / continue that belongs to this loop"""
        todo = list(stmts)
        while todo:
            n = todo.pop()
            if isinstance(n, (ast.Break, ast.Continue)):
                return True
            if isinstance(n, (ast.For, ast.AsyncFor, ast.While, *_FUNCS, ast.ClassDef, ast.Lambda)):
                todo.extend(getattr(n, "orelse", []) if not isinstance(n, (*_FUNCS, ast.ClassDef, ast.Lambda)) else [])
                continue
            todo.extend(ast.iter_child_nodes(n))
        return False

    def unroll(stmts: list) -> list:
        out = []
        for st in stmts:
            for f in ("body", "orelse", "finalbody"):
                if isinstance(getattr(st, f, None), list) and not isinstance(st, (*_FUNCS, ast.ClassDef)) and getattr(st, f) \
                        and isinstance(getattr(st, f)[0], ast.stmt):
                    setattr(st, f, unroll(getattr(st, f)))
            for h in getattr(st, "handlers", []) or []:
                h.body = unroll(h.body)
            if isinstance(st, ast.For) and not st.orelse and not own_jump(st.body):
                col = _elems(fi, _orig.get(id(st.iter), st.iter))
                names = _target_names(st.target)
                rebound = any(isinstance(n, ast.Name) and isinstance(n.ctx, (ast.Store, ast.Del)) and n.id in names for s in st.body for n in ast.walk(s))
                if col is not None and not rebound:
                    binds = [_bind(st.target, x) for x in col]
                    if all(b is not None for b in binds):
                        for b in binds:
                            for s in st.body:
                                new = _fold(_subst(s, b))
                                ast.copy_location(new, s)
                                out.append(new)
                        changed[0] = True
                        continue
            out.append(st)
        return out

    # _elems resolves names in the original function (single_def needs its FuncInfo); map cloned iter nodes back to the originals
    node = clone(fi.node)
    _orig: dict[int, ast.AST] = {}
    for a, b in zip(ast.walk(fi.node), ast.walk(node)):
        _orig[id(b)] = a
    node.body = unroll(node.body)
    if not changed[0]:
        cache[id(fi.node)] = fi
        return fi
    ast.fix_missing_locations(node)
    set_parents(node)
    v = FuncInfo(fi.name, fi.qualname, node, fi.module, fi.cls)
    cache[id(fi.node)] = v
    cache[id(node)] = v
    return v


# ----------------------------------------------------------------------------------- callee resolution, frames
def _rt_function(ctx: Ctx, name: str) -> FuncInfo:
    """The module-level function `name` of dht/routing.py - where it is defined, or (moved to another module of the
    repository and imported back under the same name) the function the import denotes."""
    m = ctx.repo.module(RT)
    g = m.functions.get(name)
    if g is None and name in m.imports:
        r = ctx.repo.resolve_name(m, name)
        if isinstance(r, FuncInfo) and r.cls is None:
            g = r
    if g is None:
        raise AnalysisError(f"anchor-lost: function {name} in {RT}")
    return g


def _info_for(ctx: Ctx, node, fi: FuncInfo) -> FuncInfo:
    got = getattr(node, "_info", None)
    if got is not None:
        return got
    cache = ctx.__dict__.setdefault("_c14_infos", {})
    if id(node) not in cache:
        cache[id(node)] = FuncInfo(node.name, fi.qualname + "." + node.name, node, fi.module, fi.cls)
    return cache[id(node)]


def _callee(ctx: Ctx, fi: FuncInfo, call: ast.Call):
    """The function a call runs, when it is decidable from the syntax: a closure of fi, a lambda held in a local, a function
    of the same module, a method of fi's class called on self / the class.  (FuncInfo | ast.Lambda | None, binds_self)"""
    f = call.func
    if isinstance(f, ast.Lambda):
        return f, False
    if isinstance(f, ast.Name):
        for n in walk_no_nested(fi.node):
            if isinstance(n, _FUNCS) and n is not fi.node and n.name == f.id:
                return _info_for(ctx, n, fi), False
        d = single_def(fi, f.id)
        if d is not None and d[1] is None and isinstance(strip_cast(d[0]), ast.Lambda):
            return strip_cast(d[0]), False
        if d is not None and d[1] is None and isinstance(strip_cast(d[0]), ast.Call) and isinstance(strip_cast(d[0]).func, ast.Name) \
                and strip_cast(d[0]).func.id in fi.module.classes and not local_defs(fi, strip_cast(d[0]).func.id):
            # x = Cls(...); x(...) runs Cls.__call__ (self is the instance: its fields are not followed)
            m = fi.module.classes[strip_cast(d[0]).func.id].lookup("__call__")
            if m is not None and m.module is fi.module and not ({"staticmethod", "classmethod"} & set(m.decorator_names())):
                return m, True
        # a closure defined in the enclosing function (fi itself nested)
        for a in ancestors(fi.node):
            if isinstance(a, _FUNCS):
                for n in walk_no_nested(a):
                    if isinstance(n, _FUNCS) and n is not a and n.name == f.id:
                        return _info_for(ctx, n, fi), False
        g = fi.module.functions.get(f.id)
        if g is not None:
            return g, False
        if f.id in fi.module.imports and f.id not in fi.params() and not local_defs(fi, f.id):
            g = ctx.repo.resolve_name(fi.module, f.id)                    # a helper that lives in another module of the repository
            if isinstance(g, FuncInfo):
                return g, False
        return None, False
    if isinstance(f, ast.Attribute) and isinstance(f.value, ast.Name) and f.value.id in fi.module.imports and f.value.id not in fi.params() \
            and not local_defs(fi, f.value.id):
        r = ctx.repo.resolve_name(fi.module, f.value.id)                  # helpers_module.helper(...)
        if isinstance(r, tuple) and r[0] == "module" and r[1] is not None:
            g = r[1].functions.get(f.attr)
            return (g, False) if g is not None else (None, False)
    if isinstance(f, ast.Attribute) and isinstance(f.value, ast.Name) and fi.cls is not None:
        if f.value.id in ("self", "cls") or f.value.id == fi.cls.name:
            m = fi.cls.lookup(f.attr)
            if m is not None and m.module is fi.module:
                static = "staticmethod" in m.decorator_names()
                return m, (not static and f.value.id != fi.cls.name) or ("classmethod" in m.decorator_names())
    if isinstance(f, ast.Attribute) and not (isinstance(f.value, ast.Name) and f.value.id in ("self", "cls")):
        # <object>.m(...): m is defined by exactly one class of this module and either no built-in container / string has a
        # method of that name, or the receiver is a local that is visibly used as an instance of that class (its other
        # attribute uses are all members of the class): the call can only run that method (on the receiver as self)
        owners = [c for c in fi.module.classes.values() if f.attr in c.methods]
        if len(owners) == 1 and not (isinstance(f.value, ast.Name) and f.value.id in fi.module.imports) \
                and (not _builtin_method(f.attr) or (isinstance(f.value, ast.Name) and _used_as_instance(fi, f.value.id, owners[0], call))
                     or _expr_class(fi, f.value) == owners[0].name):
            m = owners[0].methods[f.attr]
            if not ({"staticmethod", "classmethod"} & set(m.decorator_names())) and m.params():
                return m, True
    return None, False


def _anchor_method(ctx: Ctx, clsname: str, meth: str) -> FuncInfo:
    """The reviewed method - or, when it became a thin delegation (its whole body, apart from the docstring and an
    enclosing `with <attribute>:`, is `return <helper>(<its own parameters, each once, under the same names>)`), the
    helper that now holds the body: method of the same class / a base class, or a function taking the object.  The names
    of the functions passed through are kept (a recursive call of any of them re-enters the same body)."""
    fi = ctx.repo.method(clsname, meth, RT)
    names = {fi.name}
    for _ in range(3):
        body = [st for st in fi.node.body if not (isinstance(st, ast.Expr) and isinstance(st.value, ast.Constant))]
        while len(body) == 1 and isinstance(body[0], ast.With) and all(isinstance(strip_cast(it.context_expr), ast.Attribute) and it.optional_vars is None
                                                                       for it in body[0].items):
            body = body[0].body
        if not (len(body) == 1 and isinstance(body[0], ast.Return) and isinstance(body[0].value, ast.Call)):
            break
        call = body[0].value
        target, binds_self = _callee(ctx, fi, call)
        if not isinstance(target, FuncInfo) or target.node is fi.node or target.is_async != fi.is_async or _is_generator(target.node):
            break
        env = _bind_args(target.node, call, binds_self)
        if env is None or set(env) != set(target.params()) or target.params() != fi.params() \
                or not all(isinstance(v, ast.Name) and v.id == k for k, v in env.items()):
            break
        fi = target
        names.add(fi.name)
    ctx.extra.setdefault("c14_reentry", {})[id(fi.node)] = names
    return fi


def _expr_class(fi: FuncInfo, e: ast.AST, depth: int = 3) -> str | None:
    """the class of this module an expression is declared to be: an annotated parameter, Cls(...), the declared result of
    a function / own method, a single-assignment local holding one of those"""
    e = strip_cast(e)
    if depth <= 0:
        return None

    def named(ann) -> str | None:
        if ann is None:
            return None
        t = norm(ann).strip("'\"")
        parts = [x.strip() for x in t.replace("Optional[", "").rstrip("]").split("|")]
        real = [x for x in parts if x != "None"]
        return real[0] if len(real) == 1 and real[0] in fi.module.classes else None
    if isinstance(e, ast.Name):
        a = next((x for x in fi.node.args.posonlyargs + fi.node.args.args + fi.node.args.kwonlyargs if x.arg == e.id), None)
        if a is not None:
            return named(a.annotation)
        d = single_def(fi, e.id)
        return _expr_class(fi, d[0], depth - 1) if d is not None and d[1] is None else None
    if isinstance(e, ast.Call):
        if isinstance(e.func, ast.Name) and e.func.id in fi.module.classes:
            return e.func.id
        t = None
        if isinstance(e.func, ast.Name):
            t = fi.module.functions.get(e.func.id)
        elif isinstance(e.func, ast.Attribute) and isinstance(e.func.value, ast.Name) and e.func.value.id in ("self", "cls") and fi.cls is not None:
            t = fi.cls.lookup(e.func.attr)
        return named(t.node.returns) if t is not None else None
    return None


def _members(ci) -> set[str]:
    """method names, class attributes and the instance attributes the class's own methods store on self"""
    got = getattr(ci, "_c14_members", None)
    if got is None:
        got = set()
        for c in ci.mro():
            got |= set(c.methods) | set(c.attrs) | set(c.annotations)
            for m in c.methods.values():
                me = m.params()[0] if m.params() else None
                for n in ast.walk(m.node):
                    if isinstance(n, ast.Attribute) and isinstance(n.ctx, ast.Store) and isinstance(n.value, ast.Name) and n.value.id == me:
                        got.add(n.attr)
        ci._c14_members = got
    return got


def _used_as_instance(fi: FuncInfo, name: str, ci, but: ast.AST) -> bool:
    """every attribute the local is used with (apart from the call in question) is a member of the class, and at least one
    of them is a name no built-in container has; or the parameter is annotated with the class"""
    ann = next((a.annotation for a in fi.node.args.posonlyargs + fi.node.args.args + fi.node.args.kwonlyargs if a.arg == name and a.annotation is not None), None)
    if ann is not None and norm(ann).strip("'\"") == ci.name:
        return True
    uses = [n for n in ast.walk(fi.node) if isinstance(n, ast.Attribute) and isinstance(n.value, ast.Name) and n.value.id == name and n is not getattr(but, "func", None)]
    mem = _members(ci)
    return bool(uses) and all(u.attr in mem for u in uses) and any(not _builtin_method(u.attr) for u in uses)


def _builtin_method(name: str) -> bool:
    return any(hasattr(t, name) for t in (dict, list, set, frozenset, str, bytes, bytearray, tuple, int, float, object)) or name in (
        "appendleft", "popleft", "acquire", "release", "put", "get_nowait", "info", "debug", "warning", "error", "exception", "done", "result", "cancel")


def _property_call(ctx: Ctx, fi: FuncInfo, e: ast.AST) -> ast.Call | None:
    """<object>.<name> where <name> is a @property of the (only) class of this module that defines it: the call it performs"""
    e = strip_cast(e)
    if not (isinstance(e, ast.Attribute) and isinstance(e.ctx, ast.Load)):
        return None
    call = ast.copy_location(ast.Call(func=e, args=[], keywords=[]), e)
    t, _bs = _callee(ctx, fi, call)
    if isinstance(t, FuncInfo) and "property" in t.decorator_names() and len(t.params()) == 1:
        return call
    return None


def _callable_leaves(fi: FuncInfo, e: ast.AST, depth: int = 4) -> list[ast.AST] | None:
    """The expressions a called value can stand for when it is picked from a closed set: a conditional expression, `a or b`,
    a subscript / .get() of a dict or tuple literal (dispatch table), a local assigned such values (all assignments).
    None when the set is not closed (parameter, computed value)."""
    e = strip_cast(e)
    if depth <= 0:
        return None
    if isinstance(e, ast.IfExp):
        a, b = _callable_leaves(fi, e.body, depth - 1), _callable_leaves(fi, e.orelse, depth - 1)
        return None if a is None or b is None else a + b
    if isinstance(e, ast.BoolOp) and isinstance(e.op, ast.Or):
        parts = [_callable_leaves(fi, v, depth - 1) for v in e.values]
        return None if any(x is None for x in parts) else [y for x in parts for y in x]
    def table(t: ast.AST):
        """the table expression itself, or the class-level / module-level constant it names"""
        t = strip_cast(t)
        if isinstance(t, ast.Attribute) and isinstance(t.value, ast.Name) and fi.cls is not None and t.value.id in ("self", "cls", fi.cls.name):
            x = next((c.attrs[t.attr] for c in fi.cls.mro() if t.attr in c.attrs), None)
            return (x, True) if x is not None else (t, False)
        if isinstance(t, ast.Name) and not local_defs(fi, t.id) and t.id not in fi.params() and t.id in fi.module.constants:
            return fi.module.constants[t.id], False
        return t, False

    def members(vals, in_class: bool):
        out = []
        for v in vals:
            v = strip_cast(v)
            if in_class and isinstance(v, ast.Name) and fi.cls is not None and fi.cls.lookup(v.id) is not None:
                v = ast.copy_location(ast.Attribute(value=ast.Name(id=fi.cls.name, ctx=ast.Load()), attr=v.id, ctx=ast.Load()), v)   # a method named in the class body
            x = _callable_leaves(fi, v, depth - 1)
            if x is None:
                return None
            out.extend(x)
        return out
    if isinstance(e, ast.Subscript):
        t, in_class = table(e.value)
        pairs = _dict_pairs(fi, t, depth)
        vals = [v for _k, v in pairs] if pairs is not None else _elems(fi, t, depth)
        return None if vals is None else members(vals, in_class)
    if isinstance(e, ast.Call) and isinstance(e.func, ast.Attribute) and e.func.attr == "get" and len(e.args) == 2 and not e.keywords:
        t, in_class = table(e.func.value)
        pairs = _dict_pairs(fi, t, depth)
        return None if pairs is None else members([*[v for _k, v in pairs], e.args[1]], in_class)
    if isinstance(e, ast.Name) and e.id not in fi.params():
        defs = local_defs(fi, e.id)
        if not defs:
            return [e]
        if any(v is None or idx is not None for _st, v, idx in defs):
            return None
        return members([v for _st, v, _i in defs], False)
    if isinstance(e, (ast.Name, ast.Attribute, ast.Lambda)):
        return [e]
    return None


def _callees(ctx: Ctx, fi: FuncInfo, call: ast.Call) -> list[tuple[object, bool, ast.Call]]:
    """(target, binds_self, the call as if it named that target) for every function the call can run: the one _callee
    finds, or - for a callable picked from a closed set (conditional expression, dispatch table) - each member of the set"""
    t, bs = _callee(ctx, fi, call)
    if t is not None:
        return [(t, bs, call)]
    if isinstance(call.func, (ast.Attribute, ast.Lambda)):
        return []
    leaves = _callable_leaves(fi, call.func)
    if not leaves or any(l is call.func for l in leaves):
        return []
    out = []
    for l in leaves:
        c2 = ast.copy_location(ast.Call(func=l, args=call.args, keywords=call.keywords), call)
        t, bs = _callee(ctx, fi, c2)
        if t is None:
            return []                                                     # one member is not visible: the set is not decided
        out.append((t, bs, c2))
    return out


def _bind_args(fn, call: ast.Call, binds_self: bool) -> dict[str, ast.AST] | None:
    """parameter name -> argument expression (caller's vocabulary); None when not decidable (star args)."""
    a = fn.args
    if a.vararg or a.kwarg or any(isinstance(x, ast.Starred) for x in call.args) or any(k.arg is None for k in call.keywords):
        return None
    pos = [x.arg for x in a.posonlyargs + a.args]
    env: dict[str, ast.AST] = {}
    if binds_self and pos:
        env[pos[0]] = call.func.value if isinstance(call.func, ast.Attribute) else ast.Name(id="self", ctx=ast.Load())
        pos = pos[1:]
    if len(call.args) > len(pos):
        return None
    for p, x in zip(pos, call.args):
        env[p] = x
    for k in call.keywords:
        env[k.arg] = k.value
    defaults = dict(zip([x.arg for x in (a.posonlyargs + a.args)][len(a.posonlyargs + a.args) - len(a.defaults):], a.defaults))
    defaults.update({x.arg: d for x, d in zip(a.kwonlyargs, a.kw_defaults) if d is not None})
    for p in pos + [x.arg for x in a.kwonlyargs]:
        if p not in env:
            if p not in defaults:
                return None
            env[p] = defaults[p]
    return env


def _bound_locals(fn) -> set[str]:
    out = set()
    for n in walk_no_nested(fn):
        if isinstance(n, ast.Name) and isinstance(n.ctx, (ast.Store, ast.Del)):
            out.add(n.id)
        elif isinstance(n, ast.ExceptHandler) and n.name:
            out.add(n.name)
    return out


class _Frame:
    """One activation in the call tree below an anchor function: the function, the call site in the parent activation and
    the binding of its parameters to the caller's argument expressions."""

    def __init__(self, ctx: Ctx, fi: FuncInfo, parent_frame: "_Frame | None" = None, site: ast.AST | None = None,
                 raw_env: dict[str, ast.AST] | None = None, alias: dict[str, str] | None = None, stop=()) -> None:
        self.ctx, self.fi, self.parent, self.site = ctx, fi, parent_frame, site
        self.raw_env = raw_env or {}
        self.alias = alias or {}                 # helper local that IS a caller's name after the call returned
        self.stop = tuple(stop) if parent_frame is None else parent_frame.stop
        self.depth = 0 if parent_frame is None else parent_frame.depth + 1
        self.locals = _bound_locals(fi.node) if parent_frame is not None else set()
        self.nested_in_parent = parent_frame is not None and any(a is parent_frame.fi.node for a in ancestors(fi.node))
        self._env: dict[str, ast.AST] | None = None

    def root(self) -> "_Frame":
        f = self
        while f.parent is not None:
            f = f.parent
        return f

    def stack(self) -> list["_Frame"]:
        out, f = [], self
        while f is not None:
            out.append(f)
            f = f.parent
        return out[::-1]

    def tr(self, e: ast.AST, expand: bool = True) -> ast.AST:
        """e in the vocabulary of the anchor function: helper parameters replaced by the (translated) arguments, pure
        single-assignment locals expanded (not the anchor's `stop` names), other helper locals tagged with the helper."""
        if e is None:
            return None
        if self.parent is None:
            return _fold(_expand(self.fi, e, self.stop)) if expand else _copy(e)
        if self._env is None:
            self._env = {p: self.parent.tr(x) for p, x in self.raw_env.items()}
        keep = set(self._env) | set(self.alias)
        e1 = _expand(self.fi, e, tuple(keep)) if expand else _copy(e)
        me = self

        class T(ast.NodeTransformer):
            def __init__(self):
                self.shadow: list[set[str]] = []

            def visit_Name(self, n):
                if any(n.id in s for s in self.shadow):
                    return n
                if n.id in me._env:
                    return _copy(me._env[n.id]) if isinstance(n.ctx, ast.Load) else n
                if n.id in me.alias:
                    return me.parent.name(me.alias[n.id], n.ctx)
                if n.id in me.locals:
                    return ast.copy_location(ast.Name(id=f"{n.id}@{me.fi.name}", ctx=n.ctx), n)
                if me.nested_in_parent and isinstance(n.ctx, ast.Load):
                    return me.parent.tr(n)
                return n

            def visit_Lambda(self, n):
                a = n.args
                self.shadow.append({x.arg for x in a.posonlyargs + a.args + a.kwonlyargs})
                self.generic_visit(n)
                self.shadow.pop()
                return n
        return _fold(T().visit(e1))

    def name(self, ident: str, ctx_=None) -> ast.AST:
        """a bare local of this frame in the anchor's vocabulary, without expansion"""
        if self.parent is None:
            return ast.Name(id=ident, ctx=ctx_ or ast.Load())
        return self.tr(ast.Name(id=ident, ctx=ctx_ or ast.Load()), expand=False)

    def ntr(self, e: ast.AST, expand: bool = True) -> str:
        return norm(self.tr(e, expand))


def _returned_local(fn) -> str | None:
    """the one local name every `return` of fn returns, if that is what fn does"""
    names = set()
    for n in walk_no_nested(fn):
        if isinstance(n, ast.Return):
            if not isinstance(n.value, ast.Name):
                return None
            names.add(n.value.id)
    if len(names) != 1:
        return None
    name = next(iter(names))
    a = fn.args
    return None if name in {x.arg for x in a.posonlyargs + a.args + a.kwonlyargs} else name


def _yield_mirror(fn) -> str | None:
    """A generator that records exactly what it yields in a local set: `S = set()`, and `S.add(x)` right beside every
    `yield x` (same block, same x), S not touched otherwise.  Then S holds exactly the distinct elements produced so far,
    i.e. S is the collection the caller builds from the generator.  Returns S."""
    ys = [n for n in walk_no_nested(fn) if isinstance(n, ast.Yield)]
    if not ys or any(isinstance(n, ast.YieldFrom) for n in walk_no_nested(fn)):
        return None
    cands = None
    for y in ys:
        st = parent(y)
        blk = None
        if not (isinstance(st, ast.Expr) and isinstance(y.value, ast.Name)):
            return None
        holder = parent(st)
        for f in ("body", "orelse", "finalbody"):
            if isinstance(getattr(holder, f, None), list) and st in getattr(holder, f):
                blk = getattr(holder, f)
        if blk is None:
            return None
        here = {c.value.func.value.id for c in blk if isinstance(c, ast.Expr) and isinstance(c.value, ast.Call) and isinstance(c.value.func, ast.Attribute)
                and c.value.func.attr == "add" and isinstance(c.value.func.value, ast.Name) and len(c.value.args) == 1
                and isinstance(c.value.args[0], ast.Name) and c.value.args[0].id == y.value.id}
        cands = here if cands is None else cands & here
    for name in sorted(cands or ()):
        uses = [n for n in walk_no_nested(fn) if isinstance(n, ast.Name) and n.id == name]
        stores_ = [n for n in uses if isinstance(n.ctx, ast.Store)]
        adds = [n for n in walk_no_nested(fn) if isinstance(n, ast.Call) and isinstance(n.func, ast.Attribute) and isinstance(n.func.value, ast.Name)
                and n.func.value.id == name and n.func.attr in _MUTATORS]
        init = [n for n in walk_no_nested(fn) if isinstance(n, (ast.Assign, ast.AnnAssign)) and n.value is not None
                and any(isinstance(t, ast.Name) and t.id == name for t in (n.targets if isinstance(n, ast.Assign) else [n.target]))]
        if len(stores_) == 1 and len(init) == 1 and isinstance(init[0].value, ast.Call) and chain(init[0].value.func) == "set" and not init[0].value.args \
                and len(adds) == len(ys) and all(a.func.attr == "add" for a in adds):
            return name
    return None


def _is_generator(fn) -> bool:
    return any(isinstance(n, (ast.Yield, ast.YieldFrom)) for n in walk_no_nested(fn) if not (isinstance(n, _FUNCS) and n is not fn))


class _Closure:
    """Every syntax node of an anchor function and of the private helpers / closures it calls (call tree, depth-limited,
    recursion cut), each with its frame."""

    def __init__(self, ctx: Ctx, root_fi: FuncInfo, stop=(), unroll: bool = False, maxdepth: int = 3) -> None:
        self.ctx, self.unroll, self.maxdepth = ctx, unroll, maxdepth
        fi = _view(ctx, root_fi) if unroll else root_fi
        self.root = _Frame(ctx, fi, stop=stop)
        self.nodes: list[tuple[_Frame, ast.AST]] = []
        self.frames: list[_Frame] = []
        self.visited: set[int] = {id(root_fi.node)}                      # original (not view) function nodes of the call tree
        self._walk(self.root, {id(root_fi.node), id(fi.node)})

    def _walk(self, fr: _Frame, active: set[int]) -> None:
        self.frames.append(fr)
        self.visited.add(id(fr.fi.node))
        for n in walk_no_nested(fr.fi.node):
            if isinstance(n, (*_FUNCS, ast.Lambda)) and n is not fr.fi.node:
                continue
            self.nodes.append((fr, n))
            for target, binds_self, shaped in (_callees(self.ctx, fr.fi, n) if isinstance(n, ast.Call) and fr.depth < self.maxdepth else ()):
                if not isinstance(target, FuncInfo) or id(target.node) in active or target.is_async:
                    continue                                              # (a generator's body runs while it is iterated: same call tree)
                if isinstance(shaped.func, ast.Attribute) and not (isinstance(shaped.func.value, ast.Name)
                                                                   and shaped.func.value.id in ("self", "cls", fr.fi.cls.name if fr.fi.cls else "")):
                    # a method of another object: followed when the receiver is a plain local / parameter (its `self` is bound to
                    # that expression), so that a guard at the call site and the guarded statement inside the method meet
                    if not binds_self:
                        continue
                env = _bind_args(target.node, shaped, binds_self)
                if env is None:
                    continue
                orig_id = id(target.node)
                if self.unroll:
                    target = _view(self.ctx, target)
                alias = {}
                p = parent(n)
                r = _returned_local(target.node) if not _is_generator(target.node) else _yield_mirror(target.node)
                if r is not None:
                    if isinstance(p, ast.Assign) and p.value is n and len(p.targets) == 1 and isinstance(p.targets[0], ast.Name):
                        alias[r] = p.targets[0].id
                    elif isinstance(p, (ast.AnnAssign, ast.NamedExpr)) and p.value is n and isinstance(p.target, ast.Name):
                        alias[r] = p.target.id
                self.visited.add(orig_id)
                self._walk(_Frame(self.ctx, target, fr, n, env, alias), active | {orig_id, id(target.node)})

    # ---- facts
    def facts(self, fr: _Frame, node: ast.AST) -> list[Fact]:
        """Conditions (anchor vocabulary) that hold whenever `node` of frame fr is evaluated: in its own function and at
        every call site up the call tree."""
        out: list[Fact] = []
        site = node
        while fr is not None:
            for f in _local_facts(self.ctx, fr.fi, site):
                for ex in (True, False):
                    g = Fact(f.op, fr.tr(f.left, ex), fr.tr(f.right, ex) if f.right is not None else None, f.pos, f.atom)
                    out.append(g)
                    if fr.parent is not None and ex and g.op == "truthy" and isinstance(strip_cast(g.left), ast.Call) \
                            and isinstance(strip_cast(f.left), ast.Call) and isinstance(strip_cast(f.left).func, ast.Name) and strip_cast(f.left).func.id in fr.raw_env:
                        # the helper called one of its parameters: after translation it is the caller's predicate
                        out.extend(_predicate_facts(self.ctx, self.root.fi, g))
            site, fr = fr.site, fr.parent
        return out

    def always_followed(self, a: tuple[_Frame, ast.AST], bs: list[tuple[_Frame, ast.AST]]) -> bool:
        """after a has completed normally, every path to the normal end of the activation the events have in common
        passes one of bs (decided in the deepest activation that a shares with all of bs)"""
        if not bs:
            return False
        common = None
        for i, x in enumerate(a[0].stack()):
            if all(len(b[0].stack()) > i and b[0].stack()[i] is x for b in bs):
                common = x
        if common is None:
            return False
        cfg = self.ctx.cfg(common.fi)
        xa = cfg.nodes_for(self.lifted(a[0], a[1], common))
        xb = [n for b in bs for n in cfg.nodes_for(self.lifted(b[0], b[1], common))]
        if not xa or not xb:
            return False
        if any(x in xb for x in xa):
            # both inside the same helper call of the common activation: decide inside the helper when it is one and the same frame
            return False
        return all(cfg.always_followed_by(x, xb) for x in xa)

    def lifted(self, fr: _Frame, node: ast.AST, upto: _Frame) -> ast.AST:
        """the node of frame `upto` (an ancestor activation or fr itself) during whose evaluation `node` runs"""
        while fr is not upto:
            node, fr = fr.site, fr.parent
        return node

    def completes_before(self, a: tuple[_Frame, ast.AST], b: tuple[_Frame, ast.AST]) -> bool:
        """every path to b has completed a (decided in the deepest activation the two have in common)"""
        sa, sb = a[0].stack(), b[0].stack()
        common = None
        for x, y in zip(sa, sb):
            if x is y:
                common = x
        if common is None:
            return False
        na, nb = self.lifted(a[0], a[1], common), self.lifted(b[0], b[1], common)
        cfg = self.ctx.cfg(common.fi)
        xa, xb = cfg.nodes_for(na), cfg.nodes_for(nb)
        if not xa or not xb or any(x in xb for x in xa):
            return False
        return all(cfg.must_complete(y, xa) for y in xb)


def _predicate_facts(ctx: Ctx, fi: FuncInfo, f: Fact) -> list[Fact]:
    """what the (non-)truth of a predicate call says, the predicate being a closure / lambda / method visible in fi"""
    call = strip_cast(f.left)
    pol = f.pos

    def accept(e, pol=pol):
        c = const_value(e)
        return None if c is NOCONST else bool(c) == pol
    return _implied_by_result(ctx, fi, call, accept, pol, 3)


def _deep_resolve(fr: _Frame, e: ast.AST, depth: int = 10, through_stop: bool = False) -> tuple[_Frame, ast.AST]:
    """Follow single-assignment locals and parameter bindings up the call tree."""
    e = strip_cast(e)
    while depth > 0 and isinstance(e, ast.Name):
        depth -= 1
        if fr.parent is None and e.id in fr.stop and not through_stop:
            break
        d = single_def(fr.fi, e.id)
        if d is not None and d[1] is None:
            e = strip_cast(d[0])
            continue
        if fr.parent is not None and e.id in fr.raw_env:
            e, fr = strip_cast(fr.raw_env[e.id]), fr.parent
            continue
        if fr.parent is not None and e.id in fr.alias:
            e, fr = ast.Name(id=fr.alias[e.id], ctx=ast.Load()), fr.parent
            break
        break
    return fr, e


# ----------------------------------------------------------------------------------- facts: derived conditions
_PURE_CALLS = {"len", "isinstance", "bool", "int", "str", "id_to_binary_string", "distance", "time.time", "cast", "format", "min", "max", "abs"}
_PURE_METHODS = {"owns", "startswith", "endswith", "get", "values", "items", "keys"}


_MUTATORS = {"pop", "popitem", "clear", "update", "append", "add", "remove", "discard", "extend", "insert", "setdefault", "sort", "reverse",
             "__setitem__", "__delitem__", "appendleft", "popleft", "difference_update", "intersection_update", "symmetric_difference_update"}


def _base_name(e: ast.AST) -> str | None:
    """the attribute / variable that names the object: self.nodes -> 'nodes', bucket.nodes -> 'nodes', seen -> 'seen'"""
    e = strip_cast(e)
    while isinstance(e, ast.Subscript):
        e = strip_cast(e.value)
    if isinstance(e, ast.Attribute):
        return e.attr
    if isinstance(e, ast.Name):
        return e.id
    return None


def _mutations(ctx: Ctx, fi: FuncInfo, e: ast.AST, depth: int = 3, active: frozenset = frozenset(), env: dict | None = None) -> set[str]:
    """Names of the attributes / variables whose object or binding can change when e (expression / statement / function
    body) is evaluated; '*' when a call cannot be looked into.  Calls of closures, module functions and methods of the
    own class are followed; a parameter that is called stands for the lambdas / functions the caller passed (env:
    parameter -> (caller's function, argument expression))."""
    out: set[str] = set()
    env = env or {}
    nodes = walk_no_nested(e) if isinstance(e, (*_FUNCS,)) else ast.walk(e)

    def of_callable(cfi: FuncInfo, x: ast.AST, d: int) -> set[str]:
        """effects of calling the value of expression x (evaluated in cfi)"""
        x = strip_cast(x)
        if isinstance(x, ast.Lambda):
            return _mutations(ctx, cfi, x.body, d - 1, active)
        if isinstance(x, ast.Name) and d > 0:
            defs = local_defs(cfi, x.id)
            if defs and x.id not in cfi.params() and all(v is not None and idx is None for _st, v, idx in defs):
                res: set[str] = set()
                for _st, v, _idx in defs:
                    res |= of_callable(cfi, v, d - 1)
                return res
        if isinstance(x, (ast.Name, ast.Attribute)):
            t, _bs = _callee(ctx, cfi, ast.Call(func=x, args=[], keywords=[]))
            if isinstance(t, FuncInfo) and id(t.node) not in active and d > 0:
                sub = _mutations(ctx, t, t.node, d - 1, active | {id(t.node)})
                return {y for y in sub if y == "*" or y not in _bound_locals(t.node)}
        return {"*"}

    for n in nodes:
        if isinstance(n, (*_FUNCS, ast.Lambda, ast.ClassDef)) and n is not e:
            continue
        if isinstance(n, (ast.Attribute, ast.Subscript)) and isinstance(n.ctx, (ast.Store, ast.Del)):
            out.add(_base_name(n) or "*")
        elif isinstance(n, ast.Name) and isinstance(n.ctx, (ast.Store, ast.Del)):
            out.add(n.id)
        elif isinstance(n, (ast.Await, ast.Yield, ast.YieldFrom)) and not isinstance(e, _FUNCS):
            out.add("*")
        elif isinstance(n, ast.Call):
            c = chain(n.func) or ""
            if c in _PURE_CALLS or c.startswith(("logger.", "self.logger.", "logging.")) or c in ("list", "tuple", "set", "dict", "sorted", "reversed", "range",
                                                                                                  "enumerate", "zip", "next", "iter", "filter", "any", "all", "sum"):
                continue
            if isinstance(n.func, ast.Attribute) and n.func.attr in _PURE_METHODS:
                continue
            if isinstance(n.func, ast.Attribute) and n.func.attr in _MUTATORS:
                out.add(_base_name(n.func.value) or "*")
                continue
            if isinstance(n.func, ast.Name) and n.func.id in env:
                cfi, x = env[n.func.id]
                out |= of_callable(cfi, x, depth)
                continue
            target, bs = _callee(ctx, fi, n)
            if isinstance(target, ast.Lambda):
                out |= _mutations(ctx, fi, target.body, depth - 1, active, env)
            elif isinstance(target, FuncInfo) and depth > 0 and id(target.node) not in active:
                bound = _bind_args(target.node, n, bs) or {}
                sub_env = {p_: (env[x.id] if isinstance(x, ast.Name) and x.id in env else (fi, x)) for p_, x in bound.items()}
                sub = _mutations(ctx, target, target.node, depth - 1, active | {id(target.node)}, sub_env)
                out |= {x for x in sub if x == "*" or x not in _bound_locals(target.node)}
            elif isinstance(target, FuncInfo) and id(target.node) in active:
                continue
            else:
                out.add("*")
    return out


def _reads(ctx: Ctx, fi: FuncInfo, exprs, depth: int = 2) -> set[str]:
    """attribute / variable names an expression reads, including those read by the own-class methods it calls"""
    out: set[str] = set()
    for e in exprs:
        if e is None:
            continue
        for n in ast.walk(e):
            if isinstance(n, ast.Attribute):
                out.add(n.attr)
            elif isinstance(n, ast.Name):
                out.add(n.id)
            if isinstance(n, ast.Call) and depth > 0:
                target, _bs = _callee(ctx, fi, n)
                if isinstance(target, FuncInfo):
                    out |= _reads(ctx, target, [target.node], depth - 1)
    return out


def _effectful(ctx: Ctx, fi: FuncInfo, e: ast.AST, names: set[str]) -> bool:
    """Evaluating e (an expression or simple statement) may change what an expression reading `names` sees."""
    m = _mutations(ctx, fi, e)
    return "*" in m or bool(m & names)


def _stable_between(ctx: Ctx, fi: FuncInfo, name: str, site: ast.AST, dstmt: ast.AST | None = None, names: set[str] | None = None) -> bool:
    """`name = E` ... site: nothing that runs on a path from the assignment to the site (without passing another
    assignment of the name) can change what E - or a condition over `names` - read, so a condition on `name` at the
    site is a condition on E there."""
    defs = local_defs(fi, name)
    if dstmt is None:
        if len(defs) != 1 or defs[0][1] is None:
            return False
        dstmt, value = defs[0][0], defs[0][1]
        names = _reads(ctx, fi, [value])
    names = set(names or ()) | {name}
    cfg = ctx.cfg(fi)
    dn, sn = cfg.nodes_for(dstmt), cfg.nodes_for(site)
    alld = [x for st, _v, _i in defs for x in cfg.nodes_for(st)]
    if not dn or not sn:
        return False
    if any(d in sn for d in dn):
        return True                                  # walrus inside the very condition
    # nodes on a path assignment -> site that does not run an assignment of the name again
    fwd = cfg.reach([v for d in dn for v, lab in d.succ if lab != "exc"], cut_nodes=[*sn, *alld])
    back, todo = set(), list(sn)
    while todo:
        u = todo.pop()
        for p, _lab in u.pred:
            if p not in back and p not in alld:
                back.add(p)
                todo.append(p)
    for n in fwd & back:
        a = n.ast
        if a is None:
            continue
        if n.kind == "loop":
            if isinstance(a, (ast.For, ast.AsyncFor)) and _target_names(a.target) & names:
                return False
            continue
        if n.kind in ("dispatch", "handler") or isinstance(a, (*_FUNCS, ast.ClassDef)):
            continue
        parts = [i.context_expr for i in a.items] if isinstance(a, (ast.With, ast.AsyncWith)) else [a]
        if any(_effectful(ctx, fi, p, names) for p in parts):
            return False
    return True


def _const_leaves(v: ast.AST, conds: tuple = ()) -> list[tuple[ast.AST, tuple]]:
    """leaves of a value built from conditional expressions: (leaf expression, ((test, polarity), ...))"""
    v = strip_cast(v)
    if isinstance(v, ast.IfExp):
        return _const_leaves(v.body, conds + ((v.test, True),)) + _const_leaves(v.orelse, conds + ((v.test, False),))
    return [(v, conds)]


def _tag_facts(ctx: Ctx, fi: FuncInfo, name: str, accept, site: ast.AST | None, depth: int, value_pol: bool | None = None) -> list[Fact]:
    """`name` is a decision local with several assignments (`kind = 'known'` in one branch, `kind = 'new'` in another,
    `kind = 'a' if c else 'b'`; `found = False` ... `found = len(x) > k`).  A test of the local selects the assignments
    whose value can pass the test (constants are decided, other values may pass); what holds at all of those assignments
    - plus, for a truthiness test, what the assigned expression being truthy / falsy says - still holds at the site if
    nothing in between can change it."""
    defs = local_defs(fi, name)
    if len(defs) < 2 or name in fi.params() or site is None or depth <= 0:
        return []
    if ctx.cfg(fi).nodes_for(site):
        defs = _reaching(ctx, fi, name, site) or defs                   # the assignments whose value the test can see
    if any(v is None or idx is not None for _st, v, idx in defs):
        return []
    per = []
    for st, v, _idx in defs:
        for leaf, conds in _const_leaves(v):
            c = const_value(leaf)
            if isinstance(leaf, ast.Tuple):
                return []
            if c is not NOCONST and accept(leaf) is False:
                continue
            if c is NOCONST and value_pol is None:
                return []                                                 # a computed value under an equality / None test: not followed
            fs = list(_local_facts(ctx, fi, st, depth - 1))
            for t, pol in conds:
                fs.extend(_atoms_with_polarity(t, pol))
            if c is NOCONST:
                fs.extend(_atoms_with_polarity(leaf, value_pol))
            fs = fs + [g for f in fs for g in _expand_fact(ctx, fi, f, st, depth - 1)] if c is NOCONST or conds else fs
            # each condition separately: one that reads what is changed on the way to the site is dropped, the others stay
            per.append([f for f in fs if _stable_between(ctx, fi, name, site, st, _reads(ctx, fi, [f.left, f.right]))])
    return _intersect(per)


def _ret_sites(ctx: Ctx, target) -> list[tuple[ast.AST | None, ast.AST]] | None:
    """(return statement | None, returned expression) of a helper / lambda; a fall-through end counts as `return None`."""
    if isinstance(target, ast.Lambda):
        return [(None, target.body)]
    fn = target.node
    if target.is_async or _is_generator(fn):
        return None
    out = []
    for n in walk_no_nested(fn):
        if isinstance(n, ast.Return):
            out.append((n, n.value if n.value is not None else ast.Constant(value=None)))
    cfg = ctx.cfg(target)
    if any(not isinstance(p.ast, ast.Return) for p, lab in cfg.exit.pred if p in cfg.reach()):
        out.append((None, ast.Constant(value=None)))
    return out


def _result_projection(fi: FuncInfo, e: ast.AST):
    """e reads ONE COMPONENT of what a helper returned - `ok` after `ok, why = self._h(x)`, or `res.ok` after `res = self._h(x)`:
    (the call, project(function of the return, returned expression) -> the component's expression | None, the local's name)"""
    e = strip_cast(e)
    if isinstance(e, ast.Name):
        d = single_def(fi, e.id)
        if d is not None and isinstance(d[1], int) and isinstance(strip_cast(d[0]), ast.Call):
            idx = d[1]

            def project_item(tfi, v, idx=idx):
                v = strip_cast(resolve(tfi, v)) if isinstance(tfi, FuncInfo) else strip_cast(v)
                if isinstance(v, ast.Tuple) and idx < len(v.elts) and not any(isinstance(x, ast.Starred) for x in v.elts):
                    return v.elts[idx]
                return None
            return strip_cast(d[0]), project_item, e.id
    if isinstance(e, ast.Attribute) and isinstance(e.value, ast.Name) and isinstance(e.ctx, ast.Load):
        d = single_def(fi, e.value.id)
        if d is not None and d[1] is None and isinstance(strip_cast(d[0]), ast.Call):
            field = e.attr

            def project_field(tfi, v, field=field):
                v = strip_cast(resolve(tfi, v)) if isinstance(tfi, FuncInfo) else strip_cast(v)
                mod = tfi.module if isinstance(tfi, FuncInfo) else fi.module
                if not (isinstance(v, ast.Call) and isinstance(v.func, ast.Name) and v.func.id in mod.classes):
                    return None
                lay = _class_layout(mod, mod.classes[v.func.id].node)
                fm = _bind_record(lay, v) if lay is not None else None
                return fm.get(field) if fm is not None else None
            return strip_cast(d[0]), project_field, e.value.id
    return None


def _implied_by_result(ctx: Ctx, fi: FuncInfo, call: ast.Call, accept, value_pol: bool | None, depth: int, project=None) -> list[Fact]:
    """Conditions (fi's vocabulary) that hold whenever `call` - a helper, closure or lambda - returned a value v with
    accept(v) not False: the conditions common to all such returns (path conditions of the return + what the returned
    expression being truthy / falsy says), parameters replaced by the call's arguments."""
    target, binds_self = _callee(ctx, fi, call)
    if target is None or depth <= 0:
        return []
    fn = target if isinstance(target, ast.Lambda) else target.node
    env = _bind_args(fn, call, binds_self)
    rets = _ret_sites(ctx, target)
    if env is None or rets is None:
        return []
    if isinstance(target, FuncInfo) and target.node is fi.node:
        return []
    if project is not None:
        # the caller looks at one component of the result: the same reasoning on that component of every returned value
        rets = [(r, project(target, v)) for r, v in rets]
        if any(v is None for _r, v in rets):
            return []
    locals_ = _bound_locals(fn) if isinstance(target, FuncInfo) else set()
    tag = fn.name if isinstance(target, FuncInfo) else "lambda"

    def back(e):
        if e is None:
            return None
        e = _expand(target, e, tuple(env)) if isinstance(target, FuncInfo) else _copy(e)
        m = dict(env)
        for l in locals_:
            m.setdefault(l, ast.Name(id=f"{l}@{tag}", ctx=ast.Load()))
        return _fold(_subst(e, m))                                        # (k, v)[1] -> v for a parameter bound to a pair

    per: list[list[Fact]] = []
    for r, v in rets:
        if accept(v) is False:
            continue
        fs: list[Fact] = []
        if r is not None:
            fs.extend(_local_facts(ctx, target, r, depth - 1))
        if value_pol is not None and not isinstance(v, ast.Constant):
            for f in _atoms_with_polarity(v, value_pol):
                fs.append(f)
                if isinstance(target, FuncInfo):
                    fs.extend(_expand_fact(ctx, target, f, r, depth - 1))
                else:
                    fs.extend(_expand_fact(ctx, fi, Fact(f.op, back(f.left), back(f.right), f.pos, f.atom), call, depth - 1))
        per.append([Fact(f.op, back(f.left), back(f.right), f.pos, f.atom) for f in fs])
    return _intersect(per)


def _next_facts(fi: FuncInfo, name: ast.Name, value: ast.AST, ctx: Ctx | None = None, depth: int = 2) -> list[Fact]:
    """x = next(<generator over candidates with filter>, <constant default>) and x is known not to be the default: x is
    an element of the generator, so the filter holds for x.  (Also next(filter(pred, candidates), default): pred(x) holds.)"""
    if not (isinstance(value, ast.Call) and chain(value.func) == "next" and 1 <= len(value.args) <= 2 and not value.keywords):
        return []
    g = strip_cast(value.args[0])
    if isinstance(g, ast.Call) and chain(g.func) == "iter" and len(g.args) == 1:
        g = g.args[0]
    if isinstance(g, ast.Call) and chain(g.func) == "filter" and len(g.args) == 2 and not g.keywords and ctx is not None and const_value(g.args[0]) is not None:
        call = ast.copy_location(ast.Call(func=g.args[0], args=[ast.Name(id=name.id, ctx=ast.Load())], keywords=[]), value)
        return _implied_by_result(ctx, fi, call, lambda e: None if const_value(e) is NOCONST else bool(const_value(e)), True, depth)
    if not isinstance(g, _COMPS) or not isinstance(g.elt, ast.Name):
        return []
    var = g.elt.id
    out = []
    for f in _comp_filter_facts(g, {var}):
        m = {var: name}
        out.append(Fact(f.op, _subst(f.left, m), _subst(f.right, m) if f.right is not None else None, f.pos, f.atom))
    return out


def _fact_site(ctx: Ctx, fi: FuncInfo, f: Fact, site: ast.AST | None) -> ast.AST | None:
    """Where a condition was evaluated: its own test when that is part of fi's control-flow graph.  A flag / decision
    local stands for the expression it was assigned if nothing changes that expression's value up to the TEST of the flag
    (what happens between the test and the guarded statement is the same as for a condition written out in the test)."""
    if site is not None and f.atom is not None and any(a is fi.node for a in ancestors(f.atom)) and ctx.cfg(fi).nodes_for(f.atom):
        return f.atom
    return site


def _tag_test(f: Fact):
    """f tests a local against constants: (name, accept(leaf expression) -> bool | None, polarity for computed values | None)"""
    left = strip_cast(f.left) if f.left is not None else None
    if f.op == "truthy" and isinstance(left, ast.Name):
        return left.id, (lambda e, pos=f.pos: bool(const_value(e)) == pos), f.pos
    if f.right is None:
        return None
    if f.op == "in" and isinstance(left, ast.Name) and isinstance(f.right, (ast.Tuple, ast.List, ast.Set)):
        vals = [const_value(x) for x in f.right.elts]
        if any(v is NOCONST for v in vals):
            return None
        return left.id, (lambda e, vals=vals, pos=f.pos: (const_value(e) in vals) == pos), None
    if f.op in ("eq", "is"):
        for a, b in ((f.left, f.right), (f.right, f.left)):
            a = strip_cast(a)
            c = const_value(b)
            if c is NOCONST or isinstance(b, ast.Tuple) or not isinstance(a, ast.Name):
                continue
            if f.op == "is" and c is not None and not isinstance(c, bool):
                continue                                                  # identity with another constant says nothing about equality
            if f.op == "is":
                return a.id, (lambda e, c=c, pos=f.pos: (const_value(e) is c) == pos), None
            return a.id, (lambda e, c=c, pos=f.pos: (const_value(e) == c) == pos), None
    return None


def _joint_tag_facts(ctx: Ctx, fi: FuncInfo, base: list[Fact], site: ast.AST, depth: int) -> list[Fact]:
    """Several dominating tests of the same decision local (`if kind == A: return` ... `if kind == B: return` ... site): the
    assignments that can pass ALL of them.  Only tests that see the same assignments, with no assignment between them."""
    groups: dict[str, list[tuple[Fact, object]]] = {}
    for f in base:
        t = _tag_test(f)
        if t is not None and single_def(fi, t[0]) is None and t[0] not in fi.params() and f.atom is not None and _fact_site(ctx, fi, f, site) is f.atom:
            groups.setdefault(t[0], []).append((f, t[1]))
    out: list[Fact] = []
    cfg = ctx.cfg(fi)
    for name, tests in groups.items():
        if len(tests) < 2:
            continue
        key = lambda a: sorted(id(st) for st, _v, _i in _reaching(ctx, fi, name, a))  # noqa: E731
        first = tests[0][0].atom
        same = [(f, acc) for f, acc in tests if key(f.atom) == key(first)]
        defnodes = [x for st, _v, _i in local_defs(fi, name) for x in cfg.nodes_for(st)]
        atoms = [x for f, _a in same for x in cfg.nodes_for(f.atom)]
        if len(same) < 2:
            continue
        # an assignment that is reachable from one test and from which another test is reachable lies between two tests:
        # they may speak about different values
        after = cfg.reach([v for x in atoms for v, lab in x.succ if lab != "exc"])
        if any(d in after and any(a in cfg.reach([v for v, lab in d.succ if lab != "exc"]) for a in atoms) for d in defnodes):
            continue

        def accept(e, same=same):
            res = [acc(e) for _f, acc in same]
            return False if any(r is False for r in res) else (None if any(r is None for r in res) else True)
        got = _tag_facts(ctx, fi, name, accept, first, depth - 1)
        out.extend(got)
        for g in got:
            out.extend(_expand_fact(ctx, fi, g, site, depth - 1))
    return out


def _expand_fact(ctx: Ctx, fi: FuncInfo, f: Fact, site: ast.AST | None, depth: int = 3) -> list[Fact]:
    """Conditions that follow from f: a flag local stands for the expression it was assigned (if nothing in between can
    change it), a predicate helper's result stands for the conditions under which it returns that result, an element
    taken with next(...) satisfies the generator's filter."""
    if depth <= 0:
        return []
    out: list[Fact] = []
    site = _fact_site(ctx, fi, f, site)
    left = strip_cast(f.left) if f.left is not None else None
    none_test = f.op == "is" and f.right is not None and isinstance(f.right, ast.Constant) and f.right.value is None
    proj = _result_projection(fi, left) if left is not None else None
    if proj is not None and (site is None or _stable_between(ctx, fi, proj[2], site)):
        pcall, project, _pname = proj
        if f.op == "truthy":
            out.extend(_implied_by_result(ctx, fi, pcall, lambda e, pol=f.pos: None if const_value(e) is NOCONST else bool(const_value(e)) == pol, f.pos, depth - 1, project))
        elif none_test:
            out.extend(_implied_by_result(ctx, fi, pcall, lambda e, pos=f.pos: None if const_value(e) is NOCONST else (const_value(e) is None) == pos, None, depth - 1, project))
        elif f.op == "eq" and f.right is not None and const_value(f.right) is not NOCONST and not isinstance(f.right, ast.Tuple):
            out.extend(_implied_by_result(ctx, fi, pcall, lambda e, c=const_value(f.right), pos=f.pos: None if const_value(e) is NOCONST else (const_value(e) == c) == pos,
                                          None, depth - 1, project))
    if f.op == "truthy" or none_test:
        is_set = f.pos if f.op == "truthy" else not f.pos           # the value is known to be truthy / not None
        if isinstance(left, ast.Name):
            d = single_def(fi, left.id)
            if d is None:
                t = _tag_test(f)
                out.extend(_tag_facts(ctx, fi, left.id, t[1], site, depth - 1, t[2]))
            if d is not None and d[1] is None and (site is None or _stable_between(ctx, fi, left.id, site)):
                v = strip_cast(d[0])
                if is_set:
                    dflt = v.args[1] if isinstance(v, ast.Call) and chain(v.func) == "next" and len(v.args) == 2 else None
                    if dflt is not None and isinstance(dflt, ast.Constant) and (dflt.value is None or (f.op == "truthy" and not dflt.value)):
                        out.extend(_next_facts(fi, left, v, ctx, depth - 1))
                if f.op == "truthy":
                    out.extend(_atoms_with_polarity(v, f.pos))
                elif isinstance(v, ast.Call):
                    def accept_none(e, is_set=is_set):
                        c = const_value(e)
                        return None if c is NOCONST else (c is not None) == is_set
                    out.extend(_implied_by_result(ctx, fi, v, accept_none, None, depth - 1))
        elif f.op == "truthy" and (isinstance(left, ast.Call) or _property_call(ctx, fi, left) is not None):
            pol = f.pos

            def accept(e, pol=pol):
                c = const_value(e)
                return None if c is NOCONST else bool(c) == pol
            out.extend(_implied_by_result(ctx, fi, left if isinstance(left, ast.Call) else _property_call(ctx, fi, left), accept, pol, depth - 1))
    elif f.op in ("eq", "is", "in") and f.right is not None:
        t = _tag_test(f)
        if t is not None and single_def(fi, t[0]) is None:
            out.extend(_tag_facts(ctx, fi, t[0], t[1], site, depth - 1))
        for a, b in (((f.left, f.right), (f.right, f.left)) if f.op == "eq" else ()):
            c = const_value(b)
            if c is NOCONST or isinstance(b, ast.Tuple):
                continue
            a = strip_cast(a)
            if isinstance(a, ast.Name):
                d = single_def(fi, a.id)
                a = strip_cast(d[0]) if d is not None and d[1] is None else a
            if isinstance(a, ast.Call):
                def accept_eq(e, c=c, pos=f.pos):
                    v = const_value(e)
                    return None if v is NOCONST else (v == c) == pos
                out.extend(_implied_by_result(ctx, fi, a, accept_eq, None, depth - 1))
    if f.op in ("lt", "eq") and f.right is not None:
        l2, r2 = _result_expr(ctx, fi, f.left), _result_expr(ctx, fi, f.right)
        if l2 is not None or r2 is not None:
            out.append(Fact(f.op, l2 if l2 is not None else f.left, r2 if r2 is not None else f.right, f.pos, f.atom))
    more: list[Fact] = []
    for g in out:
        more.extend(_expand_fact(ctx, fi, g, site, depth - 1))
    return out + more


def _result_expr(ctx: Ctx, fi: FuncInfo, e: ast.AST) -> ast.AST | None:
    """e is (a local holding) the result of a helper whose every return gives the same expression over its parameters and
    object state: that expression with the parameters replaced by the call's arguments."""
    e = strip_cast(e)
    if isinstance(e, ast.Name):
        d = single_def(fi, e.id)
        e = strip_cast(d[0]) if d is not None and d[1] is None else e
    if isinstance(e, ast.Attribute):
        e = _property_call(ctx, fi, e) or e
    if not isinstance(e, ast.Call):
        return None
    target, binds_self = _callee(ctx, fi, e)
    if not isinstance(target, FuncInfo) or target.node is fi.node or _is_generator(target.node) or target.is_async:
        return None
    env = _bind_args(target.node, e, binds_self)
    rets = _ret_sites(ctx, target)
    if env is None or not rets or any(r is None for r, _v in rets):
        return None
    vals = [_expand(target, v, tuple(env)) for _r, v in rets]
    if len({norm(v) for v in vals}) != 1:
        return None
    if {n.id for n in ast.walk(vals[0]) if isinstance(n, ast.Name)} & (_bound_locals(target.node) - set(env)):
        return None
    return _subst(vals[0], env)


def _comp_filter_facts(comp: ast.AST, names: set[str]) -> list[Fact]:
    """Facts that hold for every element produced by a comprehension: the atoms of its `if` clauses, taken from the
    generator that binds (one of) `names` onwards - an earlier clause would speak about an outer variable of that name."""
    out: list[Fact] = []
    bound = False
    for g in comp.generators:
        if g.is_async:
            return []
        if names & _target_names(g.target):
            bound = True
        if bound:
            for i in g.ifs:
                out.extend(_atoms_with_polarity(i, True))
    return out


def _comp_context_facts(site: ast.AST) -> list[Fact]:
    """site sits in the element expression of a comprehension: every `if` clause of the comprehension holds there."""
    out: list[Fact] = []
    cur = site
    for a in ancestors(site):
        if isinstance(a, ast.stmt):
            break
        if isinstance(a, (*_COMPS, ast.DictComp)):
            in_elt = cur is getattr(a, "elt", None) or cur is getattr(a, "key", None) or cur is getattr(a, "value", None)
            if in_elt and not any(g.is_async for g in a.generators):
                for g in a.generators:
                    for i in g.ifs:
                        out.extend(_atoms_with_polarity(i, True))
        cur = a
    return out


def _writes_status(fi: FuncInfo) -> bool:
    return any(isinstance(n, ast.Attribute) and n.attr in ("status", "failed") and isinstance(n.ctx, (ast.Store, ast.Del)) for n in ast.walk(fi.node))


def _gen_yield_facts(ctx: Ctx, fi: FuncInfo, loop: ast.For, depth: int) -> list[Fact]:
    """`for T in helper(...)` where helper is a generator: what holds at every `yield` holds for T in the body (the
    yielded names are renamed to the loop target's names, parameters replaced by the arguments)."""
    it = strip_cast(_strip_snapshot(resolve(fi, _strip_snapshot(loop.iter))))
    if not isinstance(it, ast.Call) or depth <= 0:
        return []
    target, binds_self = _callee(ctx, fi, it)
    if not isinstance(target, FuncInfo) or not _is_generator(target.node) or target.is_async or target.node is fi.node:
        return []
    env = _bind_args(target.node, it, binds_self)
    if env is None or _writes_status(target):
        return []
    shape = _names_shape(loop.target)
    ys = [n for n in walk_no_nested(target.node) if isinstance(n, (ast.Yield, ast.YieldFrom))]
    if shape is None or not ys or any(isinstance(y, ast.YieldFrom) or y.value is None for y in ys):
        return []
    locals_ = _bound_locals(target.node)
    per = []
    for y in ys:
        m: dict[str, ast.AST] = {l: ast.Name(id=f"{l}@{target.name}", ctx=ast.Load()) for l in locals_}
        m.update(env)
        v = y.value
        if isinstance(shape, str):
            if isinstance(v, ast.Name):
                m[v.id] = ast.Name(id=shape, ctx=ast.Load())
        elif isinstance(v, ast.Tuple) and len(v.elts) == len(shape):
            for el, s in zip(v.elts, shape):
                if isinstance(el, ast.Name) and isinstance(s, str):
                    m[el.id] = ast.Name(id=s, ctx=ast.Load())
        else:
            return []
        fs = _local_facts(ctx, target, y, depth - 1)
        per.append([Fact(f.op, _subst(_expand(target, f.left, tuple(m)), m), _subst(_expand(target, f.right, tuple(m)), m) if f.right is not None else None, f.pos, f.atom)
                    for f in fs])
    return _intersect(per)


def _loop_filter_facts(ctx: Ctx, fi: FuncInfo, site: ast.AST, depth: int = 3) -> list[Fact]:
    """`for T in [T for T in src if C]` (the list possibly held in a single-assignment local): C holds for T in the body;
    `for T in filter(pred, src)`; `for T in generator_helper(...)`: what holds at its yields.  Only identity
    comprehensions whose element has the same name structure as the loop target are used."""
    out: list[Fact] = []
    for a in ancestors(site):
        if a is fi.node:
            break
        if not isinstance(a, ast.For):
            continue
        if any(isinstance(n, ast.Name) and isinstance(n.ctx, ast.Store) and n.id in _target_names(a.target)
               for s in a.body for n in ast.walk(s)):
            continue                                                      # the loop variable is rebound in the body
        it = _strip_snapshot(resolve(fi, _strip_snapshot(a.iter)))
        if isinstance(it, ast.Call) and chain(it.func) == "filter" and len(it.args) == 2 and _names_shape(a.target) is not None:
            pred = it.args[0]
            if not (isinstance(pred, ast.Constant) and pred.value is None):
                # the predicate is called with the element the loop target is bound to (a pair for `for k, v in filter(p, items)`)
                elem = ast.fix_missing_locations(ast.copy_location(ast.parse(norm(a.target), mode="eval").body, a.target))
                call = ast.Call(func=pred, args=[elem], keywords=[])
                out.extend(_implied_by_result(ctx, fi, call, lambda e: None if const_value(e) is NOCONST else bool(const_value(e)), True, depth))
            continue
        if isinstance(it, ast.Call):
            out.extend(_gen_yield_facts(ctx, fi, a, depth))
            continue
        if not isinstance(it, _COMPS):
            continue
        shape = _names_shape(a.target)
        if shape is None or _names_shape(it.elt) != shape:
            continue
        names = _target_names(a.target)
        # the element is the generator's own target (identity), so the filter speaks about the loop variable
        if not any(_names_shape(g.target) == shape for g in it.generators):
            continue
        out.extend(_comp_filter_facts(it, names))
    return out


def _local_facts(ctx: Ctx, fi: FuncInfo, site: ast.AST, depth: int = 3) -> list[Fact]:
    """Everything known at `site` inside fi: dominating conditions, short-circuit / comprehension context, filters of the
    loops around it, and what follows from those through flag locals and predicate helpers."""
    cfg = ctx.cfg(fi)
    base = list(facts_at(cfg, site)) + _comp_context_facts(site)
    if not _writes_status(fi):
        base += _loop_filter_facts(ctx, fi, site, depth)
    out = list(base)
    for f in base:
        out.extend(_expand_fact(ctx, fi, f, site, depth))
    out.extend(_joint_tag_facts(ctx, fi, base, site, depth))
    return [Fact(f.op, _expand(fi, f.left), _expand(fi, f.right) if f.right is not None else None, f.pos, f.atom) for f in out] + out


# ----------------------------------------------------------------------------------- node status
def _status_values(ctx: Ctx) -> dict[str, int]:
    m = ctx.repo.module(RT)
    out = {}
    for name in ("NODE_STATUS_BAD", "NODE_STATUS_UNKNOWN", "NODE_STATUS_GOOD"):
        v = ctx.repo.resolve_const(m, ast.Name(id=name, ctx=ast.Load()))
        if v is NOCONST or not isinstance(v, int):
            raise AnalysisError(f"anchor-lost: constant {name} in {RT}")
        out[name] = v
    return out


class _Unknown(Exception):
    pass


def _class_attr_expr(ctx: Ctx, name: str) -> ast.AST | None:
    """the (single) class-level assignment of an attribute of that name in routing.py"""
    hits = [c.attrs[name] for c in ctx.repo.module(RT).classes.values() if name in c.attrs]
    return hits[0] if len(hits) == 1 else None


def _const_eval(ctx: Ctx, e: ast.AST, subject: str, s_val, depth: int = 6):
    """Value of a constant expression in which <var>.status is s_val: literals, the status constants, module / class level
    constant tables (dict / tuple / set literals), subscripts and .get() of such tables, comparisons, not / and / or,
    + and -.  Raises _Unknown for anything else."""
    if depth <= 0:
        raise _Unknown
    e = strip_cast(e)
    if norm(e) == subject:
        return s_val
    ev = lambda x: _const_eval(ctx, x, subject, s_val, depth - 1)  # noqa: E731
    if isinstance(e, ast.Constant):
        return e.value
    if isinstance(e, ast.Name):
        v = ctx.repo.resolve_const(ctx.repo.module(RT), e)
        if v is not NOCONST:
            return v
        m = ctx.repo.module(RT)
        if e.id in m.constants:
            return ev(m.constants[e.id])
        raise _Unknown
    if isinstance(e, ast.Attribute) and isinstance(e.value, ast.Name) and (e.value.id in ("self", "cls") or e.value.id in ctx.repo.module(RT).classes):
        x = _class_attr_expr(ctx, e.attr)
        if x is None:
            raise _Unknown
        return ev(x)
    if isinstance(e, (ast.Tuple, ast.List)):
        return tuple(ev(x) for x in e.elts)
    if isinstance(e, ast.Set):
        return frozenset(ev(x) for x in e.elts)
    if isinstance(e, ast.Dict):
        if any(k is None for k in e.keys):
            raise _Unknown
        return {ev(k): ev(v) for k, v in zip(e.keys, e.values)}
    if isinstance(e, ast.Call) and chain(e.func) in ("frozenset", "set", "tuple", "bool", "dict") and len(e.args) == 1 and not e.keywords:
        v = ev(e.args[0])
        return {"frozenset": frozenset, "set": frozenset, "tuple": tuple, "bool": bool, "dict": dict}[chain(e.func)](v)
    if isinstance(e, ast.Subscript):
        base, k = ev(e.value), ev(e.slice)
        try:
            return base[k]
        except Exception as ex:  # noqa: BLE001
            raise _Unknown from ex
    if isinstance(e, ast.Call) and isinstance(e.func, ast.Attribute) and e.func.attr == "get" and 1 <= len(e.args) <= 2 and not e.keywords:
        base = ev(e.func.value)
        if not isinstance(base, dict):
            raise _Unknown
        return base.get(ev(e.args[0]), ev(e.args[1]) if len(e.args) == 2 else None)
    if isinstance(e, ast.UnaryOp) and isinstance(e.op, ast.Not):
        return not ev(e.operand)
    if isinstance(e, ast.UnaryOp) and isinstance(e.op, ast.USub):
        return -ev(e.operand)
    if isinstance(e, ast.BoolOp):
        v = None
        for x in e.values:
            v = ev(x)
            if isinstance(e.op, ast.And) and not v:
                return v
            if isinstance(e.op, ast.Or) and v:
                return v
        return v
    if isinstance(e, ast.IfExp):
        return ev(e.body) if ev(e.test) else ev(e.orelse)
    if isinstance(e, ast.BinOp) and isinstance(e.op, (ast.Add, ast.Sub)):
        a, b = ev(e.left), ev(e.right)
        return a + b if isinstance(e.op, ast.Add) else a - b
    if isinstance(e, ast.Compare):
        left = ev(e.left)
        for op, r in zip(e.ops, e.comparators):
            right = ev(r)
            try:
                ok = {ast.Eq: lambda: left == right, ast.NotEq: lambda: left != right, ast.Lt: lambda: left < right, ast.LtE: lambda: left <= right,
                      ast.Gt: lambda: left > right, ast.GtE: lambda: left >= right, ast.In: lambda: left in right, ast.NotIn: lambda: left not in right,
                      ast.Is: lambda: left == right, ast.IsNot: lambda: left != right}[type(op)]()
            except Exception as ex:  # noqa: BLE001
                raise _Unknown from ex
            if not ok:
                return False
            left = right
        return True
    raise _Unknown


def _status_allowed(ctx: Ctx, f: Fact, var: str) -> set[int] | None:
    """The node statuses for which the fact can be true, if it is a test of <var>.status against constants / constant
    tables: the fact is evaluated for each of the three statuses."""
    vals = _status_values(ctx)
    dom = set(vals.values())
    subject = f"{var}.status"
    if subject not in norm(f.left) and (f.right is None or subject not in norm(f.right)):
        return None
    ok = set()
    try:
        for sv in dom:
            l = _const_eval(ctx, f.left, subject, sv)
            if f.op == "truthy":
                r = bool(l)
            else:
                rv = _const_eval(ctx, f.right, subject, sv)
                r = {"eq": lambda: l == rv, "is": lambda: l == rv, "in": lambda: l in rv, "lt": lambda: l < rv}[f.op]()
            if r:
                ok.add(sv)
    except (_Unknown, TypeError, KeyError):
        return None
    return ok if f.pos else dom - ok


def _excludes_bad(ctx: Ctx, f: Fact, var: str) -> bool:
    a = _status_allowed(ctx, f, var)
    return a is not None and _status_values(ctx)["NODE_STATUS_BAD"] not in a


def _requires_bad(ctx: Ctx, f: Fact, var: str) -> bool:
    a = _status_allowed(ctx, f, var)
    return a is not None and a == {_status_values(ctx)["NODE_STATUS_BAD"]}


# ----------------------------------------------------------------------------------- symbolic return values
class _Unsupported(Exception):
    pass


def _sym_returns(fi: FuncInfo) -> list[tuple[ast.Return, tuple, ast.AST]]:
    """Value of every `return` of a loop-free function as one expression over parameters / attributes: locals are
    substituted in program order (so `x = a; if c: x += b` gives `a + b if c else a`), together with the branch
    conditions (test, polarity) under which the return is reached.  Raises _Unsupported for anything else."""
    rets: list[tuple[ast.Return, tuple, ast.AST]] = []

    def run(stmts, env, conds):
        for st in stmts:
            if isinstance(st, ast.Pass) or (isinstance(st, ast.Expr) and isinstance(st.value, ast.Constant)):
                continue
            if isinstance(st, ast.Assign) and len(st.targets) == 1 and isinstance(st.targets[0], ast.Name):
                env[st.targets[0].id] = _subst(strip_cast(st.value), env)
            elif isinstance(st, ast.Assign) and len(st.targets) == 1 and isinstance(st.targets[0], ast.Tuple) and isinstance(st.value, ast.Tuple) \
                    and len(st.targets[0].elts) == len(st.value.elts) and all(isinstance(t, ast.Name) for t in st.targets[0].elts) \
                    and not any(isinstance(v, ast.Starred) for v in st.value.elts):
                vals = [_subst(strip_cast(v), env) for v in st.value.elts]      # right side first, then all bindings at once
                for t, v in zip(st.targets[0].elts, vals):
                    env[t.id] = v
            elif isinstance(st, ast.AnnAssign) and isinstance(st.target, ast.Name):
                if st.value is not None:
                    env[st.target.id] = _subst(strip_cast(st.value), env)
            elif isinstance(st, ast.AugAssign) and isinstance(st.target, ast.Name) and st.target.id in env:
                right = _subst(st.value, env)
                if isinstance(env[st.target.id], ast.List) and isinstance(st.op, ast.Add) and isinstance(right, (ast.List, ast.Tuple)):
                    env[st.target.id] = ast.List(elts=[*env[st.target.id].elts, *right.elts], ctx=ast.Load())
                elif isinstance(env[st.target.id], ast.List):
                    raise _Unsupported
                else:
                    env[st.target.id] = ast.BinOp(left=env[st.target.id], op=st.op, right=right)
            elif isinstance(st, ast.Expr) and isinstance(st.value, ast.Call) and isinstance(st.value.func, ast.Attribute) and isinstance(st.value.func.value, ast.Name) \
                    and isinstance(env.get(st.value.func.value.id), ast.List) and not st.value.keywords and not any(isinstance(x, ast.Starred) for x in st.value.args):
                # a local list literal that is built up piece by piece: parts = [a]; parts.append(b)  ->  [a, b]
                name, c = st.value.func.value.id, st.value
                cur = list(env[name].elts)
                if c.func.attr == "append" and len(c.args) == 1:
                    cur.append(_subst(c.args[0], env))
                elif c.func.attr == "extend" and len(c.args) == 1 and isinstance(_subst(c.args[0], env), (ast.List, ast.Tuple)):
                    cur.extend(_subst(c.args[0], env).elts)
                elif c.func.attr == "insert" and len(c.args) == 2 and const_value(c.args[0]) == 0:
                    cur.insert(0, _subst(c.args[1], env))
                else:
                    raise _Unsupported
                env[name] = ast.List(elts=cur, ctx=ast.Load())
            elif isinstance(st, ast.If):
                t = _subst(st.test, env)
                e1 = run(st.body, dict(env), conds + ((t, True),))
                e2 = run(st.orelse, dict(env), conds + ((t, False),))
                if e1 is None and e2 is None:
                    return None
                if e1 is None or e2 is None:
                    env, conds = (e2, conds + ((t, False),)) if e1 is None else (e1, conds + ((t, True),))
                    continue
                merged = {}
                for name in e1.keys() & e2.keys():
                    a, b = e1[name], e2[name]
                    merged[name] = a if ast.dump(a) == ast.dump(b) else ast.IfExp(test=t, body=a, orelse=b)
                for name in (e1.keys() ^ e2.keys()) | (env.keys() - merged.keys()):
                    merged.pop(name, None)
                    merged[name] = ast.Name(id=f"<unbound:{name}>", ctx=ast.Load())
                env = merged
            elif isinstance(st, ast.Return):
                if st.value is None:
                    raise _Unsupported
                rets.append((st, conds, _subst(st.value, env)))
                return None
            else:
                raise _Unsupported
        return env

    run(fi.node.body, {}, ())
    return rets


def _replace(e, target: ast.AST, repl: ast.AST):
    if e is target:
        return repl
    if isinstance(e, ast.AST):
        new = e.__class__()
        for f, v in ast.iter_fields(e):
            setattr(new, f, [_replace(x, target, repl) for x in v] if isinstance(v, list) else _replace(v, target, repl))
        return new
    return e


def _alternatives(e: ast.AST, conds: tuple = (), budget: int = 64) -> list[tuple[tuple, ast.AST]]:
    """Split conditional expressions: [(conditions, expression without IfExp)]."""
    node = next((n for n in ast.walk(e) if isinstance(n, ast.IfExp)), None)
    if node is None:
        return [(conds, e)]
    if budget <= 1:
        raise AnalysisError("undecided: too many conditional alternatives in Bucket.generate_id")
    known = {ast.dump(t): pol for t, pol in conds}
    out = []
    for pol, br in ((True, node.body), (False, node.orelse)):
        if known.get(ast.dump(node.test), pol) != pol:
            continue                                                      # same test already decided the other way on this path
        out.extend(_alternatives(_replace(e, node, br), conds + ((node.test, pol),), budget // 2))
    return out


def _concat_joins(e: ast.AST) -> ast.AST:
    """''.join([a, b]) / ''.join((a, b)) / '{}{}'.format(a, b) -> a + b (the same string), a conditional list pushed outwards"""
    def concat(parts: list, at: ast.AST) -> ast.AST:
        if not parts:
            return ast.copy_location(ast.Constant(value=""), at)
        out = parts[0]
        for x in parts[1:]:
            out = ast.copy_location(ast.BinOp(left=out, op=ast.Add(), right=x), at)
        return out

    def joined(seq: ast.AST, at: ast.AST):
        seq = strip_cast(seq)
        if isinstance(seq, (ast.List, ast.Tuple)) and not any(isinstance(x, ast.Starred) for x in seq.elts):
            return concat(list(seq.elts), at)
        if isinstance(seq, ast.IfExp):
            a, b = joined(seq.body, at), joined(seq.orelse, at)
            return None if a is None or b is None else ast.copy_location(ast.IfExp(test=seq.test, body=a, orelse=b), at)
        return None

    class T(ast.NodeTransformer):
        def visit_Call(self, n):
            self.generic_visit(n)
            if isinstance(n.func, ast.Attribute) and not n.keywords and isinstance(const_value(n.func.value), str):
                fmt = const_value(n.func.value)
                if n.func.attr == "join" and fmt == "" and len(n.args) == 1:
                    new = joined(n.args[0], n)
                    return new if new is not None else n
                if n.func.attr == "format" and n.args and fmt == "{}" * len(n.args) and not any(isinstance(x, ast.Starred) for x in n.args):
                    return concat(list(n.args), n)
            return n
    return T().visit(e)


def _leads_with_prefix(s: ast.AST) -> bool:
    """The string expression starts with the characters of self.prefix_id."""
    if isinstance(s, ast.BinOp) and isinstance(s.op, ast.Add):
        return _leads_with_prefix(s.left)
    if isinstance(s, ast.IfExp):
        return _leads_with_prefix(s.body) and _leads_with_prefix(s.orelse)
    if isinstance(s, ast.JoinedStr) and s.values:
        v = s.values[0]
        return isinstance(v, ast.FormattedValue) and v.conversion == -1 and v.format_spec is None and _leads_with_prefix(v.value)
    return chain(s) == "self.prefix_id"


_WIDTH = "160 - len(self.prefix_id)"


def _no_suffix_needed(conds: tuple) -> bool:
    """The path conditions say that the prefix is already 160 bits long."""
    for t, pol in conds:
        for f in _atoms_with_polarity(t, pol):
            l, r = norm(f.left), (norm(f.right) if f.right is not None else None)
            if f.op == "truthy" and not f.pos and l == _WIDTH:
                return True
            if f.op == "eq" and f.pos and ({l, r} == {_WIDTH, "0"} or {l, r} == {"len(self.prefix_id)", "160"}):
                return True
            if f.op == "lt" and not f.pos and ((l, r) == ("0", _WIDTH) or (l, r) == ("len(self.prefix_id)", "160")):
                return True
    return False




# ----------------------------------------------------------------------------------- verdicts
def _und(ctx: Ctx, rule: str, fi, node, what: str) -> None:
    """A sub-check cannot be decided for this shape of the code (the construct it reasons about is not recognisable):
    recorded, and turned into `undecided` (exit 2) at the end of the run unless a definite violation was found as well.
    Never used when the construct IS recognised and the required guard / value is missing or different: that is a violation."""
    where = fi.where if hasattr(fi, "where") else str(fi)
    line = getattr(node, "lineno", 0) if node is not None and not isinstance(node, str) else 0
    ctx.extra.setdefault("c14_undecided", []).append(f"{ctx.rule_id(rule)} at {where}:{line}: {what}")


def _verdict(ctx: Ctx, state: bool | None, rule: str, fi, node, desc: str, reason: str = "", facts: list[str] | None = None, unknown: str = "") -> None:
    """state True: holds; False: violation; None: undecided (with `unknown` saying what was not recognised)"""
    if state is None:
        _und(ctx, rule, fi, node, unknown or desc)
    else:
        ctx.check(bool(state), rule, fi, node, desc, reason, facts)


def finish_undecided(ctx: Ctx) -> None:
    und = ctx.extra.get("c14_undecided") or []
    if und and not ctx.findings:
        raise AnalysisError("undecided: " + " | ".join(dict.fromkeys(und)))
    for u in dict.fromkeys(und):
        ctx.note("undecided part (a violation was reported elsewhere): " + u)


def _tri(strict: bool, lax: bool) -> bool | None:
    """recognised and right: True; the same construction with another constant / operator / method: False; not recognised: None"""
    return True if strict else (False if lax else None)


def _under_match(fr: _Frame | None, node: ast.AST, fi: FuncInfo | None = None) -> bool:
    """the node (or the call that leads to it, up the call tree) sits inside a `match` statement: the control-flow graph
    gives no conditions for case patterns, so a missing guard there is not a finding but an unknown"""
    while True:
        if any(isinstance(a, ast.Match) for a in ancestors(node)):
            return True
        if fr is None or fr.parent is None:
            return False
        node, fr = fr.site, fr.parent


# ----------------------------------------------------------------------------------- recognisers shared by the rules
def _assign_targets(n: ast.AST) -> list[tuple[ast.AST, ast.AST | None]]:
    """(single target, assigned value) pairs of an assignment statement; value None when it is not the whole right side."""
    if isinstance(n, ast.Assign):
        out = []
        for t in n.targets:
            if isinstance(t, (ast.Tuple, ast.List)):
                starred = any(isinstance(e, ast.Starred) for e in t.elts)
                for i, e in enumerate(t.elts):
                    if isinstance(n.value, (ast.Tuple, ast.List)) and len(n.value.elts) == len(t.elts) and not starred:
                        v = n.value.elts[i]
                    elif not starred:
                        v = ast.copy_location(ast.Subscript(value=n.value, slice=ast.Constant(value=i), ctx=ast.Load()), n.value)   # i-th element of the value
                    else:
                        v = None
                    out.append((e, v))
            else:
                out.append((t, n.value))
        return out
    if isinstance(n, ast.AnnAssign) and n.value is not None:
        return [(n.target, n.value)]
    if isinstance(n, ast.AugAssign):
        return [(n.target, None)]
    return []


def _int_of_bytes(e: ast.AST, p: str, ctx: Ctx | None = None, depth: int = 2, lax: bool = False) -> bool:
    """the big-endian integer value of the bytes parameter p (directly, or through a module function all of whose returns
    give the big-endian integer value of its own parameter; a raise for a degenerate input is not a value).
    lax: the same constructions with any base / byte order."""
    e = strip_cast(e)
    if not isinstance(e, ast.Call):
        return False

    def is_p(x: ast.AST) -> bool:
        """the parameter itself; lax: also a slice / item of it or bytes(...) of that - the same construction over a part of the id"""
        x = strip_cast(x)
        if norm(x) == p:
            return True
        if lax and isinstance(x, ast.Call) and chain(x.func) in ("bytes", "bytearray", "memoryview") and len(x.args) == 1:
            x = strip_cast(x.args[0])
        return lax and isinstance(x, ast.Subscript) and norm(strip_cast(x.value)) == p
    if isinstance(e.func, ast.Call) and chain(e.func.func) in ("partial", "functools.partial") and e.func.args \
            and not any(isinstance(x, ast.Starred) for x in [*e.func.args, *e.args]):
        # partial(f, *a, **k)(*b) == f(*a, *b, **k)
        e = ast.Call(func=e.func.args[0], args=[*e.func.args[1:], *e.args], keywords=[*e.func.keywords, *e.keywords])
    c = chain(e.func)
    if ctx is not None and depth > 0 and isinstance(e.func, ast.Name) and len(e.args) == 1 and not e.keywords and is_p(e.args[0]):
        g = ctx.repo.module(RT).functions.get(e.func.id)
        if g is not None and len(g.params()) == 1 and not _is_generator(g.node):
            alts = _return_alternatives(g, ctx)
            return bool(alts) and all(_int_of_bytes(a, g.params()[0], ctx, depth - 1, lax) for a in alts)
    if c == "int" and len(e.args) == 2 and (lax or const_value(e.args[1]) == 16) and not e.keywords:
        h = strip_cast(e.args[0])
        if isinstance(h, ast.Call) and not h.keywords:
            hc = chain(h.func)
            if hc in ("binascii.hexlify", "hexlify") and len(h.args) == 1 and is_p(h.args[0]):
                return True
            if isinstance(h.func, ast.Attribute) and h.func.attr == "hex" and is_p(h.func.value) and not h.args:
                return True
        return False
    if c == "int.from_bytes" and e.args and is_p(e.args[0]):
        order = arg(e, 1, "byteorder")
        return lax or (order is not None and const_value(order) == "big")
    return False


def _is_bin160(e: ast.AST, p: str, ctx: Ctx | None = None, lax: bool = False) -> bool:
    """the 160 character zero-padded binary rendering of the bytes parameter p.  lax: the same constructions with any
    width / format specification / byte order."""
    e = strip_cast(e)

    def spec_ok(x, want) -> bool:
        return isinstance(const_value(x), str) if lax else const_value(x) == want

    def ioB(x) -> bool:
        return _int_of_bytes(x, p, ctx, 2, lax)
    if isinstance(e, ast.Call) and isinstance(e.func, ast.Attribute) and e.func.attr == "join" and const_value(e.func.value) == "" and len(e.args) == 1 \
            and isinstance(e.args[0], (ast.GeneratorExp, ast.ListComp)) and len(e.args[0].generators) == 1 and not e.args[0].generators[0].ifs:
        # byte by byte, 8 bits each: the same 160 characters for a 20-byte id (ids are 20 bytes: calc_node_id)
        g, elt = e.args[0].generators[0], strip_cast(e.args[0].elt)

        def byte_bits(elt: ast.AST, b: str, depth: int = 2) -> bool:
            """elt is the 8 character binary rendering of the byte value named b"""
            if isinstance(elt, ast.Call) and chain(elt.func) == "format" and len(elt.args) == 2 and norm(elt.args[0]) == b and spec_ok(elt.args[1], "08b"):
                return True
            if isinstance(elt, ast.Call) and isinstance(elt.func, ast.Attribute) and elt.func.attr == "format" and len(elt.args) == 1 and not elt.keywords \
                    and norm(elt.args[0]) == b and (const_value(elt.func.value) in ("{:08b}", "{0:08b}") or (lax and isinstance(const_value(elt.func.value), str))):
                return True
            if isinstance(elt, ast.JoinedStr) and len(elt.values) == 1 and isinstance(elt.values[0], ast.FormattedValue) and norm(elt.values[0].value) == b \
                    and isinstance(elt.values[0].format_spec, ast.JoinedStr) and len(elt.values[0].format_spec.values) == 1 \
                    and spec_ok(elt.values[0].format_spec.values[0], "08b"):
                return True
            if isinstance(elt, ast.Subscript) and isinstance(elt.value, ast.Name) and norm(elt.slice) == b and ctx is not None and depth > 0:
                # a module-level table: TABLE = tuple(format(v, "08b") for v in range(256)); TABLE[byte]
                t = ctx.repo.module(RT).constants.get(elt.value.id)
                t = _strip_snapshot(strip_cast(t)) if t is not None else None
                if isinstance(t, (ast.ListComp, ast.GeneratorExp)) and len(t.generators) == 1 and not t.generators[0].ifs and isinstance(t.generators[0].target, ast.Name):
                    r = strip_cast(t.generators[0].iter)
                    if isinstance(r, ast.Call) and chain(r.func) == "range" and len(r.args) == 1 and const_value(r.args[0]) == 256:
                        return byte_bits(strip_cast(t.elt), t.generators[0].target.id, depth - 1)
            return False
        if isinstance(g.target, ast.Name) and norm(strip_cast(g.iter)) == p:
            return byte_bits(elt, g.target.id)
        return False
    if isinstance(e, ast.Call) and chain(e.func) == "format" and len(e.args) == 2 and not e.keywords:
        return spec_ok(e.args[1], "0160b") and ioB(e.args[0])
    if isinstance(e, ast.JoinedStr) and len(e.values) == 1 and isinstance(e.values[0], ast.FormattedValue):
        v = e.values[0]
        spec = v.format_spec
        return v.conversion == -1 and isinstance(spec, ast.JoinedStr) and len(spec.values) == 1 and spec_ok(spec.values[0], "0160b") and ioB(v.value)
    if isinstance(e, ast.Call) and isinstance(e.func, ast.Attribute) and not e.keywords:
        if e.func.attr == "format" and len(e.args) == 1 and (const_value(e.func.value) in ("{:0160b}", "{0:0160b}") or (lax and isinstance(const_value(e.func.value), str))):
            return ioB(e.args[0])
        if (e.func.attr == "zfill" and len(e.args) == 1 and (lax or const_value(e.args[0]) == 160)) or \
                (e.func.attr in ("rjust", "ljust") and len(e.args) == 2 and ((e.func.attr == "rjust" and const_value(e.args[0]) == 160 and const_value(e.args[1]) == "0") or lax)):
            b = strip_cast(e.func.value)
            if isinstance(b, ast.Subscript) and isinstance(b.slice, ast.Slice) and (lax or const_value(b.slice.lower) == 2) and b.slice.upper is None and b.slice.step is None:
                b = strip_cast(b.value)
                return isinstance(b, ast.Call) and chain(b.func) == "bin" and len(b.args) == 1 and ioB(b.args[0])
    return False


def _return_alternatives(fi: FuncInfo, ctx: Ctx | None = None) -> list[ast.AST]:
    """The value of every return of fi as an expression over parameters / attributes, conditional expressions split;
    with ctx: constants of the program (module-level names, derived widths) replaced by their values."""
    if ctx is not None:
        return [_fold_consts(ctx, fi, v) for v in _return_alternatives(fi)]
    rets = [r for r in walk_no_nested(fi.node) if isinstance(r, ast.Return)]
    try:
        values = _sym_returns(fi)
        if {id(r) for r, _, _ in values} != {id(r) for r in rets}:
            raise _Unsupported
    except _Unsupported:
        values = [(r, (), _expand(fi, r.value) if r.value is not None else ast.Constant(value=None)) for r in rets]
    return [full for _r, conds, v in values for _c, full in _alternatives(v, conds)]


def _is_prefix_test(e: ast.AST, p: str, lax: bool = False) -> bool:
    """binary(p) starts with self.prefix_id.  lax: the same constructions with another string method / comparison / slice."""
    e = strip_cast(e)
    binary = f"id_to_binary_string({p})"
    if isinstance(e, ast.Call) and chain(e.func) == "bool" and len(e.args) == 1:
        e = strip_cast(e.args[0])
    if isinstance(e, ast.UnaryOp) and isinstance(e.op, ast.Not) and lax:
        return _is_prefix_test(e.operand, p, True)
    if isinstance(e, ast.BoolOp) and isinstance(e.op, ast.And):
        # `len(prefix) <= len(binary) and <prefix test>`: the length test is implied by the prefix test
        def length_guard(x: ast.AST) -> bool:
            f = _atoms_with_polarity(x, True)
            return len(f) == 1 and f[0].op == "lt" and f[0].right is not None and not f[0].pos \
                and norm(f[0].left) == f"len({binary})" and norm(f[0].right) == "len(self.prefix_id)"
        rest = [v for v in e.values if not length_guard(v)]
        if len(rest) == 1 and len(e.values) > 1:
            return _is_prefix_test(rest[0], p, lax)
    if isinstance(e, ast.Compare) and len(e.ops) == 1 and (lax or isinstance(e.ops[0], ast.Eq)) and const_value(e.comparators[0]) == 0:
        # binary.find(prefix, 0, len(prefix)) == 0
        c = strip_cast(e.left)
        if isinstance(c, ast.Call) and isinstance(c.func, ast.Attribute) and c.func.attr in ("find", "index") and norm(strip_cast(c.func.value)) == binary \
                and c.args and norm(c.args[0]) == "self.prefix_id" and not c.keywords:
            return lax or (len(c.args) == 3 and const_value(c.args[1]) == 0 and norm(c.args[2]) == "len(self.prefix_id)")
    if isinstance(e, ast.Call) and chain(e.func) == "all" and len(e.args) == 1 and isinstance(strip_cast(e.args[0]), ast.Call) \
            and chain(strip_cast(e.args[0]).func) == "map" and len(strip_cast(e.args[0]).args) == 3:
        # all(map(operator.eq, prefix, binary))
        m = strip_cast(e.args[0])
        if (chain(m.args[0]) in ("operator.eq", "eq") or lax) and {norm(strip_cast(x)) for x in m.args[1:]} == {"self.prefix_id", binary}:
            return True
    if isinstance(e, ast.Call) and isinstance(e.func, ast.Attribute) and norm(strip_cast(e.func.value)) == binary and not e.keywords \
            and (e.func.attr == "startswith" or (lax and e.func.attr in ("endswith", "count", "__contains__", "startswith"))):
        return len(e.args) == 1 and norm(e.args[0]) == "self.prefix_id" or (lax and len(e.args) >= 1)
    if lax and isinstance(e, ast.Compare) and len(e.ops) == 1 and isinstance(e.ops[0], (ast.In, ast.NotIn)) \
            and norm(strip_cast(e.left)) == "self.prefix_id" and norm(strip_cast(e.comparators[0])) == binary:
        return True
    if isinstance(e, ast.Call) and chain(e.func) == "all" and len(e.args) == 1 and isinstance(e.args[0], (ast.GeneratorExp, ast.ListComp)) \
            and len(e.args[0].generators) == 1 and not e.args[0].generators[0].ifs:
        # all(a == b for a, b in zip(prefix, binary)): the binary id (160 characters) is never shorter than a prefix
        g = e.args[0].generators[0]
        z = strip_cast(g.iter)
        t, c = g.target, e.args[0].elt
        if isinstance(z, ast.Call) and chain(z.func) == "zip" and len(z.args) == 2 and isinstance(t, ast.Tuple) and len(t.elts) == 2 \
                and all(isinstance(x, ast.Name) for x in t.elts) and isinstance(c, ast.Compare) and len(c.ops) == 1 and (lax or isinstance(c.ops[0], ast.Eq)) \
                and {norm(c.left), norm(c.comparators[0])} == {t.elts[0].id, t.elts[1].id}:
            return {norm(strip_cast(x)) for x in z.args} == {"self.prefix_id", binary}
        return False
    if isinstance(e, ast.Compare) and len(e.ops) == 1 and (lax or isinstance(e.ops[0], ast.Eq)):
        sides = [strip_cast(e.left), strip_cast(e.comparators[0])]
        for a, b in (sides, sides[::-1]):
            if norm(a) == "self.prefix_id" and isinstance(b, ast.Subscript) and isinstance(b.slice, ast.Slice) and norm(strip_cast(b.value)) == binary:
                if lax or (b.slice.lower is None and b.slice.step is None and b.slice.upper is not None and norm(b.slice.upper) == "len(self.prefix_id)"):
                    return True
    return False


def _call_fact(f: Fact, pos: bool, recv: str, meth: str, args: list[str] | None = None) -> bool:
    if f.op != "truthy" or f.pos != pos:
        return False
    c = strip_cast(f.left)
    if not (isinstance(c, ast.Call) and isinstance(c.func, ast.Attribute) and c.func.attr == meth and norm(c.func.value) == recv):
        return False
    return args is None or [norm(a) for a in c.args] == args


def _cmp_sat(f: Fact, a_text: str, b_text: str) -> set[tuple[int, int]] | None:
    """The small integer values (A, B) of the two named quantities for which the comparison fact holds; None when the fact
    is not a comparison of integer arithmetic over exactly these two quantities and constants.  (So `a + 1 > b`,
    `b - a <= 0`, `not a < b`, `a == b`, `a >= b + 1` ... are all understood by what they say, not by their spelling.)"""
    if f.right is None or f.op not in ("lt", "eq"):
        return None

    class Other(Exception):
        pass

    def ev(e, A, B):
        e = strip_cast(e)
        t = norm(e)
        if t == a_text:
            return A
        if t == b_text:
            return B
        if isinstance(e, ast.Constant) and isinstance(e.value, int) and not isinstance(e.value, bool):
            return e.value
        if isinstance(e, ast.BinOp) and isinstance(e.op, (ast.Add, ast.Sub)):
            x, y = ev(e.left, A, B), ev(e.right, A, B)
            return x + y if isinstance(e.op, ast.Add) else x - y
        if isinstance(e, ast.UnaryOp) and isinstance(e.op, ast.USub):
            return -ev(e.operand, A, B)
        raise Other
    both = norm(f.left) + " " + norm(f.right)
    if a_text not in both or b_text not in both:
        return None
    sat = set()
    try:
        for A in range(0, 7):
            for B in range(0, 7):
                x, y = ev(f.left, A, B), ev(f.right, A, B)
                if ((x < y) if f.op == "lt" else (x == y)) == f.pos:
                    sat.add((A, B))
    except Other:
        return None
    return sat


def _len_vs_max(f: Fact, recv: str) -> str | None:
    """What the fact says about len(<recv>.nodes) versus <recv>.max_size: 'room' (<), 'full' (>=), None."""
    sat = _cmp_sat(f, f"len({recv}.nodes)", f"{recv}.max_size")
    if not sat:
        return None
    if all(L < M for L, M in sat):
        return "room"
    if all(L >= M for L, M in sat):
        return "full"
    return None


def _table_functions(ctx: Ctx) -> list[FuncInfo]:
    """Every function that belongs to the routing table's code: those of dht/routing.py and those of the repository
    modules it imports FUNCTIONS from (a helper that moved to another module is still part of the closed set of
    functions that may touch a bucket's node table)."""
    rtm = ctx.repo.module(RT)
    out = list(rtm.all_functions)
    seen = {id(rtm)}
    for name in rtm.imports:
        r = ctx.repo.resolve_name(rtm, name)
        mods = [r.module] if isinstance(r, FuncInfo) else ([r[1]] if isinstance(r, tuple) and r[0] == "module" and r[1] is not None else [])
        for m in mods:
            if id(m) not in seen and m.relpath.startswith("ipv8/dht/"):
                seen.add(id(m))
                out.extend(m.all_functions)
    return out


def _nodes_base(fr: _Frame, e: ast.AST) -> str | None:
    """e is `<recv>.nodes` (after translation): the receiver text"""
    t = fr.tr(e)
    return norm(t.value) if isinstance(t, ast.Attribute) and t.attr == "nodes" else None


def _nodes_removals(cl: _Closure) -> list[tuple[_Frame, ast.AST, str, ast.AST | None]]:
    """(frame, node, receiver, key) of everything that takes entries out of a `<recv>.nodes` mapping"""
    out = []
    for fr, n in cl.nodes:
        if isinstance(n, ast.Call) and isinstance(n.func, ast.Attribute) and n.func.attr in ("pop", "popitem", "clear", "__delitem__"):
            recv = _nodes_base(fr, n.func.value)
            if recv is not None:
                out.append((fr, n, recv, n.args[0] if n.args and n.func.attr in ("pop", "__delitem__") else None))
        elif isinstance(n, ast.Delete):
            for t in n.targets:
                if isinstance(t, ast.Subscript):
                    recv = _nodes_base(fr, t.value)
                    if recv is not None:
                        out.append((fr, n, recv, t.slice))
    return out


def _nodes_insertions(cl: _Closure) -> list[tuple[_Frame, ast.AST, str, ast.AST | None, ast.AST | None]]:
    """(frame, node, receiver, key, value) of everything that puts entries into a `<recv>.nodes` mapping"""
    out = []
    for fr, n in cl.nodes:
        for t, v in _assign_targets(n):
            if isinstance(t, ast.Subscript):
                recv = _nodes_base(fr, t.value)
                if recv is not None:
                    out.append((fr, n, recv, t.slice, v))
        if isinstance(n, ast.Call) and isinstance(n.func, ast.Attribute) and n.func.attr in ("setdefault", "__setitem__", "update"):
            recv = _nodes_base(fr, n.func.value)
            if recv is not None:
                two = len(n.args) == 2 and n.func.attr != "update"
                out.append((fr, n, recv, n.args[0] if two else None, n.args[1] if two else None))
    return out


def _node_id_inputs(ctx: Ctx) -> set[str]:
    """the attributes of a Node its identifier is computed from (read from the `id` property: calc_node_id(self.address, self.mid))"""
    ci = ctx.repo.try_cls("Node", RT)
    getter = ci.lookup("id") if ci is not None else None
    if getter is None:
        return {"address"}
    out = {n.attr for n in ast.walk(getter.node) if isinstance(n, ast.Attribute) and isinstance(n.value, ast.Name) and n.value.id == "self"}
    out = {a for a in out if not a.startswith("_")}
    if "mid" in out:
        out |= {"key", "public_key"}
    return (out | {"address"}) - {"last_changed", "bucket"}


def _entry_selected_by_id(fr: _Frame, leaf: ast.AST, node: str) -> bool | None:
    """leaf picks a stored entry out of the node table by searching: next(<x for x in ...nodes.values() if COND>[, None]).
    True when COND requires x.id == node.id (the entry filed under that id); False when it draws from the node table under
    another condition (another entry of the bucket); None otherwise."""
    leaf = strip_cast(leaf)
    if not (isinstance(leaf, ast.Call) and chain(leaf.func) == "next" and leaf.args):
        return None
    g = strip_cast(leaf.args[0])
    if isinstance(g, ast.Call) and chain(g.func) == "iter" and len(g.args) == 1:
        g = strip_cast(g.args[0])
    if not (isinstance(g, (ast.GeneratorExp, ast.ListComp)) and len(g.generators) == 1 and isinstance(g.generators[0].target, ast.Name)
            and isinstance(g.elt, ast.Name) and g.elt.id == g.generators[0].target.id):
        return None
    x = g.elt.id
    fs = _comp_filter_facts(g, {x})
    want = {f"{x}.id", norm(fr.tr(ast.parse(f"{node}.id", mode="eval").body))}
    if any(f.op == "eq" and f.pos and f.right is not None and {norm(f.left), norm(fr.tr(f.right))} == want or
           f.op == "eq" and f.pos and f.right is not None and {norm(fr.tr(f.left)), norm(f.right)} == want for f in fs):
        return True
    return False if _raw_nodes_source(fr.fi, g.generators[0].iter) else None


def rule_bucket(ctx: Ctx) -> None:
    repo = ctx.repo
    add = _anchor_method(ctx, "Bucket", "add")
    node = add.params()[1]
    cl = _Closure(ctx, add, stop=(node,))
    ins = _nodes_insertions(cl)
    if not ins:
        _und(ctx, "bucket-insert", add, add.node, "no store into self.nodes is recognisable in Bucket.add or the helpers it calls")
    for fr, s, recv, k, v in ins:
        fs = cl.facts(fr, s)
        owns = any(_call_fact(f, True, recv, "owns", [f"{node}.id"]) for f in fs)
        room = any(_len_vs_max(f, recv) == "room" for f in fs)
        key = recv == "self" and k is not None and v is not None and fr.ntr(k) == f"{node}.id" and fr.ntr(v) == node
        state = True if owns and room and key else (None if key and _under_match(fr, s) else False)
        _verdict(ctx, state, "bucket-insert", fr.fi, s, "nodes[node.id] = node dominated by owns(node.id) and len(nodes) < max_size",
                 f"a node can be stored in a bucket that does not own its id or that is full (owns={owns} room={room} keyed_by_id={key})", sorted({str(f) for f in fs}),
                 unknown="the store is inside a match statement: the case patterns that guard it give no conditions")
    # the update branch changes the address only
    for fr, s in cl.nodes:
        for t, _v in _assign_targets(s):
            if isinstance(t, ast.Attribute) and t.attr not in ("last_changed", "bucket", "address"):
                ctx.check(False, "bucket-insert", fr.fi, s, "add only sets address/last_changed/bucket", "Bucket.add rewrites an unexpected attribute")
    # Node.id is computed from (address, mid): the update branch may give the incoming node's address only to the entry that is
    # filed under the incoming node's id - then the stored object still has the id it is filed under (and its bucket owns it).
    # Rewriting the address of an entry found any other way (same peer, same mid ...) changes its identifier under its key.
    id_inputs = _node_id_inputs(ctx)
    for fr, s in cl.nodes:
        for t, v in _assign_targets(s):
            if not (isinstance(t, ast.Attribute) and t.attr in id_inputs):
                continue
            obj = fr.tr(t.value)
            if norm(obj) == node:
                continue                                                  # the incoming node itself is not a stored entry yet
            def keyed(e: ast.AST, fr=fr) -> bool:
                """self.nodes[node.id] / self.nodes.get(node.id[, D]) with D not an entry of a node table (a constant / module-level sentinel)"""
                e = strip_cast(e)
                if isinstance(e, ast.Subscript):
                    return norm(e) == f"self.nodes[{node}.id]"
                if isinstance(e, ast.Call) and norm(e.func) == "self.nodes.get" and not e.keywords and 1 <= len(e.args) <= 2 and norm(e.args[0]) == f"{node}.id":
                    d = strip_cast(e.args[1]) if len(e.args) == 2 else None
                    return d is None or isinstance(d, ast.Constant) or (isinstance(d, ast.Name) and d.id not in _bound_locals(fr.root().fi.node)
                                                                        and d.id not in fr.root().fi.params() and "@" not in d.id)
                return False
            fs = cl.facts(fr, s)
            same_id = any(f.op == "eq" and f.pos and f.right is not None and {norm(f.left), norm(f.right)} == {f"{norm(t.value)}.id", f"{node}.id"} for f in fs) or \
                any(f.op == "eq" and f.pos and f.right is not None and {norm(f.left), norm(f.right)} == {f"{norm(obj)}.id", f"{node}.id"} for f in fs)
            states: list[bool | None] = []
            if keyed(obj) or same_id:
                states.append(True)
            else:
                leaves = _value_leaves(fr.fi, t.value, s) if fr.parent is None else None
                for leaf, _site in (leaves or [(None, None)]):
                    if leaf is None:
                        states.append(None)
                    elif const_value(leaf) is None:
                        continue                                          # no entry: the store fails / is guarded
                    elif keyed(fr.tr(leaf)):
                        states.append(True)
                    else:
                        states.append(_entry_selected_by_id(fr, leaf, node))
            ok_value = v is not None and fr.ntr(v) == f"{node}.{t.attr}"
            state = False if any(x is False for x in states) else (True if states and all(x is True for x in states) and ok_value else None)
            _verdict(ctx, state, "bucket-insert", fr.fi, s, f"only the entry filed under {node}.id receives {node}.{t.attr}",
                     f"Bucket.add rewrites `{t.attr}` (an input of Node.id) of a stored entry that is not the one filed under {node}.id: the stored node changes its "
                     "identifier while it stays filed under the old key, possibly in a bucket that does not own the new identifier",
                     unknown=f"which stored entry receives a new `{t.attr}` (an input of Node.id) in Bucket.add is not recognised as self.nodes[{node}.id]")

    # nobody else fills a bucket: the ownership and capacity guards live in Bucket.add only
    rt_module = repo.module(RT)

    def called_in_module(name: str) -> bool:
        return any(isinstance(n, ast.Call) and call_name(n) == name for n in ast.walk(rt_module.tree))
    for fi in _table_functions(ctx):
        if id(fi.node) in cl.visited or any(id(a) in cl.visited for a in ancestors(fi.node)):
            continue
        if fi.module is rt_module and fi.name.startswith("_") and not fi.name.startswith("__") and not called_in_module(fi.name):
            continue        # a private helper nothing in this module calls (its body was inlined at its call sites by the engine, where it is checked)
        other = _Closure(ctx, fi, maxdepth=0)
        for fr, s, recv, k, v in _nodes_insertions(other):
            ctx.check(False, "bucket-insert", fi, s, f"bucket contents written in {fi.qualname}",
                      "a node is put into a bucket's node table outside Bucket.add: neither the ownership nor the capacity guard applies")
    owns = _anchor_method(ctx, "Bucket", "owns")
    alts = _return_alternatives(owns, ctx)
    two = len(owns.params()) == 2
    state = _tri(bool(alts) and two and all(_is_prefix_test(v, owns.params()[1]) for v in alts),
                 bool(alts) and two and all(_is_prefix_test(v, owns.params()[1], lax=True) for v in alts))
    _verdict(ctx, state, "bucket-insert", owns, owns.node, "owns(id) = binary(id).startswith(prefix_id)", "bucket ownership is no longer the prefix test on the binary id",
             unknown="Bucket.owns is not written as a prefix test on the binary rendering (startswith / slice comparison / zip): that it equals one is not decided")
    ib = _rt_function(ctx, "id_to_binary_string")
    alts = _return_alternatives(ib, ctx)
    state = _tri(bool(alts) and all(_is_bin160(v, ib.params()[0], ctx) for v in alts), bool(alts) and all(_is_bin160(v, ib.params()[0], ctx, lax=True) for v in alts))
    if state is None and len(ib.params()) == 1:
        # not a known spelling: evaluated for sample 20-byte ids (pure integer / bytes / string arithmetic only)
        state = _agrees_on_samples(ctx, ib, lambda x: format(int.from_bytes(x, "big"), "0160b"), [(x,) for x in _SAMPLE_IDS])
    _verdict(ctx, state, "bucket-insert", ib, ib.node, "binary id = 160-bit zero-padded big-endian", "id_to_binary_string is no longer the 160-bit big-endian rendering",
             unknown="id_to_binary_string is not one of the known renderings (format / f-string / bin().zfill / per-byte join): not decided")
    # removal from a bucket only of BAD nodes / slow nodes when full; pops are keyed by the node's own id
    for fr, c, recv, k in _nodes_removals(cl):
        fs = cl.facts(fr, c)
        full = any(_len_vs_max(f, recv) == "full" for f in fs)
        state = True if full and recv == "self" else (None if _under_match(fr, c) else False)
        _verdict(ctx, state, "bucket-insert", fr.fi, c, "eviction only when the bucket is full",
                 "nodes are evicted from a bucket that is not full", sorted({str(f) for f in fs}),
                 unknown="the eviction is inside a match statement: the case patterns that guard it give no conditions")


def _child_frame(cl: _Closure, call: ast.Call) -> _Frame | None:
    return next((f for f in cl.frames if f.site is call), None)


def _child_frames(cl: _Closure, call: ast.Call) -> list[_Frame]:
    """the activations a call starts (several when the callee is picked from a dispatch table / conditional expression)"""
    return [f for f in cl.frames if f.site is call]


def _denotes_split(cl: _Closure, fr: _Frame, e: ast.AST, site: ast.AST, recv: str, depth: int = 8) -> bool | None:
    """e (evaluated at `site` of frame fr) is the pair returned by <recv>.split(): True; it is None / False: None; anything
    else: False.  Followed through ALL assignments that reach the site, conditional expressions, helper parameters and the
    return values of helpers in the call tree; a mix of split results and None counts as True (None is never unpacked)."""
    if depth <= 0 or e is None:
        return False
    e = strip_cast(e)
    if isinstance(e, ast.NamedExpr):
        e = strip_cast(e.value)

    def combine(parts) -> bool | None:
        parts = list(parts)
        if not parts or any(p is False for p in parts):
            return False
        return True if any(p is True for p in parts) else None
    if _is_split_call(e):
        return fr.ntr(e.func.value, expand=False) == recv
    if isinstance(e, ast.Constant):
        return None if not e.value else False
    if isinstance(e, ast.IfExp):
        return combine([_denotes_split(cl, fr, e.body, site, recv, depth - 1), _denotes_split(cl, fr, e.orelse, site, recv, depth - 1)])
    if isinstance(e, ast.BoolOp):
        if isinstance(e.op, ast.And):
            return _denotes_split(cl, fr, e.values[-1], site, recv, depth - 1)       # falsy earlier operands are not pairs
        return combine(_denotes_split(cl, fr, v, site, recv, depth - 1) for v in e.values)
    if isinstance(e, ast.Name):
        rs = _reaching(cl.ctx, fr.fi, e.id, site)
        if not rs:
            if fr.parent is not None and e.id in fr.raw_env:
                return _denotes_split(cl, fr.parent, fr.raw_env[e.id], fr.site, recv, depth - 1)
            return False
        out = []
        for st, v, idx in rs:
            if v is None:
                return False
            if idx is None:
                out.append(_denotes_split(cl, fr, v, st, recv, depth - 1))
            else:
                out.append(_project(cl, fr, v, idx, st, recv, depth - 1))
        return combine(out)
    if isinstance(e, ast.Call):
        kids = _child_frames(cl, e)
        if kids:
            return combine(_denotes_split(cl, child, r.value, r, recv, depth - 1) if r.value is not None else None
                           for child in kids for r in walk_no_nested(child.fi.node) if isinstance(r, ast.Return))
    return False


def _project(cl: _Closure, fr: _Frame, v: ast.AST, idx: int, site: ast.AST, recv: str, depth: int) -> bool | None:
    """element idx of the tuple value v (a literal tuple, a local holding one, a helper returning tuples) denotes the split pair"""
    v = strip_cast(v)
    if depth <= 0:
        return False
    if isinstance(v, (ast.Tuple, ast.List)) and idx < len(v.elts) and not any(isinstance(x, ast.Starred) for x in v.elts):
        return _denotes_split(cl, fr, v.elts[idx], site, recv, depth - 1)
    if isinstance(v, ast.Call):
        kids = _child_frames(cl, v)
        if kids:
            parts = [_project(cl, child, r.value, idx, r, recv, depth - 1) if r.value is not None else False
                     for child in kids for r in walk_no_nested(child.fi.node) if isinstance(r, ast.Return)]
            if not parts or any(p is False for p in parts):
                return False
            return True if any(p is True for p in parts) else None
    if isinstance(v, ast.Name):
        rs = _reaching(cl.ctx, fr.fi, v.id, site)
        parts = [_project(cl, fr, val, idx, st, recv, depth - 1) if val is not None and i2 is None else False for st, val, i2 in rs]
        if not parts or any(p is False for p in parts):
            return False
        return True if any(p is True for p in parts) else None
    return False


def _split_index(cl: _Closure, fr: _Frame, v: ast.AST, recv: str, site: ast.AST, depth: int = 8) -> int | None:
    """v (evaluated at `site`) is the i-th half returned by <recv>.split(): followed through every assignment that reaches
    the site, 2-name unpacking, constant subscripts and helper parameters."""
    if depth <= 0 or v is None:
        return None
    v = strip_cast(v)
    if isinstance(v, ast.Subscript):
        i = const_value(v.slice)
        if isinstance(i, int) and not isinstance(i, bool) and i in (0, 1) and _denotes_split(cl, fr, v.value, site, recv) is True:
            return i
        return None
    if isinstance(v, ast.Attribute) and isinstance(v.ctx, ast.Load) and _denotes_split(cl, fr, v.value, site, recv) is True:
        # split() returns a NamedTuple: the field read is the element at the field's position
        sf = _anchor_method(cl.ctx, "Bucket", "split")
        names = {r.value.func.id for r in walk_no_nested(sf.node) if isinstance(r, ast.Return) and isinstance(r.value, ast.Call) and isinstance(r.value.func, ast.Name)}
        fields = _namedtuple_fields(sf, next(iter(names))) if len(names) == 1 else None
        if fields is not None and len(fields) == 2 and v.attr in fields:
            return fields.index(v.attr)
        return None
    if isinstance(v, ast.Name):
        rs = _reaching(cl.ctx, fr.fi, v.id, site)
        if not rs:
            if fr.parent is not None and v.id in fr.raw_env:
                return _split_index(cl, fr.parent, fr.raw_env[v.id], recv, fr.site, depth - 1)
            return None
        got = set()
        for st, val, idx in rs:
            if val is None:
                return None
            if idx is None:
                r = _split_index(cl, fr, val, recv, st, depth - 1)
            else:
                tg = [t for t in getattr(st, "targets", [getattr(st, "target", None)]) if isinstance(t, (ast.Tuple, ast.List))]
                two = bool(tg) and all(len(t.elts) == 2 and not any(isinstance(x, ast.Starred) for x in t.elts) for t in tg)
                r = idx if two and idx in (0, 1) and _denotes_split(cl, fr, val, st, recv) is True else None
            if r is None:
                return None
            got.add(r)
        return got.pop() if len(got) == 1 else None
    return None


def _trie_writes(cl: _Closure) -> list[tuple[_Frame, ast.AST, str, ast.AST, ast.AST | None]]:
    """('store' | 'del', key, value) of every write to self.trie[...] in the call tree"""
    out = []
    for fr, n in cl.nodes:
        for t, v in _assign_targets(n):
            if isinstance(t, ast.Subscript) and fr.ntr(t.value) == "self.trie":
                out.append((fr, n, "store", t.slice, v))
        if isinstance(n, ast.Delete):
            for t in n.targets:
                if isinstance(t, ast.Subscript) and fr.ntr(t.value) == "self.trie":
                    out.append((fr, n, "del", t.slice, None))
        if isinstance(n, ast.Call) and isinstance(n.func, ast.Attribute) and n.func.attr in ("__setitem__", "__delitem__") and fr.ntr(n.func.value) == "self.trie":
            if n.func.attr == "__setitem__" and len(n.args) == 2:
                out.append((fr, n, "store", n.args[0], n.args[1]))
            elif n.func.attr == "__delitem__" and len(n.args) == 1:
                out.append((fr, n, "del", n.args[0], None))
    return out


def _reaching(ctx: Ctx, fi: FuncInfo, name: str, site: ast.AST) -> list[tuple[ast.AST, ast.AST | None, int | None]]:
    """The assignments (statement, value, unpack index) of local `name` that can be the current one when `site` is
    evaluated: CFG, an assignment reaches the site if a path leads from it to the site without another assignment of
    the name.  (An assignment statement does not reach its own right side, a walrus reaches the rest of its condition.)"""
    defs = local_defs(fi, name)
    cfg = ctx.cfg(fi)
    sn = cfg.nodes_for(site)
    if not defs or not sn:
        return []
    alld = [x for st, _v, _i in defs for x in cfg.nodes_for(st)]
    out = []
    for st, v, idx in defs:
        dn = cfg.nodes_for(st)
        r = cfg.reach([x for d in dn for x, lab in d.succ if lab != "exc"], cut_nodes=[a for a in alld if a not in sn])
        walrus_here = any(d in sn for d in dn) and any(isinstance(n, ast.NamedExpr) and n.target.id == name for d in dn if d.ast is not None for n in ast.walk(d.ast)) \
            and not isinstance(st, (ast.Assign, ast.AnnAssign, ast.AugAssign))
        if any(x in r for x in sn) or walrus_here:
            out.append((st, v, idx))
    return out


def _reaching_defs(ctx: Ctx, fi: FuncInfo, name: str, site: ast.AST) -> list[ast.AST] | None:
    """Values of the assignments that reach `site`; None if one of them has no followable value (loop target,
    unpacking, augmented assignment) or the name is a parameter."""
    if name in fi.params():
        return None
    rs = _reaching(ctx, fi, name, site)
    if not rs or any(v is None or idx is not None for _st, v, idx in rs):
        return None
    return [v for _st, v, _idx in rs]


def _value_leaves(fi: FuncInfo, e: ast.AST, site: ast.AST, depth: int = 6, seen=None) -> list[tuple[ast.AST, ast.AST]] | None:
    """The expressions a value can come from, through ALL reaching definitions of locals, `or`/`and` and conditional
    expressions: (leaf expression, the node at which it is evaluated).  None when a definition cannot be followed."""
    seen = seen or set()
    e = strip_cast(e)
    if depth <= 0:
        return None
    if isinstance(e, ast.Name) and e.id not in fi.params():
        if e.id in seen:
            return []
        defs = local_defs(fi, e.id)
        if not defs:
            return [(e, site)]
        out = []
        for st, v, idx in defs:
            if v is None or idx is not None:
                return None
            sub = _value_leaves(fi, v, v, depth - 1, seen | {e.id})
            if sub is None:
                return None
            out.extend(sub)
        return out
    if isinstance(e, ast.BoolOp):
        out = []
        for v in e.values:
            sub = _value_leaves(fi, v, v, depth - 1, seen)
            if sub is None:
                return None
            out.extend(sub)
        return out
    if isinstance(e, ast.IfExp):
        a, b = _value_leaves(fi, e.body, e.body, depth - 1, seen), _value_leaves(fi, e.orelse, e.orelse, depth - 1, seen)
        return None if a is None or b is None else a + b
    if isinstance(e, ast.NamedExpr):
        return _value_leaves(fi, e.value, e.value, depth - 1, seen)
    alt = _first_truthy(e)
    if alt is not None:
        return _value_leaves(fi, alt, alt, depth - 1, seen)
    return [(e, site)]


def _first_truthy(e: ast.AST) -> ast.BoolOp | None:
    """next(filter(None, (a, b)))  /  next(x for x in (a, b) if x)  /  the same with a default d: the first truthy element, i.e.
    `a or b [or d]` as far as the selected value goes.  Returns that `or` expression, hung into the tree at e's place (so
    that short-circuit facts - b is selected only when a was falsy - and control-flow facts are found for its operands)."""
    if not (isinstance(e, ast.Call) and chain(e.func) == "next" and 1 <= len(e.args) <= 2 and not e.keywords):
        return None
    g = strip_cast(e.args[0])
    seq = None
    if isinstance(g, ast.Call) and chain(g.func) == "iter" and len(g.args) == 1:
        g = strip_cast(g.args[0])
    if isinstance(g, ast.Call) and chain(g.func) == "filter" and len(g.args) == 2 and const_value(g.args[0]) is None:
        seq = g.args[1]
    elif isinstance(g, ast.GeneratorExp) and len(g.generators) == 1 and isinstance(g.generators[0].target, ast.Name) and isinstance(g.elt, ast.Name) \
            and g.elt.id == g.generators[0].target.id and len(g.generators[0].ifs) == 1 and isinstance(g.generators[0].ifs[0], ast.Name) \
            and g.generators[0].ifs[0].id == g.elt.id and not g.generators[0].is_async:
        seq = g.generators[0].iter
    seq = strip_cast(seq) if seq is not None else None
    if not isinstance(seq, (ast.Tuple, ast.List)) or not seq.elts or any(isinstance(x, ast.Starred) for x in seq.elts):
        return None
    alt = ast.BoolOp(op=ast.Or(), values=[_copy(x) for x in [*seq.elts, *e.args[1:]]])
    ast.copy_location(alt, e)
    if len(alt.values) < 2:
        return None
    set_parents(alt)
    alt._parent = parent(e)  # type: ignore[attr-defined]
    return alt


def _check_get_bucket(ctx: Ctx) -> None:
    gb = _anchor_method(ctx, "RoutingTable", "get_bucket")
    p = gb.params()[1]
    cfg = ctx.cfg(gb)
    rets = [r for r in walk_no_nested(gb.node) if isinstance(r, ast.Return)]
    ok = bool(rets)
    found_lpv = unknown = False
    why = ""

    def is_lpv(e) -> bool:
        e = strip_cast(e)
        return isinstance(e, ast.Call) and chain(e.func) == "self.trie.longest_prefix_value" and bool(e.args) \
            and norm(_expand(gb, e.args[0])) == f"id_to_binary_string({p})"

    def is_lpv_at(e, at) -> bool:
        """e, evaluated at `at`, is the result of the longest-prefix lookup (through the assignments that reach `at`)"""
        e = strip_cast(e)
        if isinstance(e, ast.NamedExpr):
            e = strip_cast(e.value)
        if isinstance(e, ast.Name):
            vals = _reaching_defs(ctx, gb, e.id, at)
            return bool(vals) and all(is_lpv(v) for v in vals)
        return is_lpv(e)

    def lookup_failed(site) -> bool:
        """site is evaluated only when the longest-prefix lookup gave nothing: its result was falsy / None, or it raised
        KeyError and site is in the handler"""
        for f in facts_at(cfg, site):
            if ((f.op == "truthy" and not f.pos) or (f.op == "is" and f.pos and const_value(f.right) is None)) and is_lpv_at(f.left, f.atom):
                return True
        for a in ancestors(site):
            if isinstance(a, ast.ExceptHandler):
                t = parent(a)
                names = [chain(x) for x in (a.type.elts if isinstance(a.type, ast.Tuple) else [a.type])] if a.type is not None else []
                if isinstance(t, ast.Try) and names and set(names) <= {"KeyError", "LookupError"} and len(t.body) == 1 \
                        and any(is_lpv(c) for c in ast.walk(t.body[0]) if isinstance(c, ast.Call)):
                    return True
        return False

    for r in rets:
        leaves = _value_leaves(gb, r.value, r) if r.value is not None else None
        if leaves is None:
            ok, why = False, "a returned value cannot be traced to its definitions"
            break
        for leaf, site in leaves:
            if is_lpv(leaf):
                found_lpv = True
                continue
            if norm(leaf) == "self.trie['']":
                # the root bucket is the fallback: only when the longest-prefix lookup gave nothing
                if lookup_failed(site):
                    continue
                ok, why = False, "the root bucket is returned although a longer prefix may match"
            elif any(is_lpv(c) for c in ast.walk(leaf) if isinstance(c, ast.Call)):
                unknown = True                                            # the longest-prefix lookup wrapped in something this check cannot read
            else:
                ok, why = False, f"the returned bucket can come from `{norm(leaf)}`"
    has_match = any(isinstance(n, ast.Match) for n in walk_no_nested(gb.node))
    state = True if ok and found_lpv and not unknown else (None if has_match or not rets or (ok and unknown) else False)
    _verdict(ctx, state, "bucket-insert", gb, gb.node, "get_bucket = bucket of the longest matching prefix of the binary id",
             "get_bucket no longer selects by longest prefix" + (f" ({why})" if why else ""),
             unknown="get_bucket selects its result with a match statement / wraps the longest-prefix lookup in an expression that is not recognised")


def _check_bucket_split(ctx: Ctx) -> None:
    sf = _anchor_method(ctx, "Bucket", "split")
    rets = [r for r in walk_no_nested(sf.node) if isinstance(r, ast.Return) and r.value is not None and const_value(r.value) is not None]

    def child_bit(e: ast.AST) -> str | None:
        """e constructs Bucket(self.prefix_id + '<bit>', self.max_size)"""
        e = strip_cast(e)
        for _ in range(6):
            if isinstance(e, ast.Name):
                el = _elem_of_name(sf, e.id)
                if el is None:
                    d = single_def(sf, e.id)
                    el = d[0] if d is not None and d[1] is None else None
                if el is None:
                    return None
                e = strip_cast(el)
            elif isinstance(e, ast.Subscript):
                i = const_value(e.slice)
                if isinstance(i, str):
                    pairs = _dict_pairs(sf, e.value, 4)
                    hit = [v for k, v in pairs or [] if const_value(k) == i]
                    if not hit:
                        return None
                    e = strip_cast(hit[-1])
                    continue
                col = _elems(sf, e.value)
                if col is None or not isinstance(i, int) or isinstance(i, bool) or not -len(col) <= i < len(col):
                    return None
                e = strip_cast(col[i])
            else:
                break
        if not (isinstance(e, ast.Call) and chain(e.func) == "Bucket"):
            return None
        pre, size = arg(e, 0, "prefix_id"), arg(e, 1, "max_size")
        if pre is None:
            return None
        if size is None or norm(_expand(sf, size)) != "self.max_size":
            return "other capacity"                                      # recognised as a child, but not of the parent's capacity
        parts = _str_parts(_expand(sf, pre))
        if parts is not None and len(parts) == 2 and parts[0] == ("e", "self.prefix_id") and isinstance(parts[1], str):
            return parts[1]                                               # '0' / '1' / something else (recognised, wrong)
        if parts is not None and any(x == ("e", "self.prefix_id") for x in parts):
            return "prefix not extended by one bit at the end"
        return None

    state: bool | None = True if rets else None
    got = {}
    for r in rets:
        col = _elems(sf, r.value)
        if col is None:
            state = None if state is not False else False
            continue
        got = {i: child_bit(x) for i, x in enumerate(col)}
        if len(col) != 2 or any(v is not None for v in got.values()) and got != {0: "0", 1: "1"} and all(v is not None for v in got.values()):
            state = False
        elif got != {0: "0", 1: "1"}:
            state = None if state is not False else False
    _verdict(ctx, state, "split-partition", sf, rets[0] if rets else sf.node, "Bucket.split returns (prefix+'0', prefix+'1') children of the same capacity",
             f"Bucket.split children are {got}", unknown="the pair returned by Bucket.split cannot be traced to two Bucket(prefix + bit, max_size) constructions")
    # redistribution: every node of the parent is offered to the children; a child takes it only if it owns its id
    cl = _Closure(ctx, sf)

    def visits_parent(fr: _Frame, it: ast.AST) -> bool:
        """the iterated collection is (a snapshot of) the parent's node table - in split itself, or in a helper it hands the table to"""
        it = _strip_snapshot(it)
        if fr.parent is None:
            it = _strip_snapshot(resolve(sf, it))
        else:
            it = _strip_snapshot(fr.tr(it))
        return norm(_strip_snapshot(it)) in ("self.nodes.values()", "self.nodes.items()")
    loops = [l for fr, l in cl.nodes if isinstance(l, ast.For) and visits_parent(fr, l.iter)]
    state = True if loops else None
    for l in loops:
        for x in ast.walk(l):
            if isinstance(x, ast.Return) or (isinstance(x, ast.Break) and next((a for a in ancestors(x) if isinstance(a, (ast.For, ast.While))), None) is l):
                state = False
    _verdict(ctx, state, "split-partition", sf, loops[0] if loops else sf.node, "every node of the parent is redistributed", "split can lose nodes of the parent bucket",
             unknown="Bucket.split has no `for` loop over self.nodes.values() / items(): how the parent's nodes are visited is not recognised")
    moved = 0

    def known_child(fr: _Frame, recv: ast.AST) -> bool:
        """the receiver is a child by construction: a name bound to Bucket(prefix + bit, ...), or a loop / comprehension
        variable over a literal collection of the children (also when that collection was passed to a helper)"""
        recv = strip_cast(recv)
        if not isinstance(recv, ast.Name):
            return False
        if fr.parent is None and child_bit(recv) in ("0", "1"):
            return True

        def children(f0: _Frame, it: ast.AST) -> bool:
            f2, it2 = _deep_resolve(f0, _strip_snapshot(strip_cast(it)))
            col = _elems(f2.fi, it2)
            if not col:
                return False
            for x in col:
                f3, x3 = _deep_resolve(f2, x)
                if not (f3.parent is None and child_bit(x3 if not isinstance(x, ast.Name) or f3 is not f2 else x) in ("0", "1")) \
                        and not (f2.parent is None and child_bit(x) in ("0", "1")):
                    return False
            return True
        for st, v, _i in local_defs(fr.fi, recv.id):
            if isinstance(st, ast.For) and children(fr, st.iter):
                return True
            if v is not None and isinstance(strip_cast(v), ast.Call) and chain(strip_cast(v).func) == "next" and strip_cast(v).args:
                g = strip_cast(strip_cast(v).args[0])
                if isinstance(g, _COMPS) and len(g.generators) == 1 and children(fr, g.generators[0].iter):
                    return True
                if isinstance(g, ast.Call) and chain(g.func) == "filter" and len(g.args) == 2 and children(fr, g.args[1]):
                    return True
        return False

    for fr, c in cl.nodes:
        if not (isinstance(c, ast.Call) and isinstance(c.func, ast.Attribute) and c.func.attr == "add" and c.args):
            continue
        b = fr.ntr(c.func.value, expand=False)
        if b == "self":
            continue
        looked_up = strip_cast(c.func.value)
        if isinstance(looked_up, ast.Name) and fr.parent is None:
            d = single_def(sf, looked_up.id)                              # half = table[bit] ... half.add(node)
            if d is not None and d[1] is None and isinstance(strip_cast(d[0]), ast.Subscript):
                looked_up = strip_cast(d[0])
        if isinstance(looked_up, ast.Subscript) and fr.parent is None:
            # dispatch table: the child is looked up by the node's next bit after the parent's prefix; the table maps bit b to the
            # child built with prefix + b, so the chosen child owns every id that continues the parent's prefix with that bit
            sub = looked_up
            nextbit = f"id_to_binary_string({fr.ntr(c.args[0])}.id)[len(self.prefix_id)]"
            pairs = _dict_pairs(sf, sub.value, 4)
            col = _elems(sf, sub.value)
            keyed = norm(_expand(sf, sub.slice))
            if pairs is not None and keyed == nextbit and pairs and all(const_value(k) in ("0", "1") and child_bit(v) == const_value(k) for k, v in pairs) \
                    and {const_value(k) for k, _v in pairs} == {"0", "1"}:
                moved += 1
                ctx.check(True, "split-partition", sf, c, "node moved to the child selected by its next bit (table bit -> child with prefix + bit)")
                continue
            if col is not None and keyed == f"int({nextbit})" and [child_bit(x) for x in col] == ["0", "1"]:
                moved += 1
                ctx.check(True, "split-partition", sf, c, "node moved to the child selected by its next bit (children[bit])")
                continue
        if isinstance(looked_up, ast.Subscript):
            _und(ctx, "split-partition", fr.fi, c, f"Bucket.split picks the receiving child by a computed index/key (`{norm(c.func.value)}`); ownership of the "
                 "moved node cannot be decided from guards")
            moved += 1
            continue
        moved += 1
        a0 = fr.ntr(c.args[0])
        fs = cl.facts(fr, c)
        ok = any(_call_fact(f, True, b, "owns", [f"{a0}.id"]) for f in fs)
        if not ok and fr.parent is None and child_bit(c.func.value) in ("0", "1"):
            # the child is chosen by the node's next bit after the parent's prefix: every node of the parent continues the
            # parent's prefix, so the child built with prefix + that bit owns it (same argument as for the bit -> child table)
            nextbit = f"id_to_binary_string({a0}.id)[len(self.prefix_id)]"
            bit = child_bit(c.func.value)
            for f in fs:
                if f.op == "eq" and f.pos and f.right is not None:
                    sides = {norm(_expand(sf, f.left)), norm(_expand(sf, f.right))}
                    if sides == {nextbit, repr(bit)} or sides == {f"int({nextbit})", bit}:
                        ok = True
        # a missing guard is a finding when the receiver is visibly one of the children; a receiver picked by an expression
        # this check does not understand (next(filter(...)), a lookup) is an unknown
        state = True if ok else (False if known_child(fr, c.func.value) and not _under_match(fr, c) else None)
        _verdict(ctx, state, "split-partition", fr.fi, c, f"node moved to {b} only if {b}.owns(node.id)", "split redistributes a node into a child that does not own it",
                 sorted({str(f) for f in fs}), unknown=f"how the receiving child `{b}` is chosen is not recognised: that it owns the moved node is not decided")
    if moved == 0:
        _und(ctx, "split-partition", sf, sf.node, "no <child>.add(node) call is recognisable in Bucket.split: how nodes reach the children is not decided")
    bcls = ctx.repo.cls("Bucket", RT)
    init = bcls.lookup("__init__")
    if init is None or init.cls is not bcls:
        # no constructor of its own: a dataclass / NamedTuple whose first field is prefix_id keeps the first argument there
        lay = _class_layout(ctx.repo.module(RT), bcls.node) if not [s for s in bcls.node.body if isinstance(s, _FUNCS) and s.name == "__post_init__"] else None
        decos = [chain(d.func if isinstance(d, ast.Call) else d) or "" for d in bcls.node.decorator_list]
        fields_ = [s.target.id for s in bcls.node.body if isinstance(s, ast.AnnAssign) and isinstance(s.target, ast.Name)]
        generated = any(d.split(".")[-1] == "dataclass" for d in decos) or any((chain(b) or "").split(".")[-1] == "NamedTuple" for b in bcls.node.bases)
        first = fields_[:1] == ["prefix_id"] and not any(isinstance(s, _FUNCS) and s.name in ("__post_init__", "__new__", "__setattr__") for s in bcls.node.body)
        _verdict(ctx, True if generated and first else (None if generated or lay is not None else False), "split-partition", bcls.where if hasattr(bcls, "where") else RT, bcls.node,
                 "a bucket's prefix_id is the prefix it was constructed with (generated constructor, first field)", "Bucket has no constructor that keeps the prefix it is given",
                 unknown="Bucket has no __init__ of its own and is not a dataclass / NamedTuple whose first field is prefix_id: what its constructor keeps is not decided")
        return
    iv = _view(ctx, init)                                                 # (a loop over literal (name, value) pairs is unrolled)
    ok = any(isinstance(t, ast.Attribute) and norm(t) == "self.prefix_id" and v is not None and norm(_expand(init, v)) == init.params()[1]
             for s in walk_no_nested(iv.node) for t, v in _assign_targets(s))
    ok = ok or any(isinstance(c, ast.Call) and chain(c.func) in ("setattr", "object.__setattr__") and len(c.args) == 3 and norm(c.args[0]) == init.params()[0]
                   and const_value(c.args[1]) == "prefix_id" and norm(_expand(init, c.args[2])) == init.params()[1] for c in walk_no_nested(iv.node))
    dynamic = any(isinstance(c, ast.Call) and (chain(c.func) in ("setattr", "object.__setattr__", "vars") or (chain(c.func) or "").endswith("__dict__.update"))
                  for c in walk_no_nested(iv.node))
    _verdict(ctx, True if ok else (None if dynamic else False), "split-partition", init, init.node, "a bucket's prefix_id is the prefix it was constructed with",
             "Bucket.__init__ does not keep the prefix it is given",
             unknown="Bucket.__init__ sets its attributes dynamically (setattr / __dict__): that prefix_id is the prefix it is given is not decided")


def _key_of_bad_entry(ctx: Ctx, fr: _Frame, k: ast.AST, recv: str) -> bool:
    """`for K in [key for key, n in <recv>.nodes.items() if n.status == BAD]`: K is the key of an entry whose node is BAD
    (keys collected first, popped afterwards; the status is not written in between)"""
    f2, k2 = _deep_resolve(fr, k)
    if not isinstance(k2, ast.Name) or _writes_status(f2.fi) or not local_defs(f2.fi, k2.id):
        return False
    for st, _v, _i in local_defs(f2.fi, k2.id):
        if not (isinstance(st, ast.For) and isinstance(st.target, ast.Name)):
            return False
        it = _strip_snapshot(resolve(f2.fi, _strip_snapshot(st.iter)))
        if isinstance(it, ast.Call) and isinstance(it.func, ast.Attribute) and it.func.attr == "keys" and not it.args:
            it = _strip_snapshot(resolve(f2.fi, it.func.value))                # for k in d.keys()  ==  for k in d
        if isinstance(it, ast.DictComp) and isinstance(it.key, ast.Name) and len(it.generators) == 1:
            it = ast.ListComp(elt=it.key, generators=it.generators)           # iterating a dict gives its keys
        if not (isinstance(it, _COMPS) and isinstance(it.elt, ast.Name) and len(it.generators) == 1):
            return False
        g = it.generators[0]
        src = _strip_snapshot(g.iter)
        if not (isinstance(g.target, ast.Tuple) and len(g.target.elts) == 2 and all(isinstance(x, ast.Name) for x in g.target.elts)
                and g.target.elts[0].id == it.elt.id and isinstance(src, ast.Call) and isinstance(src.func, ast.Attribute) and src.func.attr == "items"
                and not src.args and f2.ntr(src.func.value, expand=False) == f"{recv}.nodes"):
            return False
        nv = g.target.elts[1].id
        fs = _comp_filter_facts(it, {nv})
        fs = fs + [x for f in fs for x in _expand_fact(ctx, f2.fi, f, None)]
        if not any(_requires_bad(ctx, f, nv) for f in fs):
            return False
    return True


def rule_split(ctx: Ctx) -> None:
    repo = ctx.repo
    add = _anchor_method(ctx, "RoutingTable", "add")
    node = add.params()[1]
    # the bucket variable(s): receivers of split()
    pre = _Closure(ctx, add, stop=(node,), unroll=True)

    def root_name(fr: _Frame, e: ast.AST) -> str | None:
        """the anchor's local a helper's parameter is bound to (parameter bindings followed, locals not expanded)"""
        e = strip_cast(e)
        while isinstance(e, ast.Name) and fr.parent is not None and e.id in fr.raw_env:
            e, fr = strip_cast(fr.raw_env[e.id]), fr.parent
        return e.id if isinstance(e, ast.Name) and fr.parent is None else None
    recvs = {root_name(fr, n.func.value) or fr.ntr(n.func.value, expand=False) for fr, n in pre.nodes if isinstance(n, ast.Call) and _is_split_call(n)}
    cl = _Closure(ctx, add, stop=(node, *[r for r in recvs if r.isidentifier()]), unroll=True)
    sp = [(fr, n) for fr, n in cl.nodes if isinstance(n, ast.Call) and _is_split_call(n)]
    # match statements (case patterns give no conditions): in add itself, or around a split / trie update / retry in a helper
    opaque = any(isinstance(n, ast.Match) for n in walk_no_nested(cl.root.fi.node)) or any(
        _under_match(fr, n) for fr, n in cl.nodes
        if (isinstance(n, ast.Call) and (_is_split_call(n) or (isinstance(n.func, ast.Attribute) and n.func.attr == "add")))
        or (isinstance(n, (ast.Assign, ast.Delete)) and any(isinstance(t, ast.Subscript) for t in (n.targets if hasattr(n, "targets") else []))))
    if not sp:
        _und(ctx, "split-own-path", add, add.node, "no <bucket>.split() call is recognisable in RoutingTable.add or the helpers it calls")
    for fr, c in sp:
        fs = cl.facts(fr, c)
        b = fr.ntr(c.func.value, expand=False)
        own = any(_call_fact(f, True, b, "owns", ["self.my_node_id"]) for f in fs)
        failed = any(_call_fact(f, False, b, "add", [node]) for f in fs)
        _f, src_e = _deep_resolve(fr, c.func.value)
        d = single_def(cl.root.fi, b) if b.isidentifier() else None
        src = (d is not None and d[1] is None and norm(_expand(cl.root.fi, d[0], (node,))) == f"self.get_bucket({node}.id)") or \
            norm(cl.root.tr(src_e)) == f"self.get_bucket({node}.id)"
        # a receiver that is not a plain local (an attribute of a result object ...) is not followed: unknown, not a finding
        state = True if own and failed and src else (None if not b.isidentifier() or _under_match(fr, c) else False)
        _verdict(ctx, state, "split-own-path", fr.fi, c, "split only when adding failed and the bucket owns our own id",
                 "a bucket that is not on the path of our own identifier can be split", sorted({str(f) for f in fs}),
                 unknown=f"the bucket that is split (`{b}`) is not a local bound to self.get_bucket(node.id) / the call is under a match statement: "
                         "its guards are not decided")
    b = next(iter(sorted(recvs)), "bucket")
    writes = _trie_writes(cl)
    stores = [w for w in writes if w[2] == "store"]
    dels = [w for w in writes if w[2] == "del"]
    halves: dict[str, int] = {}
    desc = []
    wrong = unknown = False
    for fr, n, _k, key, val in stores:
        idx = _split_index(cl, fr, val, b, n) if val is not None else None
        kt = fr.tr(key)
        parts = _str_parts(kt)
        bit = None
        if parts is not None and len(parts) == 2 and parts[0] == ("e", f"{b}.prefix_id") and isinstance(parts[1], str):
            bit = parts[1]
        elif isinstance(kt, ast.Attribute) and kt.attr == "prefix_id" and idx is not None and _split_index(cl, fr, key.value if isinstance(key, ast.Attribute) else key, b, n) == idx:
            bit = str(idx)                                                # the child's own prefix (Bucket.split builds it as prefix + str(i))
        desc.append(f"{norm(kt)} <- {'half ' + str(idx) if idx is not None else norm(fr.tr(val)) if val is not None else '?'}")
        if bit is None or idx is None:
            unknown = True                                                # key or value not traceable to prefix + bit / half i
        elif str(idx) != bit or bit in halves:
            wrong = True                                                  # recognised, and not `prefix + i -> half i` once each
        else:
            halves[bit] = idx
    dk = [fr.ntr(key) for fr, n, _k, key, _v in dels]
    if not stores and not dels:
        state = None
    elif wrong or (stores and not dels) or (dels and dk != [f"{b}.prefix_id"] and b.isidentifier()) or (not unknown and halves != {"0": 0, "1": 1}):
        state = False
    elif unknown or opaque or not b.isidentifier():
        state = None
    else:
        state = True
    ok = state is True
    _verdict(ctx, state, "split-partition", add, add.node, "split stores prefix+'0' -> first half, prefix+'1' -> second half and deletes prefix",
             f"after a split the tree is not the two children replacing the parent: stores={desc} deletes={dk}",
             unknown=f"the trie updates after a split cannot be traced to `prefix + bit -> half` (stores={desc} deletes={dk})")
    # retry after split: the recursive self.add(node), or - in a loop - going round to fetch the bucket of the node again
    reentry = ctx.extra.get("c14_reentry", {}).get(id(add.node), {"add"})
    retry = [(fr, c) for fr, c in cl.nodes if isinstance(c, ast.Call) and isinstance(c.func, ast.Attribute) and c.func.attr in reentry
             and fr.ntr(c.func.value) == "self" and len(c.args) == 1 and fr.ntr(c.args[0]) == node]
    rcfg = ctx.cfg(cl.root.fi)
    targets = [x for fr, c in retry for x in rcfg.nodes_for(cl.lifted(fr, c, cl.root))]
    for st, v, idx in (local_defs(cl.root.fi, b) if b.isidentifier() else []):
        if v is not None and idx is None and norm(_expand(cl.root.fi, v, (node,))) == f"self.get_bucket({node}.id)" \
                and any(isinstance(a, (ast.While, ast.For)) for a in ancestors(st)) \
                and any(fr.parent is None and isinstance(c, ast.Call) and isinstance(c.func, ast.Attribute) and c.func.attr == "add" and norm(c.func.value) == b
                        and len(c.args) == 1 and norm(c.args[0]) == node for fr, c in cl.nodes):
            targets.extend(rcfg.nodes_for(st))
    rok = bool(targets)
    for fr, d, _k, _key, _v in dels:
        if fr.parent is None:
            rok = rok and all(rcfg.always_followed_by(x, targets) for x in rcfg.nodes_for(d))
    _verdict(ctx, True if rok else (None if opaque or not writes or not b.isidentifier() else False), "split-partition", add, add.node,
             "insertion retried after the split", "the node that triggered the split is not inserted afterwards",
             unknown="how RoutingTable.add continues after a split (state machine / match statement / result objects) is not recognised")
    # children are placed before the parent is deleted (so ids stay covered)
    if ok:
        ctx.check(all(cl.completes_before((s[0], s[1]), (d[0], d[1])) for d in dels for s in stores), "split-partition", add, add.node,
                  "both children stored before the parent is deleted", "the parent bucket is deleted before its children exist")
        ctx.check(all(cl.always_followed((s[0], s[1]), [(d[0], d[1]) for d in dels]) for s in stores), "split-partition", add, add.node,
                  "once the children are stored the parent is deleted on every path", "the split bucket can stay in the tree next to its two halves "
                  "(the deletion of the parent is skipped on some path): buckets are no longer prefix-free")
    _check_bucket_split(ctx)
    _check_get_bucket(ctx)
    # who else writes the trie
    init = repo.method("RoutingTable", "__init__", RT)
    allowed = set(cl.visited) | {id(init.node)}
    for m, fi, a in repo.attribute_uses("trie"):
        p = parent(a)
        if isinstance(p, ast.Subscript) and isinstance(p.ctx, (ast.Store, ast.Del)) and fi is not None:
            if fi.module is m and fi.name.startswith("_") and not fi.name.startswith("__") and id(fi.node) not in allowed \
                    and not any(isinstance(n, ast.Call) and call_name(n) == fi.name for n in ast.walk(m.tree)):
                continue    # a private helper nothing in its module calls: inlined at its call sites by the engine and checked there
            inside = id(fi.node) in allowed or any(id(x) in allowed for x in ancestors(fi.node))
            if inside and fi.node is not add.node and fi.node is not init.node:
                # a helper of add: every caller must be add's call tree as well
                inside = all(g is not None and (id(g.node) in allowed or any(id(x) in allowed for x in ancestors(g.node)))
                             for _m, g, _c in repo.callers_of_name(fi.name))
            ctx.check(inside, "split-partition", fi, enclosing_stmt(a),
                      f"trie written in {fi.qualname}", "the bucket tree is rewritten outside RoutingTable.add")
    rb = _anchor_method(ctx, "RoutingTable", "remove_bad_nodes")
    clr = _Closure(ctx, rb)
    # entries leave a node table in Bucket.add (eviction from a full bucket, rule bucket-insert) and in remove_bad_nodes; any
    # other function of the module that takes entries out (a method remove_bad_nodes delegates to, ...) is held to the same
    # condition as remove_bad_nodes itself: only BAD nodes
    badd = _anchor_method(ctx, "Bucket", "add")
    evicting = _Closure(ctx, badd, stop=(badd.params()[1],)).visited
    removers = [clr]
    rtm = repo.module(RT)
    for fi in _table_functions(ctx):
        if any(id(x) in evicting or id(x) in clr.visited for x in [fi.node, *ancestors(fi.node)]):
            continue
        if fi.module is rtm and fi.name.startswith("_") and not fi.name.startswith("__") and not any(isinstance(n, ast.Call) and call_name(n) == fi.name for n in ast.walk(rtm.tree)):
            continue        # a private helper nothing calls: inlined at its call sites by the engine and checked there
        other = _Closure(ctx, fi, maxdepth=0)
        if _nodes_removals(other):
            removers.append(other)
    # a remover that takes the key as a parameter is decided where it is called (the activation below the caller binds the
    # parameter); every function of the module that calls one is looked at with its call tree
    keyed_by_param = {id(x.root.fi.node) for x in removers for fr, c, recv, k in _nodes_removals(x)
                      if k is not None and isinstance(_deep_resolve(fr, k)[1], ast.Name) and _deep_resolve(fr, k)[1].id in x.root.fi.params()}
    keyed_by_param |= {i for i in clr.visited if any(id(f.node) == i and f.node is not rb.node and _nodes_removals(_Closure(ctx, f, maxdepth=0)) for f in rtm.all_functions)}
    names = {f.name for f in rtm.all_functions if id(f.node) in keyed_by_param}
    for fi in rtm.all_functions:
        if fi.node is rb.node or any(id(x) in evicting for x in [fi.node, *ancestors(fi.node)]):
            continue
        if any(isinstance(n, ast.Call) and call_name(n) in names for n in walk_no_nested(fi.node)):
            removers.append(_Closure(ctx, fi))
    seen_removals: set[tuple[int, str]] = set()
    todo = []
    for x in removers:
        for fr, c, recv, k in _nodes_removals(x):
            in_root = fr.parent is None
            if in_root and id(x.root.fi.node) in keyed_by_param and any(g is not None and g.module is rtm for _m, g, _c in repo.callers_of_name(x.root.fi.name)):
                continue                                                  # decided in its callers' call trees
            key = (id(c), "/".join(f.fi.qualname for f in fr.stack()))
            if key not in seen_removals:
                seen_removals.add(key)
                todo.append((x, fr, c, recv, k))
    for clr, fr, c, recv, k in todo:
        # guard in the loop body, or the loop runs over a list that was filtered by the guard (collect first, pop afterwards:
        # same nodes, same order; the status is not written in between), or the guard is a predicate helper / generator
        fs = clr.facts(fr, c)
        cands: set[str] = set()
        if k is not None:
            f2, k2 = _deep_resolve(fr, k)
            if isinstance(k2, ast.Attribute) and k2.attr == "id":
                cands.add(f2.ntr(k2.value, expand=False))
            if isinstance(k2, ast.Name):
                for st, _v, _i in local_defs(f2.fi, k2.id):
                    if isinstance(st, ast.For):
                        cands |= {f2.ntr(ast.Name(id=x, ctx=ast.Load()), expand=False) for x in _target_names(st.target) - {k2.id}}
                    elif isinstance(st, ast.Assign):
                        for t in st.targets:                                  # key, node = <one entry>
                            if isinstance(t, (ast.Tuple, ast.List)) and k2.id in _target_names(t):
                                cands |= {f2.ntr(ast.Name(id=x, ctx=ast.Load()), expand=False) for x in _target_names(t) - {k2.id}}
        ok = any(_requires_bad(ctx, f, v) for f in fs for v in cands) or (k is not None and _key_of_bad_entry(ctx, fr, k, recv))
        # a finding needs a recognised situation: the removed entry comes straight out of a loop over the node table (every entry
        # is visited, so the missing / wrong status test decides), or a status test of the entry's node is there and admits other
        # statuses.  A key that reaches the removal through a derived collection this check cannot read is an unknown.
        tested = any(_status_allowed(ctx, f, v) is not None for f in fs for v in cands)
        raw = k is None
        if k is not None:
            f2, k2 = _deep_resolve(fr, k)
            base = k2.value if isinstance(k2, ast.Attribute) and k2.attr == "id" else k2
            if isinstance(base, ast.Name):
                for st, _v, _i in local_defs(f2.fi, base.id):
                    it = _strip_snapshot(resolve(f2.fi, _strip_snapshot(st.iter))) if isinstance(st, ast.For) else None
                    if isinstance(it, ast.Call) and isinstance(it.func, ast.Attribute) and it.func.attr in ("items", "values", "keys") and not it.args:
                        it = it.func.value
                    raw = raw or (isinstance(it, ast.Attribute) and it.attr == "nodes")
            else:
                raw = True
        state = True if ok else (None if _under_match(fr, c) or not (tested or raw) else False)
        _verdict(ctx, state, "bucket-insert", fr.fi, c, "only BAD nodes are removed",
                 "remove_bad_nodes removes nodes that are not BAD", sorted({str(f) for f in fs}),
                 unknown="the removed entry is not taken straight from a loop over the node table and no status test of its node is recognisable "
                         "(derived collection / match statement): that only BAD nodes are removed is not decided")


def _empty_collection(e: ast.AST) -> bool:
    e = strip_cast(e)
    if isinstance(e, ast.Dict) and not e.keys:
        return True
    if isinstance(e, ast.Call) and chain(e.func) in ("dict", "OrderedDict", "collections.OrderedDict") and not e.args and not e.keywords:
        return True
    if isinstance(e, ast.Call) and isinstance(e.func, ast.Name) and e.func.id in ("set", "list", "frozenset", "tuple") and not e.keywords:
        return not e.args or (len(e.args) == 1 and isinstance(e.args[0], (ast.List, ast.Tuple)) and not e.args[0].elts)
    return isinstance(e, (ast.List, ast.Tuple)) and not e.elts


def _raw_nodes_source(fi: FuncInfo, e: ast.AST, var: str | None = None, site: ast.AST | None = None, depth: int = 3) -> bool:
    """e visibly draws from a bucket's node table (<x>.nodes / .nodes.values() / .items()), directly, through locals, or -
    for a loop variable `var` used at `site` - through the iterable of the loop that binds it"""
    if depth <= 0:
        return False
    if e is not None:
        for n in ast.walk(e):
            if isinstance(n, ast.Attribute) and n.attr == "nodes":
                return True
            if isinstance(n, ast.Name) and isinstance(n.ctx, ast.Load) and n.id not in fi.params():
                for st, v, _i in local_defs(fi, n.id):
                    if v is not None and v is not e and _raw_nodes_source(fi, v, None, None, depth - 1):
                        return True
                    if isinstance(st, ast.For) and _raw_nodes_source(fi, st.iter, None, None, depth - 1):
                        return True
    if var is not None and site is not None:
        for a in ancestors(site):
            if isinstance(a, ast.For) and var in _target_names(a.target) and _raw_nodes_source(fi, a.iter, None, None, depth - 1):
                return True
            if isinstance(a, (*_COMPS, ast.DictComp)):
                for g in a.generators:
                    if var in _target_names(g.target) and _raw_nodes_source(fi, g.iter, None, None, depth - 1):
                        return True
    return False


def _pairs_as_values(e: ast.AST) -> ast.AST | None:
    """A mapping written as a dict comprehension `{K: n for n in ...}` or as an iterable of (K, n) pairs (what dict(),
    dict.update() accept: a comprehension whose element is a 2-tuple, map(lambda n: (K, n), src)) whose value is the loop
    variable: the generator of its values - the nodes the mapping holds, identified by K - with the same clauses/filters."""
    gens, val = None, None
    if isinstance(e, ast.DictComp):
        gens, val = e.generators, e.value
    elif isinstance(e, _COMPS) and isinstance(e.elt, ast.Tuple) and len(e.elt.elts) == 2 and not any(isinstance(x, ast.Starred) for x in e.elt.elts):
        gens, val = e.generators, e.elt.elts[1]
    elif isinstance(e, ast.Call) and chain(e.func) == "map" and len(e.args) == 2 and not e.keywords and isinstance(strip_cast(e.args[0]), ast.Lambda):
        lam = strip_cast(e.args[0])
        a = lam.args
        body = strip_cast(lam.body)
        if len(a.args) == 1 and not (a.posonlyargs or a.kwonlyargs or a.vararg or a.kwarg) and isinstance(body, ast.Tuple) and len(body.elts) == 2 \
                and isinstance(body.elts[1], ast.Name) and body.elts[1].id == a.args[0].arg and not isinstance(e.args[1], ast.Starred):
            tgt = ast.Name(id=a.args[0].arg, ctx=ast.Store())
            gens, val = [ast.comprehension(target=tgt, iter=e.args[1], ifs=[], is_async=0)], ast.Name(id=a.args[0].arg, ctx=ast.Load())
    if gens is None or not isinstance(val, ast.Name):
        return None
    g_ = ast.GeneratorExp(elt=val, generators=gens)
    ast.copy_location(g_, e)
    ast.fix_missing_locations(g_)
    g_._parent = getattr(e, "_parent", None)  # type: ignore[attr-defined]
    return g_


def _combine_all(parts) -> bool | None:
    """all parts must hold: any False -> False, all True -> True, else unknown"""
    parts = list(parts)
    if any(p is False for p in parts):
        return False
    return True if parts and all(p is True for p in parts) else None


def _live_state(ctx: Ctx, fi: FuncInfo, e: ast.AST, depth: int = 4) -> bool | None:
    """True: every element the expression can produce is a node whose status is known not to be BAD - a comprehension
    whose element is its own loop variable under such a filter (directly, through a predicate helper, or drawn from a
    live collection), unions of such, filter(pred, ...), a helper / generator that returns / yields only such.
    False: the elements visibly come from a bucket's node table and no condition excludes BAD ones.
    None: the expression is not recognised."""
    if depth <= 0 or e is None:
        return None
    e = _strip_collection_wrap(strip_cast(e))
    if _empty_collection(e):
        return True
    if isinstance(e, ast.Name):
        defs = local_defs(fi, e.id)
        if not defs or e.id in fi.params():
            return None
        parts: list[bool | None] = []
        for st, v, idx in defs:
            if isinstance(st, ast.AugAssign) and v is None:
                v = st.value if isinstance(st.target, ast.Name) else None
            if isinstance(st, (ast.Assign, ast.AnnAssign)) and v is not None and isinstance(idx, int):
                v = strip_cast(v)                                         # a, b = (x, y): the element bound to the name
                v = v.elts[idx] if isinstance(v, (ast.Tuple, ast.List)) and idx < len(v.elts) and not any(isinstance(x, ast.Starred) for x in v.elts) else None
                idx = None
                if isinstance(v, ast.Name) and v.id == e.id:
                    continue                                              # ... the name itself: no change
            if v is None or idx is not None:
                return None
            if isinstance(st, (ast.Assign, ast.AnnAssign)) and isinstance(strip_cast(v), ast.Name) and strip_cast(v).id == e.id:
                continue                                                  # found, n = (found, count): the name itself
            if isinstance(st, ast.AugAssign):
                if isinstance(st.op, (ast.BitAnd, ast.Sub)):
                    continue                                              # can only shrink
                if not isinstance(st.op, (ast.BitOr, ast.Add)):
                    return None
            elif not isinstance(st, (ast.Assign, ast.AnnAssign)):
                return None
            parts.append(_live_state(ctx, fi, v, depth - 1))
        # a local collection that is also filled through its methods: every element that goes in is live
        for c in walk_no_nested(fi.node):
            if isinstance(c, (ast.Assign, ast.AnnAssign)) and c.value is not None:
                # name[K] = x: the mapping receives x (identified by K)
                for t in (c.targets if isinstance(c, ast.Assign) else [c.target]):
                    if isinstance(t, ast.Subscript) and isinstance(t.value, ast.Name) and t.value.id == e.id:
                        if isinstance(c.value, ast.Name) and not isinstance(t.slice, ast.Slice):
                            fs = _local_facts(ctx, fi, c)
                            parts.append(True if any(_excludes_bad(ctx, f, c.value.id) for f in fs) else (False if _raw_nodes_source(fi, None, c.value.id, c) else None))
                        else:
                            return None
            if isinstance(c, ast.Call) and isinstance(c.func, ast.Attribute) and isinstance(c.func.value, ast.Name) and c.func.value.id == e.id and c.func.attr in _MUTATORS:
                if c.func.attr == "setdefault" and len(c.args) == 2 and not c.keywords and isinstance(c.args[1], ast.Name):
                    fs = _local_facts(ctx, fi, c)
                    parts.append(True if any(_excludes_bad(ctx, f, c.args[1].id) for f in fs) else (False if _raw_nodes_source(fi, None, c.args[1].id, c) else None))
                elif c.func.attr in ("add", "append") and len(c.args) == 1 and isinstance(c.args[0], ast.Name):
                    fs = _local_facts(ctx, fi, c)
                    parts.append(True if any(_excludes_bad(ctx, f, c.args[0].id) for f in fs) else (False if _raw_nodes_source(fi, None, c.args[0].id, c) else None))
                elif c.func.attr in ("update", "extend") and not c.keywords:
                    parts.extend(_live_state(ctx, fi, a, depth - 1) for a in c.args)
                elif c.func.attr in ("discard", "remove", "pop", "clear", "difference_update", "intersection_update", "sort", "reverse"):
                    continue
                else:
                    return None
        return _combine_all(parts)
    if isinstance(e, ast.BinOp):
        l, r = _live_state(ctx, fi, e.left, depth), _live_state(ctx, fi, e.right, depth)
        if isinstance(e.op, ast.BitOr):
            return _combine_all([l, r])
        if isinstance(e.op, ast.BitAnd):
            return True if l is True or r is True else (False if l is False and r is False else None)
        if isinstance(e.op, ast.Sub):
            return l
        return None
    if isinstance(e, ast.IfExp):
        return _combine_all([_live_state(ctx, fi, e.body, depth), _live_state(ctx, fi, e.orelse, depth)])
    if isinstance(e, ast.Call) and isinstance(e.func, ast.Attribute) and e.func.attr in ("values", "items", "keys") and not e.args \
            and isinstance(strip_cast(e.func.value), ast.Attribute) and strip_cast(e.func.value).attr == "nodes":
        return False                                                      # the whole node table of a bucket
    if isinstance(e, ast.Call) and chain(e.func) in ("dict", "collections.OrderedDict", "OrderedDict") and len(e.args) == 1 and not e.keywords \
            and not isinstance(e.args[0], ast.Starred):
        return _live_state(ctx, fi, e.args[0], depth)                     # dict(<mapping / pairs>): the same values
    if isinstance(e, ast.Dict) and e.keys and all(k is None for k in e.keys):
        return _combine_all(_live_state(ctx, fi, v, depth - 1) for v in e.values)   # {**a, **b}: the values of all of them
    pv = _pairs_as_values(e)
    if pv is not None:
        e = pv
    if isinstance(e, _COMPS):
        if not isinstance(e.elt, ast.Name) or any(g.is_async for g in e.generators):
            return None
        var = e.elt.id
        binding = [g for g in e.generators if var in _target_names(g.target)]
        if not binding:
            return None
        src = _live_state(ctx, fi, binding[-1].iter, depth - 1) if isinstance(binding[-1].target, ast.Name) else None
        if src is True:
            return True
        fs = _comp_filter_facts(e, {var})
        fs = fs + [g for f in fs for g in _expand_fact(ctx, fi, f, None, depth)]
        fs = fs + [Fact(f.op, _expand(fi, f.left, (var,)), _expand(fi, f.right, (var,)) if f.right is not None else None, f.pos, f.atom) for f in fs]
        if any(_excludes_bad(ctx, f, var) for f in fs):
            return True
        return False if src is False or _raw_nodes_source(fi, binding[-1].iter) else None
    if isinstance(e, ast.Call):
        if chain(e.func) in ("filterfalse", "itertools.filterfalse") and len(e.args) == 2 and not e.keywords:
            src = _live_state(ctx, fi, e.args[1], depth - 1)
            if src is True:
                return True
            call = ast.Call(func=e.args[0], args=[ast.Name(id="x@filter", ctx=ast.Load())], keywords=[])
            fs = _implied_by_result(ctx, fi, call, lambda v: None if const_value(v) is NOCONST else not bool(const_value(v)), False, depth)
            if any(_excludes_bad(ctx, f, "x@filter") for f in fs):
                return True
            if _callee(ctx, fi, call)[0] is None:
                return None
            return False if src is False or _raw_nodes_source(fi, e.args[1]) else None
        if chain(e.func) == "filter" and len(e.args) == 2 and not e.keywords:
            src = _live_state(ctx, fi, e.args[1], depth - 1)
            if src is True:
                return True
            pred = e.args[0]
            if not isinstance(pred, ast.Constant):
                call = ast.Call(func=pred, args=[ast.Name(id="x@filter", ctx=ast.Load())], keywords=[])
                fs = _implied_by_result(ctx, fi, call, lambda v: None if const_value(v) is NOCONST else bool(const_value(v)), True, depth)
                if any(_excludes_bad(ctx, f, "x@filter") for f in fs):
                    return True
                if _callee(ctx, fi, call)[0] is None:
                    return None                                           # a predicate that is not visible here
            return False if src is False or _raw_nodes_source(fi, e.args[1]) else None
        if isinstance(e.func, ast.Attribute) and e.func.attr in ("union", "intersection", "difference", "copy") and not e.keywords:
            parts = [_live_state(ctx, fi, p, depth - 1) for p in [e.func.value, *e.args]]
            if e.func.attr == "union":
                return _combine_all(parts)
            if e.func.attr == "intersection":
                return True if any(p is True for p in parts) else (False if all(p is False for p in parts) else None)
            return parts[0]
        if chain(e.func) in ("chain.from_iterable", "itertools.chain.from_iterable") and len(e.args) == 1:
            inner = strip_cast(resolve(fi, e.args[0]))
            if isinstance(inner, _COMPS):
                return _live_state(ctx, fi, inner.elt, depth - 1) if not isinstance(inner.elt, ast.Name) else None
            return None
        target, _bs = _callee(ctx, fi, e)
        if isinstance(target, ast.Lambda):
            return _live_state(ctx, fi, target.body, depth - 1)
        if isinstance(target, FuncInfo) and target.node is not fi.node and not target.is_async:
            if _is_generator(target.node):
                ys = [y for y in walk_no_nested(target.node) if isinstance(y, (ast.Yield, ast.YieldFrom))]
                parts = []
                for y in ys:
                    if isinstance(y, ast.YieldFrom):
                        parts.append(_live_state(ctx, target, y.value, depth - 1))
                        continue
                    if not isinstance(y.value, ast.Name):
                        parts.append(None)
                        continue
                    fs = list(_local_facts(ctx, target, y))
                    env = _bind_args(target.node, e, _bs) or {}
                    hidden = False
                    for f in list(fs):
                        c = strip_cast(f.left)
                        if f.op == "truthy" and isinstance(c, ast.Call) and isinstance(c.func, ast.Name) and c.func.id in env and y.value.id not in env:
                            # the generator filters with a predicate it was given: decided with the caller's predicate
                            g = Fact(f.op, _subst(c, {k_: v_ for k_, v_ in env.items() if k_ != y.value.id}), None, f.pos, f.atom)
                            got = _predicate_facts(ctx, fi, g)
                            hidden = hidden or not got
                            fs.extend(got)
                    if any(_excludes_bad(ctx, f, y.value.id) for f in fs):
                        parts.append(True)
                    else:
                        parts.append(False if not hidden and _raw_nodes_source(target, None, y.value.id, y) else None)
                return _combine_all(parts)
            rets = [r for r in walk_no_nested(target.node) if isinstance(r, ast.Return)]
            if any(isinstance(c, ast.Call) and _callee(ctx, target, c)[0] is target for c in ast.walk(target.node)):
                return None                                               # recursive helper: not followed
            return _combine_all(_live_state(ctx, target, r.value, depth - 1) if r.value is not None else None for r in rets)
    return None


def _live_collection(ctx: Ctx, fi: FuncInfo, e: ast.AST, depth: int = 4) -> bool:
    return _live_state(ctx, fi, e, depth) is True


def _node_equality_by_key(ctx: Ctx) -> bool | None:
    """How two Node objects compare in a set / as dict keys, read from the source.  True: by public key only (Node has no
    __eq__/__hash__ of its own that looks at its id or address and inherits Peer's, which compare public_key / mid): two
    routing-table entries of one key seen from two networks are ONE element.  False: by node id / address or by object
    identity (a set of nodes then tells nodes apart at least as finely as the table does).  None: not recognised."""
    ci = ctx.repo.try_cls("Node", RT)
    if ci is None:
        return None
    eq, hs = ci.lookup("__eq__"), ci.lookup("__hash__")
    if eq is None and hs is None:
        return False
    if eq is None or hs is None:
        return None
    used = {n.attr for n in ast.walk(eq.node) if isinstance(n, ast.Attribute)}
    if used & {"id", "address"}:
        return False
    if used & {"public_key", "mid", "key"}:
        return True
    return None


def _candidate_identity(ctx: Ctx, cl: _Closure, coll: str) -> tuple[bool | None, _Frame | None, ast.AST | None, str]:
    """The candidate collection of closest_nodes identifies nodes the way the table does - by Node.id.
    It is a dict keyed by `<node>.id`, or a set of ids: True.  It is a set / frozenset of Node objects (created as one, or
    fed through an intermediate set of nodes) while Node equality is by public key, or a dict keyed by the node's key / mid:
    False, at the statement that creates it.  A list / tuple / deque (no de-duplication although the walk visits the
    buckets of an inner level again on every outer level), or anything not recognised: None."""
    ctx_ = ctx
    by_key = _node_equality_by_key(ctx)
    kinds: list[tuple[str | None, _Frame, ast.AST]] = []
    elems: list[tuple[str | None, _Frame, ast.AST]] = []                  # "id" | "node" | "key" | None per insertion

    def node_iter(fr: _Frame, it: ast.AST) -> bool:
        return _raw_nodes_source(fr.fi, it) or _live_state(ctx_, fr.fi, it) is not None

    def name_is_node(fr: _Frame, x: ast.Name, site: ast.AST, gens=()) -> bool:
        for g in gens:
            if x.id in _target_names(g.target):
                return node_iter(fr, g.iter)
        for a in ancestors(site):
            if isinstance(a, ast.For) and x.id in _target_names(a.target):
                return node_iter(fr, a.iter)
            if isinstance(a, (*_COMPS, ast.DictComp)):
                for g in a.generators:
                    if x.id in _target_names(g.target):
                        return node_iter(fr, g.iter)
        return _raw_nodes_source(fr.fi, None, x.id, site)

    def elem_kind(fr: _Frame, x: ast.AST, site: ast.AST, gens=()) -> str | None:
        x = strip_cast(x)
        if isinstance(x, ast.Attribute) and x.attr == "id":
            return "id"
        if isinstance(x, ast.Name) and name_is_node(fr, x, site, gens):
            return "node"
        return None

    def pair_kind(fr: _Frame, k: ast.AST, v: ast.AST, site: ast.AST, gens=()) -> str | None:
        k, v = strip_cast(k), strip_cast(v)
        if isinstance(k, ast.Name) and isinstance(v, ast.Name) and k.id != v.id:
            # K, V bound together by a loop / clause over `<bucket>.nodes.items()`: the key a bucket files the node under, which
            # is the node's id (rule bucket-insert: the only store is nodes[node.id] = node)
            binders = [g for g in gens] + [a for a in ancestors(site) if isinstance(a, ast.For)] + \
                [g for a in ancestors(site) if isinstance(a, (*_COMPS, ast.DictComp)) for g in a.generators]
            for g in binders:
                tg_ = g.target
                it = _strip_snapshot(strip_cast(g.iter))
                if isinstance(tg_, ast.Tuple) and len(tg_.elts) == 2 and all(isinstance(x, ast.Name) for x in tg_.elts) and [x.id for x in tg_.elts] == [k.id, v.id] \
                        and isinstance(it, ast.Call) and isinstance(it.func, ast.Attribute) and it.func.attr == "items" and not it.args \
                        and isinstance(strip_cast(it.func.value), ast.Attribute) and strip_cast(it.func.value).attr == "nodes":
                    return "id"
        if isinstance(k, ast.Name):
            k = strip_cast(resolve(fr.fi, k))                             # nid = node.id ... coll[nid] = node
        if isinstance(k, ast.Attribute) and k.attr == "id" and norm(k.value) == norm(v):
            return "id"
        if isinstance(k, ast.Attribute) and k.attr in ("mid", "public_key") and norm(k.value) == norm(v):
            return "key"
        if isinstance(k, ast.Call) and isinstance(k.func, ast.Attribute) and k.func.attr == "key_to_bin" and norm(v) + "." in norm(k):
            return "key"
        if isinstance(k, ast.Name) and norm(k) == norm(v) and name_is_node(fr, k, site, gens):
            return "node"
        return None

    def node_set(fr: _Frame, e: ast.AST, site: ast.AST, depth: int = 3) -> bool:
        """e is (through single-assignment locals / list()/sorted() wraps) a set or frozenset of Node objects"""
        e = strip_cast(resolve(fr.fi, strip_cast(e)))
        while isinstance(e, ast.Call) and chain(e.func) in ("list", "tuple", "iter", "sorted", "reversed") and e.args and not isinstance(e.args[0], ast.Starred):
            e = strip_cast(resolve(fr.fi, strip_cast(e.args[0])))
        if isinstance(e, ast.SetComp):
            return elem_kind(fr, e.elt, site, e.generators) == "node"
        if isinstance(e, ast.Call) and chain(e.func) in ("set", "frozenset") and len(e.args) == 1 and not isinstance(e.args[0], ast.Starred):
            a = strip_cast(resolve(fr.fi, strip_cast(e.args[0])))
            if isinstance(a, _COMPS):
                return elem_kind(fr, a.elt, site, a.generators) == "node"
            return node_iter(fr, a)
        if isinstance(e, ast.BinOp) and isinstance(e.op, (ast.BitOr, ast.BitAnd, ast.Sub)) and depth > 0:
            return node_set(fr, e.left, site, depth - 1) or (isinstance(e.op, ast.BitOr) and node_set(fr, e.right, site, depth - 1))
        if isinstance(e, ast.Call) and isinstance(e.func, ast.Attribute) and e.func.attr in ("union", "intersection", "difference", "copy") and depth > 0:
            return node_set(fr, e.func.value, site, depth - 1)
        return False

    def through_node_set(fr: _Frame, e: ast.AST, site: ast.AST) -> bool:
        """the nodes of a comprehension / filter / mapping source are drawn from an intermediate set of Node objects"""
        e = strip_cast(resolve(fr.fi, strip_cast(e)))
        if isinstance(e, (*_COMPS, ast.DictComp)):
            return any(node_set(fr, g.iter, site) or through_node_set(fr, g.iter, site) for g in e.generators)
        if isinstance(e, ast.Call) and chain(e.func) in ("filter", "map", "itertools.filterfalse", "filterfalse") and len(e.args) == 2:
            return node_set(fr, e.args[1], site) or through_node_set(fr, e.args[1], site)
        if isinstance(e, ast.Call) and chain(e.func) in ("dict", "list", "tuple", "sorted") and len(e.args) >= 1 and not isinstance(e.args[0], ast.Starred):
            return node_set(fr, e.args[0], site) or through_node_set(fr, e.args[0], site)
        return False

    budget = [64]

    def depth_ok() -> bool:
        budget[0] -= 1
        return budget[0] > 0

    def feed(fr: _Frame, kind: str | None, x: ast.AST, site: ast.AST) -> None:
        """the iterable / mapping x is merged into the collection (update, |=, constructor argument)"""
        x = strip_cast(resolve(fr.fi, strip_cast(x)))
        if _empty_collection(x):
            return
        if node_set(fr, x, site) or through_node_set(fr, x, site):
            if kind != "set":
                elems.append(("nodeset", fr, site))                       # an intermediate set of nodes has collapsed them already
        if isinstance(x, ast.BinOp) and isinstance(x.op, ast.BitOr):
            feed(fr, kind, x.left, site)
            feed(fr, kind, x.right, site)
            return
        if isinstance(x, ast.Name) and norm(fr.tr(x, expand=False)) == coll:
            return
        if isinstance(x, ast.Call) and not isinstance(x.func, ast.Attribute) or (isinstance(x, ast.Call) and isinstance(x.func, ast.Attribute)
                                                                                 and isinstance(x.func.value, ast.Name) and x.func.value.id in ("self", "cls")):
            # the result of a private helper that is part of the call tree: what it returns, in its own activation
            child = next((f for f in cl.frames if f.site is x), None)
            if child is not None and not _is_generator(child.fi.node):
                rets = [r for r in walk_no_nested(child.fi.node) if isinstance(r, ast.Return) and r.value is not None]
                if rets and depth_ok():
                    for r in rets:
                        feed(child, kind, r.value, r)
                    return
        if kind == "dict":
            if isinstance(x, ast.Call) and chain(x.func) in ("dict", "OrderedDict", "collections.OrderedDict") and len(x.args) == 1 and not x.keywords:
                return feed(fr, kind, x.args[0], site)
            if isinstance(x, ast.Dict) and all(k is None for k in x.keys):
                for v in x.values:
                    feed(fr, kind, v, site)
                return
            if isinstance(x, ast.DictComp):
                elems.append((pair_kind(fr, x.key, x.value, site, x.generators), fr, site))
            elif isinstance(x, _COMPS) and isinstance(x.elt, ast.Tuple) and len(x.elt.elts) == 2:
                elems.append((pair_kind(fr, x.elt.elts[0], x.elt.elts[1], site, x.generators), fr, site))
            elif isinstance(x, ast.Call) and chain(x.func) == "map" and len(x.args) == 2 and isinstance(strip_cast(x.args[0]), ast.Lambda) \
                    and isinstance(strip_cast(x.args[0]).body, ast.Tuple) and len(strip_cast(x.args[0]).body.elts) == 2 and len(strip_cast(x.args[0]).args.args) == 1:
                lam = strip_cast(x.args[0])
                k_, v_ = lam.body.elts
                ok = isinstance(v_, ast.Name) and v_.id == lam.args.args[0].arg and isinstance(k_, ast.Attribute) and k_.attr == "id" and norm(k_.value) == v_.id
                elems.append(("id" if ok else None, fr, site))
            else:
                elems.append((None, fr, site))
            return
        if kind == "set":
            if isinstance(x, _COMPS):
                elems.append((elem_kind(fr, x.elt, site, x.generators), fr, site))
            elif isinstance(x, (ast.Set, ast.List, ast.Tuple)):
                for y in x.elts:
                    elems.append((elem_kind(fr, y, site), fr, site))
            elif isinstance(x, ast.Call) and chain(x.func) in ("set", "frozenset", "list", "tuple") and len(x.args) == 1 and not isinstance(x.args[0], ast.Starred):
                feed(fr, kind, x.args[0], site)
            else:
                elems.append(("node" if node_iter(fr, x) else None, fr, site))
            return

    def kind_of(fr: _Frame, v: ast.AST, site: ast.AST) -> str | None:
        v = strip_cast(v)
        c = chain(v.func) if isinstance(v, ast.Call) else None
        if isinstance(v, (ast.Dict, ast.DictComp)) or c in ("dict", "OrderedDict", "collections.OrderedDict", "defaultdict", "collections.defaultdict"):
            return "dict"
        if isinstance(v, (ast.Set, ast.SetComp)) or c in ("set", "frozenset"):
            return "set"
        if isinstance(v, (ast.List, ast.ListComp, ast.Tuple)) or c in ("list", "tuple", "deque", "collections.deque"):
            return "list"
        return None

    def is_coll(fr: _Frame, e: ast.AST) -> bool:
        return isinstance(e, ast.Name) and norm(fr.tr(e, expand=False)) == coll

    created: list[tuple[_Frame, ast.AST, ast.AST]] = []
    for fr, n in cl.nodes:
        if isinstance(n, (ast.Assign, ast.AnnAssign)) and n.value is not None:
            tg = n.targets if isinstance(n, ast.Assign) else [n.target]
            if any(is_coll(fr, t) for t in tg):
                if fr.parent is not None and not any(isinstance(t, ast.Name) and t.id in fr.alias for t in tg):
                    continue
                if fr.parent is None and isinstance(n.value, ast.Call) and any(f.site is n.value and f.alias for f in cl.frames):
                    continue
                v = strip_cast(n.value)
                if any(isinstance(x, ast.Name) and is_coll(fr, x) for x in ast.walk(v)) and kind_of(fr, v, n) is None:
                    created.append((fr, n, None))                         # coll = coll | X / coll.union(X): merged below, same kind
                    continue
                kinds.append((kind_of(fr, v, n), fr, n))
                created.append((fr, n, v))
    known = {k for k, _f, _n in kinds}
    kind = next(iter(known)) if len(known) == 1 else None
    first = kinds[0] if kinds else None
    if kind is None:
        return None, first[1] if first else None, first[2] if first else None, f"how the candidate collection `{coll}` is created (dict keyed by node id / set / list) is not recognised"
    if kind == "list":
        return None, first[1], first[2], (f"the candidate collection `{coll}` is a sequence without de-duplication while every level of the walk visits the buckets of "
                                          "the level before again: that no node is returned twice is not decided")
    for fr, n, v in created:
        if v is None:
            val = strip_cast(n.value)
            if isinstance(val, ast.BinOp):
                feed(fr, kind, val, n)
            elif isinstance(val, ast.Call) and isinstance(val.func, ast.Attribute) and val.func.attr == "union":
                for a in val.args:
                    feed(fr, kind, a.value if isinstance(a, ast.Starred) else a, n)
            else:
                elems.append((None, fr, n))
        elif isinstance(v, ast.Call) and len(v.args) == 1 and not isinstance(v.args[0], ast.Starred) and chain(v.func) in ("dict", "set", "frozenset", "OrderedDict", "collections.OrderedDict"):
            feed(fr, kind, v.args[0], n)
        elif isinstance(v, (ast.DictComp, ast.SetComp)):
            feed(fr, kind, v, n)
        elif isinstance(v, ast.Set):
            feed(fr, kind, v, n)
        elif isinstance(v, ast.Dict) and v.keys:
            for k_, v_ in zip(v.keys, v.values):
                if k_ is None:
                    feed(fr, kind, v_, n)
                else:
                    elems.append((pair_kind(fr, k_, v_, n), fr, n))
        elif not _empty_collection(v) and not (isinstance(v, ast.Call) and chain(v.func) in ("defaultdict", "collections.defaultdict") and len(v.args) <= 1):
            elems.append((None, fr, n))
    for fr, n in cl.nodes:
        if isinstance(n, ast.AugAssign) and is_coll(fr, n.target):
            if isinstance(n.op, (ast.BitOr, ast.Add)):
                feed(fr, kind, n.value, n)
        elif isinstance(n, (ast.Assign, ast.AnnAssign)) and n.value is not None:
            for t in (n.targets if isinstance(n, ast.Assign) else [n.target]):
                if isinstance(t, ast.Subscript) and is_coll(fr, t.value) and kind == "dict":
                    elems.append((pair_kind(fr, t.slice, n.value, n), fr, n))
        elif isinstance(n, ast.Call) and isinstance(n.func, ast.Attribute) and is_coll(fr, n.func.value):
            m = n.func.attr
            if m == "add" and kind == "set" and len(n.args) == 1:
                elems.append((elem_kind(fr, n.args[0], n), fr, n))
            elif m == "setdefault" and kind == "dict" and len(n.args) == 2:
                elems.append((pair_kind(fr, n.args[0], n.args[1], n), fr, n))
            elif m in ("update", "union_update", "__ior__") and not n.keywords:
                for a in n.args:
                    feed(fr, kind, a.value if isinstance(a, ast.Starred) else a, n)
            elif m in ("add", "setdefault", "update", "append", "extend", "insert", "symmetric_difference_update"):
                elems.append((None, fr, n))
    cfr, cst = first[1], first[2]
    bad = [(k, f, n) for k, f, n in elems if k in ("key", "nodeset") or (k == "node" and by_key is not False)]
    hard = [(k, f, n) for k, f, n in bad if k in ("key",) or by_key is True]
    if hard:
        k, f, n = hard[0]
        if k == "node" and kind == "set":
            return False, cfr, cst, (f"the candidate collection `{coll}` is a set of Node objects: Node inherits Peer.__eq__/__hash__ (public key only), so two live routing-table "
                                     "entries of one key seen from two networks (two node ids) collapse into one candidate and the query does not return the k nearest live nodes")
        return False, f, enclosing_stmt(n), ("candidates are identified by their public key here (a set of Node objects / a key-based dict key) instead of by Node.id: two live "
                                             "entries of one key seen from two networks collapse into one candidate and the query does not return the k nearest live nodes")
    if bad:
        return None, bad[0][1], bad[0][2], "a set of Node objects is used for the candidates and how Node objects compare (__eq__/__hash__) is not recognised"
    unk = [(k, f, n) for k, f, n in elems if k is None]
    if unk:
        return None, unk[0][1], unk[0][2], f"by what the candidate collection `{coll}` identifies an inserted node (its key / element is not `<node>.id` of the inserted node) is not recognised"
    if not elems:
        return None, cfr, cst, f"nothing recognisable is inserted into the candidate collection `{coll}`"
    return True, cfr, cst, ""


def _descending_from_len(fi: FuncInfo, it: ast.AST, name: str, stop=()) -> bool:
    """The iterable yields len(name), len(name)-1, ..., 0."""
    it = _expand(fi, it, stop=(name, *stop))
    length = f"len({name})"
    if not isinstance(it, ast.Call) or it.keywords:
        return False
    if chain(it.func) == "reversed" and len(it.args) == 1:
        r = _strip_snapshot(it.args[0])
        if not (isinstance(r, ast.Call) and chain(r.func) == "range" and not r.keywords and 1 <= len(r.args) <= 3):
            return False
        a = r.args
        if len(a) >= 2 and const_value(a[0]) != 0:
            return False
        if len(a) == 3 and const_value(a[2]) != 1:
            return False
        stop_ = a[0] if len(a) == 1 else a[1]
        return norm(stop_) in (f"{length} + 1", f"1 + {length}")
    if chain(it.func) == "range" and len(it.args) == 3:
        return norm(it.args[0]) == length and const_value(it.args[1]) == -1 and const_value(it.args[2]) == -1
    return False


def _between(inner: ast.AST, outer: ast.AST) -> list[ast.AST]:
    out = []
    for a in ancestors(inner):
        if a is outer:
            break
        out.append(a)
    return out


def _key_is_distance_first(ctx: Ctx, fi: FuncInfo, key: ast.AST | None, target: str) -> bool:
    """key(n) orders by XOR distance of n.id to the target first"""
    if key is None:
        return False
    key = strip_cast(key)
    fn = None
    if isinstance(key, ast.Lambda):
        fn, body, p = key, key.body, [x.arg for x in key.args.args]
    else:
        pre: list[ast.AST] = []
        if isinstance(key, ast.Call) and chain(key.func) in ("partial", "functools.partial") and key.args and not key.keywords \
                and not any(isinstance(a, ast.Starred) for a in key.args):
            key, pre = strip_cast(key.args[0]), list(key.args[1:])             # partial(f, a, b)(n) == f(a, b, n)
        call = ast.Call(func=key, args=[*pre, ast.Name(id="n@key", ctx=ast.Load())], keywords=[])
        tgt, binds_self = _callee(ctx, fi, call)
        if pre and isinstance(tgt, (FuncInfo, ast.Lambda)):
            fn = tgt if isinstance(tgt, ast.Lambda) else tgt.node
            env = _bind_args(fn, call, binds_self)
            if env is None:
                return False
            alts = [_subst(fn.body, {})] if isinstance(tgt, ast.Lambda) else _return_alternatives(tgt, ctx)
            env = {p_: (_expand(fi, x) if not (isinstance(x, ast.Name) and x.id in ("self", "n@key", target)) else x) for p_, x in env.items()}
            return bool(alts) and all(_dist_first(_subst(a, env), "n@key", target) for a in alts)
        if isinstance(tgt, ast.Lambda):
            fn, body, p = tgt, tgt.body, [x.arg for x in tgt.args.args]
        elif isinstance(tgt, FuncInfo) and not _is_generator(tgt.node):
            alts = _return_alternatives(tgt, ctx)
            ps = tgt.params()[1:] if binds_self else tgt.params()
            return bool(alts) and len(ps) == 1 and all(_dist_first(a, ps[0], target) for a in alts)
        else:
            return False
    if len(p) == 1 and not _dist_first(body, p[0], target) and isinstance(strip_cast(body), ast.Call):
        # lambda n: helper(target, n): what the helper returns, its parameters bound to the lambda's arguments
        inner = strip_cast(body)
        tgt, binds_self = _callee(ctx, fi, inner)
        if isinstance(tgt, FuncInfo) and not _is_generator(tgt.node) and not tgt.is_async:
            env = _bind_args(tgt.node, inner, binds_self)
            alts = _return_alternatives(tgt, ctx)
            if env is not None and alts:
                env = {p_: (_expand(fi, x) if not (isinstance(x, ast.Name) and x.id in ("self", p[0], target)) else x) for p_, x in env.items()}
                return all(_dist_first(_subst(a, env), p[0], target) for a in alts)
    return len(p) == 1 and _dist_first(body, p[0], target)


def _dist_first(body: ast.AST, p: str, target: str) -> bool:
    first = body.elts[0] if isinstance(body, ast.Tuple) and body.elts else body
    return norm(first) in (f"distance({p}.id, {target})", f"distance({target}, {p}.id)", f"{p}.distance({target})")


def _key_state(ctx: Ctx, fi: FuncInfo, key: ast.AST | None, target: str) -> bool | None:
    """the sort key orders by XOR distance to the target first: True; it is a recognisable function that does not (or there
    is no key at all): False; it cannot be resolved: None"""
    if key is None:
        return False
    if _key_is_distance_first(ctx, fi, key, target):
        return True
    key = strip_cast(key)
    if isinstance(key, ast.Lambda):
        first = key.body.elts[0] if isinstance(key.body, ast.Tuple) and key.body.elts else key.body
        first = strip_cast(first)
        if isinstance(first, ast.Call) and not (chain(first.func) or "").endswith("distance") and _callee(ctx, fi, first)[0] is None \
                and not (isinstance(first.func, ast.Attribute) and chain(first.func.value) in (key.args.args[0].arg if key.args.args else "",)):
            return None                                                   # ranks by the result of a function that is not visible here
        return False
    if isinstance(key, ast.Call) and chain(key.func) in ("partial", "functools.partial") and key.args:
        key = strip_cast(key.args[0])
    tgt, _bs = _callee(ctx, fi, ast.Call(func=key, args=[], keywords=[])) if isinstance(key, (ast.Name, ast.Attribute)) else (None, False)
    if isinstance(tgt, ast.Lambda):
        return False
    if isinstance(tgt, FuncInfo) and not _is_generator(tgt.node):
        alts = _return_alternatives(tgt, ctx)
        # a plain function of the node whose result visibly starts with something else than a distance
        if alts and all(isinstance(x, (ast.Tuple, ast.Attribute, ast.Call, ast.Compare, ast.BinOp)) for x in alts) \
                and not any(isinstance(n, ast.Call) and not (chain(n.func) or "").endswith("distance") and _callee(ctx, tgt, n)[0] is not None for x in alts for n in ast.walk(x)):
            return False
    return None


def _sorted_source(ctx: Ctx, fi: FuncInfo, e: ast.AST, target: str, depth: int = 2) -> tuple[bool | None, ast.AST | None]:
    """e is `sorted(src, key=K)` (directly, or the result of a helper / closure that returns exactly that for one of its
    parameters): (state of the ordering, src expression in fi's vocabulary); (None, None) when e is something else"""
    e = resolve(fi, e)
    if isinstance(e, ast.Call) and chain(e.func) == "sorted" and e.args:
        rev = arg(e, None, "reverse")
        if rev is not None and const_value(rev) is not False:
            return False, e.args[0]
        return _key_state(ctx, fi, arg(e, None, "key"), target), e.args[0]
    if isinstance(e, ast.Call) and depth > 0:
        tgt, binds_self = _callee(ctx, fi, e)
        if isinstance(tgt, FuncInfo) and not _is_generator(tgt.node) and tgt.node is not fi.node:
            env = _bind_args(tgt.node, e, binds_self)
            rets = [r for r in walk_no_nested(tgt.node) if isinstance(r, ast.Return)]
            if env is not None and len(rets) == 1 and rets[0].value is not None:
                # the target of the distance inside the helper: the parameter bound to our target, or the captured name itself
                inner_target = next((p_ for p_, x in env.items() if isinstance(x, ast.Name) and x.id == target), target)
                st, src = _sorted_source(ctx, tgt, rets[0].value, inner_target, depth - 1)
                if src is not None:
                    return st, _subst(_expand(tgt, src, tuple(env)), env)
    return None, None


def _ranked_prefix(ctx: Ctx, fi: FuncInfo, cfg, ret: ast.Return, target: str, k: str) -> tuple[bool | None, str | None]:
    """(state, collection name): state True when the returned value is the first k elements of a collection sorted by XOR
    distance to the target, nearest first; False when it is recognisably something else (no / another truncation, another
    order, filtered after the cut); None when the expression is not recognised."""
    def coll_of(src) -> str | None:
        src = _strip_collection_wrap(strip_cast(src)) if src is not None else None
        for _ in range(4):
            # a sorted copy holds the same elements: by_x = sorted(coll, key=...) ... sorted(by_x, key=...) ranks coll
            if isinstance(src, ast.Call) and chain(src.func) == "sorted" and src.args and not isinstance(src.args[0], ast.Starred):
                src = _strip_collection_wrap(strip_cast(src.args[0]))
                continue
            d = single_def(fi, src.id) if isinstance(src, ast.Name) else None
            v = strip_cast(d[0]) if d is not None and d[1] is None else None
            if isinstance(v, ast.Call) and chain(v.func) == "sorted" and v.args and not any(
                    isinstance(c, ast.Call) and isinstance(c.func, ast.Attribute) and norm(c.func.value) == src.id and c.func.attr in _MUTATORS for c in walk_no_nested(fi.node)):
                src = _strip_collection_wrap(strip_cast(v.args[0]))
            else:
                break
        if isinstance(src, ast.Call) and isinstance(src.func, ast.Attribute) and src.func.attr == "values" and not src.args and not src.keywords \
                and isinstance(strip_cast(src.func.value), ast.Name) and strip_cast(src.func.value).id not in fi.params():
            src = strip_cast(src.func.value)                              # a local mapping id -> node: its values are the collection
        return src.id if isinstance(src, ast.Name) else None              # the collection's own name (not what it was initialised with)

    v = resolve(fi, ret.value) if ret.value is not None else None
    if v is None:
        return False, None
    if isinstance(ret.value, ast.Name) and not getattr(ret, "_c14_cut", False):
        # ranked = sorted(...); del ranked[k:]; return ranked  ==  return sorted(...)[:k]
        name = ret.value.id
        cuts = [d for d in walk_no_nested(fi.node) if isinstance(d, ast.Delete) and len(d.targets) == 1 and isinstance(d.targets[0], ast.Subscript)
                and isinstance(d.targets[0].value, ast.Name) and d.targets[0].value.id == name and isinstance(d.targets[0].slice, ast.Slice)
                and d.targets[0].slice.upper is None and d.targets[0].slice.step is None and d.targets[0].slice.lower is not None]
        if len(cuts) == 1:
            sl = cuts[0].targets[0].slice
            synth = ast.Return(value=ast.Subscript(value=ast.Name(id=name, ctx=ast.Load()), slice=ast.Slice(lower=None, upper=sl.lower, step=None), ctx=ast.Load()))
            ast.copy_location(synth, ret)
            ast.fix_missing_locations(synth)
            synth._c14_cut = True  # type: ignore[attr-defined]
            synth._parent = parent(ret)  # type: ignore[attr-defined]
            st, c = _ranked_prefix(ctx, fi, cfg, synth, target, k)
            dn, rn = cfg.nodes_for(cuts[0]), cfg.nodes_for(ret)
            if st is True and not (dn and rn and all(cfg.must_complete(x, dn) for x in rn)):
                st = None                                                 # the cut does not run on every path to the return
            return st, c
    if isinstance(v, ast.Call) and chain(v.func) in ("list", "tuple") and len(v.args) == 1 and not v.keywords:
        inner = resolve(fi, v.args[0])
        if isinstance(inner, ast.Call) and chain(inner.func) in ("islice", "itertools.islice") and len(inner.args) == 2:
            v = ast.Subscript(value=inner.args[0], slice=ast.Slice(lower=None, upper=inner.args[1], step=None), ctx=ast.Load())
    if isinstance(v, ast.Call) and chain(v.func) in ("heapq.nsmallest", "nsmallest") and len(v.args) >= 2:
        st = _key_state(ctx, fi, arg(v, 2, "key"), target)
        if norm(resolve(fi, v.args[0])) != k:
            st = False
        return st, coll_of(v.args[1])
    # filtered after the cut: fewer than k may come back
    if isinstance(v, (ast.ListComp, ast.GeneratorExp)) and len(v.generators) == 1 and v.generators[0].ifs:
        inner = ast.Return(value=v.generators[0].iter)
        ast.copy_location(inner, ret)
        st, c = _ranked_prefix(ctx, fi, cfg, inner, target, k)
        return (False, c) if st is True else (None, c)
    if isinstance(v, ast.Subscript) and isinstance(v.slice, ast.Slice):
        sl = v.slice
        cut_ok = (sl.lower is None or const_value(sl.lower) == 0) and sl.step is None and sl.upper is not None and norm(resolve(fi, sl.upper)) == k
        st, src = _sorted_source(ctx, fi, v.value, target)
        if src is not None:
            return (st if cut_ok else False), coll_of(src)
        # ranked = list(coll); ranked.sort(key=...); return ranked[:k]
        if isinstance(v.value, ast.Name):
            name = v.value.id
            d = single_def(fi, name)
            src = strip_cast(d[0]) if d is not None and d[1] is None else None
            if isinstance(src, ast.Call) and chain(src.func) in ("list", "sorted") and len(src.args) >= 1:
                uses = [c for c in walk_no_nested(fi.node) if isinstance(c, ast.Call) and isinstance(c.func, ast.Attribute) and norm(c.func.value) == name]
                if len(uses) == 1 and uses[0].func.attr == "sort" and not uses[0].args:
                    rev = arg(uses[0], None, "reverse")
                    st = _key_state(ctx, fi, arg(uses[0], None, "key"), target)
                    if rev is not None and const_value(rev) is not False:
                        st = False
                    sn, rn = cfg.nodes_for(uses[0]), cfg.nodes_for(ret)
                    if not (sn and rn and all(cfg.must_complete(x, sn) for x in rn)):
                        st = None
                    return (st if cut_ok else False), coll_of(src.args[0])
        return None, None
    # a sorted collection that is returned without the cut
    st, src = _sorted_source(ctx, fi, v, target)
    if src is not None:
        return False, coll_of(src)
    return None, None


def rule_closest(ctx: Ctx) -> None:
    repo = ctx.repo
    fi = _anchor_method(ctx, "RoutingTable", "closest_nodes")
    cfg = ctx.cfg(fi)
    target, k = fi.params()[1], fi.params()[2]
    rets = [r for r in walk_no_nested(fi.node) if isinstance(r, ast.Return)]
    ranked = {id(r): _ranked_prefix(ctx, fi, cfg, r, target, k) for r in rets}
    names = {c for _st, c in ranked.values() if c is not None}
    if not rets or any(st is False for st, _c in ranked.values()) or len(names) > 1:
        state = False
    elif any(st is None for st, _c in ranked.values()):
        state = None
    else:
        state = True
    bad_ret = next((r for r in rets if ranked[id(r)][0] is False), next((r for r in rets if ranked[id(r)][0] is None), rets[0] if rets else None))
    _verdict(ctx, state, "closest", fi, bad_ret if bad_ret is not None else fi.node, "result = sorted(nodes, key=XOR distance to the target first)[:max_nodes]",
             "closest_nodes does not return the max_nodes nearest by XOR distance to the target, nearest first",
             unknown="a returned value is not recognisable as sorted(<collection>, key=<distance first>)[:max_nodes] (or nsmallest / sort + slice)")
    coll_known = len(names) == 1
    coll = next(iter(names), None) or "nodes"
    dist = _rt_function(ctx, "distance")
    alts = _return_alternatives(dist, ctx)
    a, b = dist.params()[:2]
    def xor_metric(x: ast.AST) -> bool:
        x = strip_cast(x)
        if isinstance(x, ast.BinOp) and isinstance(x.op, ast.BitXor):
            return (_int_of_bytes(x.left, a, ctx) and _int_of_bytes(x.right, b, ctx)) or (_int_of_bytes(x.left, b, ctx) and _int_of_bytes(x.right, a, ctx))
        # int.from_bytes(bytes(x ^ y for x, y in zip(a, b)), 'big'): the same number for ids of equal length
        if isinstance(x, ast.Call) and chain(x.func) == "int.from_bytes" and x.args and const_value(arg(x, 1, "byteorder")) == "big":
            inner = strip_cast(x.args[0])
            if isinstance(inner, ast.Call) and chain(inner.func) == "bytes" and len(inner.args) == 1 and isinstance(inner.args[0], (ast.GeneratorExp, ast.ListComp)) \
                    and len(inner.args[0].generators) == 1 and not inner.args[0].generators[0].ifs:
                g, elt = inner.args[0].generators[0], strip_cast(inner.args[0].elt)
                z = strip_cast(g.iter)
                if isinstance(z, ast.Call) and chain(z.func) == "zip" and {norm(v) for v in z.args} == {a, b} and len(z.args) == 2 and isinstance(g.target, ast.Tuple) \
                        and len(g.target.elts) == 2 and isinstance(elt, ast.BinOp) and isinstance(elt.op, ast.BitXor) \
                        and {norm(elt.left), norm(elt.right)} == {norm(t) for t in g.target.elts}:
                    return True
        return False
    def xor_like(x: ast.AST) -> bool:
        x = strip_cast(x)
        if isinstance(x, ast.BinOp):
            return (_int_of_bytes(x.left, a, ctx, 2, True) and _int_of_bytes(x.right, b, ctx, 2, True)) or \
                (_int_of_bytes(x.left, b, ctx, 2, True) and _int_of_bytes(x.right, a, ctx, 2, True))
        if isinstance(x, ast.Call) and chain(x.func) == "abs" and len(x.args) == 1:
            return xor_like(x.args[0])
        return isinstance(x, ast.Call) and chain(x.func) == "int.from_bytes" and bool(x.args) and isinstance(strip_cast(x.args[0]), ast.Call) \
            and chain(strip_cast(x.args[0]).func) == "bytes"
    state = _tri(bool(alts) and all(xor_metric(x) for x in alts), bool(alts) and all(xor_metric(x) or xor_like(x) for x in alts))
    if state is None and len(dist.params()) == 2:
        # not a known spelling: evaluated for sample pairs of 20-byte ids (pure integer / bytes arithmetic only)
        state = _agrees_on_samples(ctx, dist, lambda x, y: int.from_bytes(x, "big") ^ int.from_bytes(y, "big"),
                                   [(x, y) for x in _SAMPLE_IDS[:6] for y in _SAMPLE_IDS[3:]])
    _verdict(ctx, state, "closest", dist, dist.node, "distance is XOR of the ids as integers", "distance is no longer the XOR metric",
             unknown="distance() is not written as <int of a> ^ <int of b>: that it is the XOR metric is not decided")

    # the prefix the walk starts from
    def is_prefix_src(e: ast.AST, fr: _Frame) -> bool:
        f2, e2 = _deep_resolve(fr, e, through_stop=True)
        if not (isinstance(e2, ast.Call) and f2.ntr(e2.func) == "self.trie.longest_prefix" and e2.args):
            return False
        return f2.ntr(e2.args[0]) == f"id_to_binary_string({target})"

    pre_names = [n for n in {x.id for x in walk_no_nested(fi.node) if isinstance(x, ast.Name)}
                 if (lambda d: d is not None and d[1] is None and isinstance(strip_cast(d[0]), ast.Call)
                     and chain(strip_cast(d[0]).func) == "self.trie.longest_prefix")(single_def(fi, n))]
    cl = _Closure(ctx, fi, stop=(coll, target, k, *sorted(pre_names)))
    # candidate set: the collection that is counted by the walk and sorted at the end receives live nodes only
    # (set comprehension with the filter, or an explicit loop that adds under the filter: same elements)
    adds: list[tuple[_Frame, ast.AST, bool | None]] = []
    for st, _val, _idx in local_defs(fi, coll):
        if not isinstance(st, (ast.Assign, ast.AnnAssign, ast.AugAssign)):
            adds.append((cl.root, st, None))                              # bound by for / with / walrus / except: not followed
    for fr, n in cl.nodes:
        def is_coll(e) -> bool:
            return isinstance(e, ast.Name) and norm(fr.tr(e, expand=False)) == coll

        def sets_of(it: ast.AST) -> bool | None:
            """every element of the iterable is a collection of live nodes"""
            it = strip_cast(resolve(fr.fi, strip_cast(it)))
            if isinstance(it, (ast.GeneratorExp, ast.ListComp)) and not any(g.is_async for g in it.generators):
                return union_state(it.elt)
            if isinstance(it, (ast.Tuple, ast.List)) and not any(isinstance(x, ast.Starred) for x in it.elts):
                return _combine_all(union_state(x) for x in it.elts) if it.elts else True
            return None

        def union_state(v: ast.AST) -> bool | None:
            v = strip_cast(v)
            if is_coll(v):
                return True
            if isinstance(v, ast.BinOp) and isinstance(v.op, ast.BitOr):
                return _combine_all([union_state(v.left), union_state(v.right)])
            if isinstance(v, ast.Dict) and v.keys and all(k_ is None for k_ in v.keys):
                return _combine_all(union_state(x) for x in v.values)    # {**coll, **more}: the mapping and what is merged into it
            if isinstance(v, ast.Call) and isinstance(v.func, ast.Attribute) and v.func.attr == "union" and not v.keywords:
                # coll.union(a, *sets): the receiver and every argument
                return _combine_all([union_state(v.func.value), *[sets_of(a.value) if isinstance(a, ast.Starred) else union_state(a) for a in v.args]])
            if isinstance(v, ast.Call) and chain(v.func) in ("reduce", "functools.reduce") and 2 <= len(v.args) <= 3 and not v.keywords \
                    and not any(isinstance(a, ast.Starred) for a in v.args):
                f = strip_cast(v.args[0])
                joins = chain(f) in ("operator.or_", "or_", "operator.__or__", "set.union", "frozenset.union", "set.__or__") or (
                    isinstance(f, ast.Lambda) and len(f.args.args) == 2 and isinstance(f.body, ast.BinOp) and isinstance(f.body.op, ast.BitOr)
                    and {norm(f.body.left), norm(f.body.right)} == {a.arg for a in f.args.args})
                if joins:                                                 # reduce(or_, sets[, start]): the union of all of them
                    return _combine_all([sets_of(v.args[1]), *([union_state(v.args[2])] if len(v.args) == 3 else [])])
            return _live_state(ctx, fr.fi, v)
        if isinstance(n, ast.AugAssign) and is_coll(n.target):
            if isinstance(n.op, (ast.BitAnd, ast.Sub)):
                continue                                                  # can only shrink
            adds.append((fr, n, union_state(n.value) if isinstance(n.op, (ast.BitOr, ast.Add)) else None))
        elif isinstance(n, (ast.Assign, ast.AnnAssign)) and n.value is not None:
            tg = n.targets if isinstance(n, ast.Assign) else [n.target]
            subs = [t for t in tg if isinstance(t, ast.Subscript) and is_coll(t.value)]
            if subs:
                # coll[K] = x: the mapping receives x
                x = n.value
                fs = cl.facts(fr, n)
                xn = norm(fr.tr(x, expand=False)) if isinstance(x, ast.Name) else None
                if xn is not None and not isinstance(subs[0].slice, ast.Slice) and any(_excludes_bad(ctx, f, xn) for f in fs):
                    adds.append((fr, n, True))
                else:
                    raw = isinstance(x, ast.Name) and not isinstance(subs[0].slice, ast.Slice) and _raw_nodes_source(fr.fi, None, x.id, n) and not _under_match(fr, n)
                    adds.append((fr, n, False if raw else None))
            elif any(is_coll(t) for t in tg):
                if fr.parent is not None and not any(isinstance(t, ast.Name) and t.id in fr.alias for t in tg):
                    continue                                              # a helper rebinding its parameter: not the caller's collection
                if _empty_collection(n.value) or (isinstance(n.value, ast.Dict) and not n.value.keys):
                    continue
                if fr.parent is None and isinstance(n.value, ast.Call) and any(f.site is n.value and f.alias for f in cl.frames):
                    continue                                              # filled by a helper that is followed (its local is this name)
                adds.append((fr, n, union_state(n.value)))
            elif fr.parent is None and any(coll in {x.id for x in ast.walk(t) if isinstance(x, ast.Name) and isinstance(x.ctx, ast.Store)} for t in tg):
                adds.append((fr, n, None))                                # bound through unpacking: not followed
        elif isinstance(n, ast.Call) and isinstance(n.func, ast.Attribute) and is_coll(n.func.value):
            if n.func.attr in ("add", "append", "setdefault") and 1 <= len(n.args) <= 2 and not (n.func.attr == "setdefault" and len(n.args) == 1):
                x = n.args[1] if n.func.attr == "setdefault" else n.args[0]   # mapping.setdefault(K, x) inserts x
                fs = cl.facts(fr, n)
                xn = norm(fr.tr(x, expand=False)) if isinstance(x, ast.Name) else None
                if xn is not None and any(_excludes_bad(ctx, f, xn) for f in fs):
                    adds.append((fr, n, True))
                else:
                    raw = isinstance(x, ast.Name) and _raw_nodes_source(fr.fi, None, x.id, n) and not _under_match(fr, n)
                    adds.append((fr, n, False if raw else None))
            elif n.func.attr in ("update", "extend", "insert", "symmetric_difference_update", "__ior__", "union_update"):
                adds.append((fr, n, _combine_all(_live_state(ctx, fr.fi, a) for a in n.args) if n.func.attr in ("update", "extend") and not n.keywords else None))
    state = _combine_all(st for _fr, _n, st in adds) if coll_known else (False if any(st is False for _fr, _n, st in adds) else None)
    bad = next(((fr, n) for fr, n, st in adds if st is False), next(((fr, n) for fr, n, st in adds if st is None), None))
    _verdict(ctx, state, "closest", bad[0].fi if bad else fi, enclosing_stmt(bad[1]) if bad is not None else fi.node, "candidates exclude BAD nodes",
             "closest_nodes can return nodes whose status is BAD",
             unknown=f"how the candidate collection `{coll}` is filled is not recognised" + ("" if adds else " (nothing is added to it in the call tree)"))

    # the candidate collection tells nodes apart by their id, as the table does
    if coll_known:
        istate, ifr, ist, why = _candidate_identity(ctx, cl, coll)
        _verdict(ctx, istate, "closest", ifr.fi if ifr is not None else fi, enclosing_stmt(ist) if ist is not None else fi.node,
                 "candidates are identified by Node.id (dict keyed by node.id / set of ids)", why, unknown=why)

    # the one node a caller may leave out is told apart by its id as well: `<node> != exclude_node` (or `in` / `not in` a
    # literal holding it) is Peer equality - by public key - and drops every table entry of that key, whatever its node id
    excl = fi.params()[3] if len(fi.params()) > 3 else None
    if excl is not None:
        by_key = _node_equality_by_key(ctx)
        offending: list[tuple[_Frame, ast.AST]] = []
        for fr in cl.frames:
            for n in ast.walk(fr.fi.node):
                if not isinstance(n, ast.Compare):
                    continue
                sides = [n.left, *n.comparators]
                for op, l, r in zip(n.ops, sides, sides[1:]):
                    if not isinstance(op, (ast.Eq, ast.NotEq, ast.In, ast.NotIn)):
                        continue
                    lt, rt = strip_cast(fr.tr(l)), strip_cast(fr.tr(r))
                    if isinstance(op, (ast.In, ast.NotIn)):
                        if not isinstance(rt, (ast.Tuple, ast.List, ast.Set)):
                            continue
                        pairs = [(lt, strip_cast(x)) for x in rt.elts]
                    else:
                        pairs = [(lt, rt)]
                    for x, y in pairs:
                        for me_, other in ((x, y), (y, x)):
                            if isinstance(me_, ast.Name) and me_.id == excl and not (isinstance(other, ast.Constant) and other.value is None) \
                                    and not (isinstance(other, ast.Name) and other.id == excl):
                                offending.append((fr, n))
        state = True if not offending or by_key is False else (None if by_key is None else False)
        _verdict(ctx, state, "closest", offending[0][0].fi if offending else fi, enclosing_stmt(offending[0][1]) if offending else fi.node,
                 "the excluded node is told apart by its id (node.id != exclude_node.id), never by Peer equality",
                 f"closest_nodes compares a table entry with `{excl}` as Node objects: Peer equality is by public key, so every entry of the excluded node's key "
                 "(same key seen from another network: another node id, possibly another bucket) is left out too - the result is no longer the k closest live nodes",
                 unknown=f"a table entry is compared with `{excl}` as an object and how Node objects compare (__eq__) is not recognised")

    # the walk: i from len(prefix) down to 0, all suffixes of prefix[:i]; break only with >= max_nodes collected
    walks = []
    all_loops = []
    for fr in cl.frames:
        pnames = {n.id for n in walk_no_nested(fr.fi.node) if isinstance(n, ast.Name) and isinstance(n.ctx, ast.Load) and is_prefix_src(n, fr)
                  and not isinstance(_deep_resolve(fr, n, through_stop=True)[1], ast.Name)}
        loops = [l for l in walk_no_nested(fr.fi.node) if isinstance(l, (ast.For, ast.While))]
        all_loops.extend((fr, l) for l in loops)
        for l in loops:
            for pn in sorted(pnames):
                if isinstance(l, ast.While):
                    wv = _while_descending(fr.fi, l, pn)
                    if wv is not None:
                        walks.append((fr, l, pn, f"{pn}[:{wv}]", (pn, wv)))
                        break
                    continue
                if isinstance(l.target, ast.Name) and _descending_from_len(fr.fi, l.iter, pn):
                    walks.append((fr, l, pn, f"{pn}[:{l.target.id}]", (pn, l.target.id)))
                    break
                sub = _level_prefixes(ctx, fr, l, pn)
                if sub is not None:
                    walks.append((fr, l, pn, sub, (pn, sub)))
                    break
    # a generator helper that only produces the level prefixes of a recognised walk is part of that walk, not a second one
    def feeds(w2, w1) -> bool:
        f2 = w2[0]
        return f2.parent is not None and f2.site is not None and isinstance(w1[1], ast.For) and any(x is f2.site for x in ast.walk(w1[1].iter))
    walks = [w for w in walks if not any(w1 is not w and feeds(w, w1) for w1 in walks)]
    first_loop = all_loops[0] if all_loops else None
    if len(walks) == 1:
        wstate: bool | None = True
    else:
        # a loop over a range built from len(<prefix>) that is not `len(prefix) down to 0` is a recognised, different walk
        def counts_from_len(fr0: _Frame, l: ast.AST) -> bool:
            if isinstance(l, ast.While):
                for n in ast.walk(l.test):
                    if isinstance(n, ast.Name) and n.id not in fr0.fi.params():
                        for _st, v, _i in local_defs(fr0.fi, n.id):
                            if v is not None and isinstance(strip_cast(v), ast.Call) and chain(strip_cast(v).func) == "len" and strip_cast(v).args \
                                    and is_prefix_src(strip_cast(v).args[0], fr0):
                                return True
                return False
            if not isinstance(l, ast.For):
                return False
            it = _expand(fr0.fi, l.iter, ())
            return isinstance(it, ast.Call) and chain(it.func) in ("range", "reversed") and any(
                isinstance(n, ast.Call) and chain(n.func) == "len" and n.args and is_prefix_src(n.args[0], fr0) for n in ast.walk(l.iter))
        wstate = False if not walks and any(counts_from_len(fr0, l) for fr0, l in all_loops) else None
    _verdict(ctx, wstate, "closest", first_loop[0].fi if first_loop else fi, first_loop[1] if first_loop else fi.node, "walk from the longest prefix outwards to the root",
             "the subtree walk does not go from the longest prefix to the root",
             unknown="no loop is recognisable as `len(prefix) down to 0` over the prefixes of the target (recursion / pipeline / state machine?): the level order is not decided")
    if len(walks) == 1:
        fr, outer, pn, sub, stop = walks[0]
        wfi = fr.fi
        stop = tuple(stop) + tuple(x for x in (coll,) if x)
        # every iteration construct below the level loop - in the walk's function or in a helper called from the level:
        # statement loops and comprehension clauses over self.trie.suffixes(<level prefix>)
        outer_ids = set(map(id, ast.walk(outer)))
        wstop = tuple(dict.fromkeys(stop + (pn,)))
        want_iter = f"self.trie.suffixes({sub})"

        def in_level(f2: _Frame, n: ast.AST) -> bool:
            return fr in f2.stack() and id(cl.lifted(f2, n, fr)) in outer_ids

        def tr_level(f2: _Frame, e: ast.AST, extra=()) -> ast.AST:
            if f2 is fr and fr.parent is None:
                return _fold(_expand(wfi, e, wstop + tuple(extra)))
            return f2.tr(e)
        if fr.parent is not None:
            sub = norm(fr.tr(ast.parse(sub, mode="eval").body))             # the level prefix in the anchor's vocabulary
            want_iter = f"self.trie.suffixes({sub})"

        def conditional(f2: _Frame, n: ast.AST, upto: ast.AST | None = None) -> bool:
            """n does not run on every round of the level loop (or of `upto`): it sits in a branch of an if / conditional
            expression, in a try, a while body or behind a short-circuit"""
            while True:
                cur = n
                for a in ancestors(n):
                    if a is outer or a is f2.fi.node or a is upto:
                        break
                    if isinstance(a, (ast.If, ast.IfExp, ast.While)) and cur is not a.test:
                        return True
                    if isinstance(a, ast.Try):
                        return True
                    if isinstance(a, ast.BoolOp) and cur is not a.values[0]:
                        return True
                    if isinstance(a, (*_COMPS, ast.DictComp)):
                        # behind a filter clause of the comprehension?
                        for gi, g in enumerate(a.generators):
                            if cur is g or any(cur is x for x in g.ifs[1:]):
                                if any(h.ifs for h in a.generators[:gi]) or any(cur is x for x in g.ifs[1:]):
                                    return True
                        if cur is getattr(a, "elt", None) or cur is getattr(a, "key", None) or cur is getattr(a, "value", None):
                            if any(h.ifs for h in a.generators) and a is not upto:
                                return True
                    cur = a
                if f2 is fr or upto is not None:
                    return False
                n, f2 = f2.site, f2.parent

        inner = []
        for f2, l in cl.nodes:
            if not in_level(f2, l):
                continue
            if isinstance(l, ast.For) and l is not outer and isinstance(l.target, ast.Name) and norm(tr_level(f2, l.iter)) == want_iter:
                inner.append((f2, l, l.target.id, l.body))
            elif isinstance(l, (*_COMPS, ast.DictComp)):
                g = l.generators[0]
                if isinstance(g.target, ast.Name) and not g.is_async and norm(tr_level(f2, g.iter)) == want_iter:
                    inner.append((f2, l, g.target.id, [l]))
        lstate: bool | None = None
        if not inner:
            # a suffix loop over another prefix than the level's is a recognised, different level
            other = [l for f2, l in cl.nodes if in_level(f2, l) and ((isinstance(l, ast.For) and "self.trie.suffixes(" in norm(tr_level(f2, l.iter)))
                                                                     or (isinstance(l, (*_COMPS, ast.DictComp)) and "self.trie.suffixes(" in norm(tr_level(f2, l.generators[0].iter))))]
            lstate = False if other else None
        if len(inner) == 1:
            f2, loopnode, sv, scope = inner[0]
            svt = sv if f2.parent is None or sv not in f2.locals else f"{sv}@{f2.fi.name}"
            hit = skipped = False
            for st in scope:
                for x in ast.walk(st):
                    if isinstance(x, ast.Subscript) and isinstance(x.ctx, ast.Load) and norm(tr_level(f2, x.value, (sv,))) == "self.trie":
                        parts = _str_parts(tr_level(f2, x.slice, (sv,)))
                        if parts == [("e", sub), ("e", svt)]:
                            if conditional(f2, x, upto=loopnode):
                                skipped = True                            # ... only for some suffixes
                            else:
                                hit = True                                # the bucket of every suffix is looked up, unconditionally
            # the suffix loop runs on every level: it is not under a condition inside the level
            if conditional(f2, loopnode) or (isinstance(loopnode, (*_COMPS, ast.DictComp)) and loopnode.generators[0].ifs):
                lstate = False                                            # (a filter on the suffix clause would skip buckets)
            else:
                lstate = True if hit else (False if skipped else None)
        _verdict(ctx, lstate, "closest", wfi, outer, "each level takes every bucket below prefix[:i]", "a level of the walk does not cover the whole subtree",
                 unknown="how a level of the walk reaches the buckets below its prefix (self.trie.suffixes(prefix[:i]) / self.trie[prefix[:i] + suffix]) is not recognised")
        within = set(map(id, ast.walk(outer)))
        exits = [b for b in ast.walk(outer) if isinstance(b, ast.Break)]
        exits += [r for r in ast.walk(outer) if isinstance(r, ast.Return) and not any(isinstance(a, (*_FUNCS, ast.Lambda)) for a in _between(r, outer))]
        # a further conjunct of a `while` condition ends the walk when it fails: what its failing says must be the stop criterion
        for c in _WHILE_EXTRA.get(id(outer), []):
            fs0 = _atoms_with_polarity(c, False)
            fs0 = fs0 + [g for f in fs0 for g in _expand_fact(ctx, wfi, f, c)]
            fs = [Fact(f.op, fr.tr(f.left, ex), fr.tr(f.right, ex) if f.right is not None else None, f.pos, f.atom) for f in fs0 for ex in (True, False)]
            sats = [x for x in (_cmp_sat(f, f"len({coll})", k) for f in fs) if x]
            ok = any(all(L >= K for L, K in x) for x in sats)
            ctx.check(ok, "closest", wfi, outer, "the walk's loop condition ends it only with >= max_nodes candidates",
                      "the walk can stop with fewer than max_nodes candidates: the result is not the k closest", sorted({str(f) for f in fs}))
        for b in exits:
            fs = cl.facts(fr, b)
            sats = [x for x in (_cmp_sat(f, f"len({coll})", k) for f in fs) if x]
            ok = any(all(L >= K for L, K in x) for x in sats)             # at least max_nodes candidates are held
            in_inner = any(isinstance(a, (ast.For, ast.While)) and a is not outer for a in ancestors(b) if id(a) in within)
            # an exit under conditions none of which speaks about the size of the collection (a flag computed elsewhere, a field of
            # a result object that could not be followed) is an unknown; one that does compare the size - wrongly - or has no
            # condition at all is a finding
            own = [f for f in fs if f.atom is not None and any(a is outer for a in ancestors(f.atom))]
            opaque = bool(own) and not any(f"len({coll})" in str(f) for f in own)
            state = True if ok and not in_inner else (None if not in_inner and (_under_match(fr, b) or not coll_known or opaque) else False)
            _verdict(ctx, state, "closest", wfi, b, "the walk stops only after a complete level and with >= max_nodes candidates",
                     "the walk can stop with fewer than max_nodes candidates or in the middle of a subtree: the result is not the k closest", sorted({str(f) for f in fs}),
                     unknown="the collection whose size should stop the walk is not recognised / the exit is under a match statement")
    # the walk starts at the longest known prefix of the target
    ok = len(walks) == 1 or any(is_prefix_src(n, cl.root) for n in walk_no_nested(fi.node) if isinstance(n, ast.Name) and isinstance(n.ctx, ast.Load))
    lp_calls = [n for fr0, n in cl.nodes if isinstance(n, ast.Call) and isinstance(n.func, ast.Attribute) and n.func.attr == "longest_prefix"]
    _verdict(ctx, True if ok else (False if lp_calls and fi.node in [fr0.fi.node for fr0, n in cl.nodes if n in lp_calls] else None), "closest", fi, fi.node,
             "walk starts at the longest known prefix of the target", "the walk does not start at the target's own bucket",
             unknown="where the prefix the walk starts from comes from is not recognised")


_WHILE_EXTRA: dict[int, list] = {}


def _while_descending(fi: FuncInfo, w: ast.While, pn: str) -> str | None:
    """`v = len(prefix)` ... `while v >= 0: <level>; v -= 1`: the counter takes len(prefix), ..., 0 - one level per round.
    Returns the counter's name."""
    if w.orelse:
        return None
    conj = list(w.test.values) if isinstance(w.test, ast.BoolOp) and isinstance(w.test.op, ast.And) else [w.test]
    v = None
    for t in conj:
        if not (isinstance(t, ast.Compare) and len(t.ops) == 1):
            continue
        l, op, r = t.left, t.ops[0], t.comparators[0]
        if isinstance(l, ast.Name) and ((isinstance(op, ast.GtE) and const_value(r) == 0) or (isinstance(op, ast.Gt) and const_value(r) == -1)):
            v = l.id
        elif isinstance(r, ast.Name) and ((isinstance(op, ast.LtE) and const_value(l) == 0) or (isinstance(op, ast.Lt) and const_value(l) == -1)):
            v = r.id
        if v is not None:
            _WHILE_EXTRA[id(w)] = [x for x in conj if x is not t]       # further conjuncts: the loop also ends when one of them fails
            break
    if v is None or v in fi.params():
        return None
    defs = local_defs(fi, v)
    if len(defs) != 2:
        return None
    inside = [d for d in defs if any(a is w for a in ancestors(d[0]))]
    init = [d for d in defs if d not in inside and isinstance(d[0], (ast.Assign, ast.AnnAssign)) and d[1] is not None and d[2] is None]
    if len(init) != 1 or len(inside) != 1:
        return None
    if norm(_expand(fi, init[0][1], (pn, v))) != f"len({pn})":
        return None
    st = inside[0][0]
    dec = (isinstance(st, ast.AugAssign) and isinstance(st.op, ast.Sub) and const_value(st.value) == 1) or \
        (isinstance(st, ast.Assign) and inside[0][1] is not None and inside[0][2] is None and norm(inside[0][1]) == f"{v} - 1")
    if not (w.body and w.body[-1] is st and dec):
        return None
    # no `continue` of this loop (it would skip the decrement), the initialisation is the statement before the loop's level
    for n in ast.walk(w):
        if isinstance(n, ast.Continue) and next((a for a in ancestors(n) if isinstance(a, (ast.For, ast.While))), None) is w:
            return None
    return v


def _level_prefixes(ctx: Ctx, fr: _Frame, loop: ast.For, pn: str) -> str | None:
    """`for P in (prefix[:i] for i in <len(prefix) down to 0>)` or `for P in generator_helper(prefix)` that yields exactly
    those: the loop target then IS the level's prefix.  Returns the target name."""
    if not isinstance(loop.target, ast.Name):
        return None
    fi = fr.fi
    it = _strip_snapshot(resolve(fi, _strip_snapshot(loop.iter)))
    if isinstance(it, ast.Call) and chain(it.func) in ("takewhile", "itertools.takewhile") and len(it.args) == 2 and not it.keywords:
        # for P in takewhile(lambda _: C, levels): the levels in order, ended before the first one for which C fails - C is a
        # further loop condition (checked like an extra conjunct of a `while`)
        pred = strip_cast(resolve(fi, it.args[0]))
        if not (isinstance(pred, ast.Lambda) and len(pred.args.args) == 1 and not (pred.args.vararg or pred.args.kwarg or pred.args.kwonlyargs or pred.args.defaults)
                and not any(isinstance(n, ast.Name) and n.id == pred.args.args[0].arg for n in ast.walk(pred.body))):
            return None
        _WHILE_EXTRA[id(loop)] = [pred.body]
        it = _strip_snapshot(resolve(fi, _strip_snapshot(it.args[1])))
    if isinstance(it, (ast.ListComp, ast.GeneratorExp)) and len(it.generators) == 1 and not it.generators[0].ifs and isinstance(it.generators[0].target, ast.Name):
        g = it.generators[0]
        if _descending_from_len(fi, g.iter, pn) and norm(it.elt) == f"{pn}[:{g.target.id}]":
            return loop.target.id
        return None
    if isinstance(it, ast.Call) and chain(it.func) == "reversed" and len(it.args) == 1 and not it.keywords:
        # reversed(list(accumulate(prefix, initial=""))): '', p[:1], ..., p reversed = the prefixes of p from the longest to the root
        acc = _strip_snapshot(resolve(fi, _strip_snapshot(it.args[0])))
        if isinstance(acc, ast.Call) and chain(acc.func) in ("accumulate", "itertools.accumulate") and len(acc.args) == 1 and isinstance(acc.args[0], ast.Name) and acc.args[0].id == pn \
                and [k.arg for k in acc.keywords] == ["initial"] and const_value(acc.keywords[0].value) == "":
            return loop.target.id
        return None
    if isinstance(it, ast.Call):
        tgt, binds_self = _callee(ctx, fi, it)
        if isinstance(tgt, FuncInfo) and _is_generator(tgt.node) and not tgt.is_async:
            env = _bind_args(tgt.node, it, binds_self)
            if env is None:
                return None
            pp = [p for p, x in env.items() if isinstance(x, ast.Name) and x.id == pn]
            body = [s for s in tgt.node.body if not (isinstance(s, ast.Expr) and isinstance(s.value, ast.Constant))]
            if len(pp) == 1 and len(body) == 1 and isinstance(body[0], ast.For) and isinstance(body[0].target, ast.Name) and not body[0].orelse \
                    and _descending_from_len(tgt, body[0].iter, pp[0]) and len(body[0].body) == 1 and isinstance(body[0].body[0], ast.Expr) \
                    and isinstance(body[0].body[0].value, ast.Yield) and body[0].body[0].value.value is not None \
                    and norm(body[0].body[0].value.value) == f"{pp[0]}[:{body[0].target.id}]":
                return loop.target.id
    return None
def _prefix_empty(conds: tuple) -> bool:
    """The path conditions say that the prefix has no characters."""
    for t, pol in conds:
        for f in _atoms_with_polarity(t, pol):
            l, r = norm(f.left), (norm(f.right) if f.right is not None else None)
            if f.op == "truthy" and not f.pos and l in ("len(self.prefix_id)", "self.prefix_id"):
                return True
            if f.op == "eq" and f.pos and ({l, r} == {"len(self.prefix_id)", "0"} or {l, r} == {"self.prefix_id", "''"} or {l, r} == {_WIDTH, "160"}):
                return True
            if f.op == "lt" and not f.pos and (l, r) == ("0", "len(self.prefix_id)"):
                return True
    return False


def _shifted_prefix(full: ast.AST, conds: tuple) -> bool:
    """The id is computed as integer: (int(prefix, 2) << W) | tail  (also + / * 2**W) with W = 160 - len(prefix): the
    prefix bits are the leading bits.  int('' , 2) does not exist, so an empty prefix may be spelled 0."""
    def is_prefix_int(x: ast.AST) -> bool:
        x = strip_cast(x)
        if isinstance(x, ast.Call) and chain(x.func) == "int" and len(x.args) == 2 and const_value(x.args[1]) == 2 and chain(strip_cast(x.args[0])) == "self.prefix_id":
            return True
        return isinstance(x, ast.Constant) and x.value == 0 and not isinstance(x.value, bool) and _prefix_empty(conds)

    def shifted(x: ast.AST) -> bool:
        x = strip_cast(x)
        if isinstance(x, ast.BinOp) and isinstance(x.op, ast.LShift):
            return is_prefix_int(x.left) and norm(x.right) == _WIDTH
        if isinstance(x, ast.BinOp) and isinstance(x.op, ast.Mult):
            for a, b in ((x.left, x.right), (x.right, x.left)):
                b = strip_cast(b)
                if is_prefix_int(a) and isinstance(b, ast.BinOp) and ((isinstance(b.op, ast.Pow) and const_value(b.left) == 2 and norm(b.right) == _WIDTH)
                                                                     or (isinstance(b.op, ast.LShift) and const_value(b.left) == 1 and norm(b.right) == _WIDTH)):
                    return True
        return False
    for n in ast.walk(full):
        if isinstance(n, ast.BinOp) and isinstance(n.op, (ast.BitOr, ast.Add)) and (shifted(n.left) or shifted(n.right)):
            return True
    return False


def _bytewise_pack(full: ast.AST) -> ast.AST | None:
    """bytes(int(S[at:at + 8], 2) for at in range(0, len(S), 8)): the bit string S packed most significant bit first, 8
    characters per byte - 20 bytes for the 160 characters prefix + suffix.  Returns S."""
    for n in ast.walk(full):
        if isinstance(n, ast.Call) and chain(n.func) in ("bytes", "bytearray") and len(n.args) == 1 and isinstance(n.args[0], (ast.GeneratorExp, ast.ListComp)) \
                and len(n.args[0].generators) == 1 and not n.args[0].generators[0].ifs and isinstance(n.args[0].generators[0].target, ast.Name):
            g, elt = n.args[0].generators[0], strip_cast(n.args[0].elt)
            at = g.target.id
            r = strip_cast(g.iter)
            if not (isinstance(elt, ast.Call) and chain(elt.func) == "int" and len(elt.args) == 2 and const_value(elt.args[1]) == 2):
                continue
            sl = strip_cast(elt.args[0])
            if not (isinstance(sl, ast.Subscript) and isinstance(sl.slice, ast.Slice) and sl.slice.step is None and sl.slice.lower is not None and norm(sl.slice.lower) == at
                    and sl.slice.upper is not None and norm(sl.slice.upper) in (f"{at} + 8", f"8 + {at}")):
                continue
            if isinstance(r, ast.Call) and chain(r.func) == "range" and len(r.args) == 3 and const_value(r.args[0]) == 0 and const_value(r.args[2]) == 8 \
                    and norm(r.args[1]) in (f"len({norm(sl.value)})", "160"):
                return sl.value
    return None


def _random_width_ok(c: ast.Call) -> bool:
    """the call draws uniformly from [0, 2 ** (160 - len(prefix)) )"""
    name = call_name(c)
    a = c.args
    if c.keywords:
        return False

    def pow2(e) -> bool:                       # 2 ** W  /  1 << W
        e = strip_cast(e)
        if isinstance(e, ast.BinOp) and isinstance(e.op, ast.Pow):
            return const_value(e.left) == 2 and norm(e.right) == _WIDTH
        if isinstance(e, ast.BinOp) and isinstance(e.op, ast.LShift):
            return const_value(e.left) == 1 and norm(e.right) == _WIDTH
        return False
    if name == "getrandbits" and len(a) == 1:
        return norm(a[0]) == _WIDTH
    if name == "randrange" and len(a) == 1:
        return pow2(a[0])
    if name == "randrange" and len(a) == 2:
        return const_value(a[0]) == 0 and pow2(a[1])
    if name == "randint" and len(a) == 2 and const_value(a[0]) == 0:
        hi = strip_cast(a[1])
        return isinstance(hi, ast.BinOp) and isinstance(hi.op, ast.Sub) and const_value(hi.right) == 1 and pow2(hi.left)
    return False


class _NotPure(Exception):
    pass


def _pure_eval(e: ast.AST, env: dict, consts: dict, depth: int = 0):
    """Value of an expression built from integer / bytes / string arithmetic and a few standard-library renderers (format,
    to_bytes, binascii.unhexlify, struct.pack, precompiled struct.Struct ...) for concrete values of its free names.  Nothing
    of the analysed repository is run: names are looked up in `env` and in module-level constant EXPRESSIONS (evaluated
    the same way); any other name, call or syntax raises _NotPure."""
    import binascii as _ba
    import struct as _st
    if depth > 40:
        raise _NotPure
    ev = lambda x, env=env: _pure_eval(x, env, consts, depth + 1)  # noqa: E731
    funcs = {"format": format, "int": int, "bytes": bytes, "bytearray": bytearray, "len": len, "range": range, "reversed": reversed, "tuple": tuple, "list": list,
             "sum": sum, "divmod": divmod, "hex": hex, "bin": bin, "str": str, "zip": zip, "enumerate": enumerate, "min": min, "max": max, "abs": abs,
             "binascii.unhexlify": _ba.unhexlify, "binascii.a2b_hex": _ba.a2b_hex, "unhexlify": _ba.unhexlify, "bytes.fromhex": bytes.fromhex,
             "struct.pack": _st.pack, "struct.Struct": _st.Struct, "Struct": _st.Struct, "pack": _st.pack, "int.to_bytes": int.to_bytes, "int.from_bytes": int.from_bytes,
             "struct.calcsize": _st.calcsize}
    methods = {int: {"to_bytes", "bit_length"}, bytes: {"hex", "join", "rjust", "ljust", "zfill"}, str: {"join", "zfill", "rjust", "ljust", "format", "upper", "lower", "encode"},
               _st.Struct: {"pack"}, bytearray: {"hex"}}
    import functools as _ft
    funcs.update({"binascii.hexlify": _ba.hexlify, "hexlify": _ba.hexlify, "binascii.b2a_hex": _ba.b2a_hex, "functools.reduce": _ft.reduce, "reduce": _ft.reduce,
                  "map": map, "all": all, "any": any, "bool": bool, "ord": ord, "chr": chr})
    e = strip_cast(e)
    if isinstance(e, ast.Constant):
        return e.value
    if isinstance(e, ast.Lambda):
        a = e.args
        if a.vararg or a.kwarg or a.kwonlyargs or a.defaults or a.posonlyargs:
            raise _NotPure
        names = [x.arg for x in a.args]

        def fn(*vals, names=names, body=e.body, env=env):
            if len(vals) != len(names):
                raise _NotPure
            return _pure_eval(body, {**env, **dict(zip(names, vals))}, consts, depth + 1)
        return fn
    if isinstance(e, ast.Name):
        if e.id in env:
            return env[e.id]
        if e.id in consts:
            return _pure_eval(consts[e.id], {}, consts, depth + 1)
        raise _NotPure
    if isinstance(e, (ast.Tuple, ast.List)):
        out = []
        for x in e.elts:
            out.extend(ev(x.value) if isinstance(x, ast.Starred) else [ev(x)])
        return tuple(out) if isinstance(e, ast.Tuple) else out
    try:
        if isinstance(e, ast.BinOp):
            import operator as _op
            ops = {ast.Add: _op.add, ast.Sub: _op.sub, ast.Mult: _op.mul, ast.FloorDiv: _op.floordiv, ast.Mod: _op.mod, ast.LShift: _op.lshift, ast.RShift: _op.rshift,
                   ast.BitOr: _op.or_, ast.BitAnd: _op.and_, ast.BitXor: _op.xor, ast.Pow: _op.pow}
            if type(e.op) not in ops:
                raise _NotPure
            a, b = ev(e.left), ev(e.right)
            if isinstance(e.op, (ast.Pow, ast.LShift)) and isinstance(b, int) and b > 4096:
                raise _NotPure
            if isinstance(e.op, ast.Mult) and ((isinstance(b, int) and not isinstance(a, int) and b > 4096) or (isinstance(a, int) and not isinstance(b, int) and a > 4096)):
                raise _NotPure
            return ops[type(e.op)](a, b)
        if isinstance(e, ast.UnaryOp):
            v = ev(e.operand)
            return {ast.Not: lambda: not v, ast.USub: lambda: -v, ast.Invert: lambda: ~v, ast.UAdd: lambda: +v}[type(e.op)]()
        if isinstance(e, ast.IfExp):
            return ev(e.body) if ev(e.test) else ev(e.orelse)
        if isinstance(e, ast.BoolOp):
            v = None
            for x in e.values:
                v = ev(x)
                if bool(v) != isinstance(e.op, ast.And):
                    return v
            return v
        if isinstance(e, ast.Compare) and len(e.ops) == 1:
            a, b = ev(e.left), ev(e.comparators[0])
            return {ast.Eq: lambda: a == b, ast.NotEq: lambda: a != b, ast.Lt: lambda: a < b, ast.LtE: lambda: a <= b, ast.Gt: lambda: a > b, ast.GtE: lambda: a >= b}[type(e.ops[0])]()
        if isinstance(e, ast.Subscript):
            base = ev(e.value)
            if isinstance(e.slice, ast.Slice):
                return base[slice(*(ev(x) if x is not None else None for x in (e.slice.lower, e.slice.upper, e.slice.step)))]
            return base[ev(e.slice)]
        if isinstance(e, ast.Attribute) and e.attr in ("size", "format"):
            obj = ev(e.value)                                             # struct.Struct(fmt).size / .format: fixed by the format string
            if isinstance(obj, _st.Struct):
                return getattr(obj, e.attr)
            raise _NotPure
        if isinstance(e, ast.Attribute) and e.attr in ("digest_size", "block_size") and isinstance(e.value, ast.Call) and not e.value.args and not e.value.keywords:
            import hashlib as _hl
            c = chain(e.value.func) or ""
            name = c[len("hashlib."):] if c.startswith("hashlib.") else c
            if name in _hl.algorithms_guaranteed and not name.startswith("shake") and not (isinstance(e.value.func, ast.Name) and (name in env or name in consts)):
                return getattr(getattr(_hl, name)(), e.attr)              # a property of the algorithm, not of any data
            raise _NotPure
        if isinstance(e, ast.JoinedStr):
            out = ""
            for v in e.values:
                if isinstance(v, ast.FormattedValue):
                    if v.conversion != -1:
                        raise _NotPure
                    out += format(ev(v.value), ev(v.format_spec) if v.format_spec is not None else "")
                else:
                    out += ev(v)
            return out
        if isinstance(e, (ast.GeneratorExp, ast.ListComp)) and len(e.generators) == 1 and not e.generators[0].is_async:
            g = e.generators[0]
            out = []
            for i, item in enumerate(ev(g.iter)):
                if i > 4096:
                    raise _NotPure
                b = _bind(g.target, ast.Constant(value=None))
                if b is None:
                    raise _NotPure
                names = list(b)
                vals = [item] if isinstance(g.target, ast.Name) else list(item)
                if len(names) != len(vals) or not all(isinstance(t, ast.Name) for t in (g.target.elts if isinstance(g.target, (ast.Tuple, ast.List)) else [g.target])):
                    raise _NotPure
                env2 = {**env, **dict(zip([t.id for t in (g.target.elts if isinstance(g.target, (ast.Tuple, ast.List)) else [g.target])], vals))}
                if all(_pure_eval(c, env2, consts, depth + 1) for c in g.ifs):
                    out.append(_pure_eval(e.elt, env2, consts, depth + 1))
            return out
        if isinstance(e, ast.Call):
            args = []
            for x in e.args:
                args.extend(ev(x.value) if isinstance(x, ast.Starred) else [ev(x)])
            if any(k.arg is None for k in e.keywords):
                raise _NotPure
            kw = {k.arg: ev(k.value) for k in e.keywords}
            c = chain(e.func) if isinstance(e.func, (ast.Name, ast.Attribute)) else None
            if c in ("range", "bytes", "bytearray", "list", "tuple") and any(isinstance(x, int) and not isinstance(x, bool) and abs(x) > 65536 for x in args):
                raise _NotPure                                            # (no large allocations while evaluating)
            if c in funcs and not (isinstance(e.func, ast.Name) and (e.func.id in env or e.func.id in consts)):
                return funcs[c](*args, **kw)
            if isinstance(e.func, ast.Attribute):
                obj = ev(e.func.value)
                for t, names in methods.items():
                    if isinstance(obj, t) and not isinstance(obj, bool) and e.func.attr in names:
                        return getattr(obj, e.func.attr)(*args, **kw)
            raise _NotPure
    except _NotPure:
        raise
    except RecursionError:
        raise _NotPure from None
    except Exception as ex:  # noqa: BLE001 - the expression raises for this value: it is not a rendering of it
        raise _NotPure from ex
    raise _NotPure


# ----------------------------------------------------------------------------------- derived constants
def _module_bindings(m, name: str) -> int:
    """How often the module binds `name` at its top level (assignment targets, imports, def / class), +100 when any
    function declares it global: a constant is bound exactly once."""
    cache = m.__dict__.setdefault("_c14_bindings", {})
    if name in cache:
        return cache[name]
    count = 0
    for n in ast.walk(m.tree):
        if isinstance(n, ast.Global) and name in n.names:
            count += 100
        elif isinstance(n, ast.Name) and n.id == name and isinstance(n.ctx, (ast.Store, ast.Del)):
            if not any(isinstance(a, (*_FUNCS, ast.ClassDef, ast.Lambda, *_COMPS, ast.DictComp)) for a in ancestors(n)):
                count += 1
        elif isinstance(n, (ast.Import, ast.ImportFrom)) and not any(isinstance(a, (*_FUNCS, ast.ClassDef)) for a in ancestors(n)):
            for al in n.names:
                if (al.asname or al.name.split(".")[0]) == name:
                    count += 1
        elif isinstance(n, (*_FUNCS, ast.ClassDef)) and n.name == name and not any(isinstance(a, (*_FUNCS, ast.ClassDef)) for a in ancestors(n)):
            count += 1
    cache[name] = count
    return count


class _ConstMap:
    """The module-level constants visible in module m (imports followed to the defining module) as a mapping name ->
    expression for _pure_eval.  A name the module (or the defining module) binds more than once, or that a function
    declares global, is not a constant; `hide` are the names a local scope shadows."""

    def __init__(self, repo, m, hide=frozenset(), depth: int = 0, extra: dict | None = None):
        self.repo, self.m, self.hide, self.depth, self.extra = repo, m, hide, depth, extra or {}

    def _find(self, name: str):
        if name in self.hide or self.depth > 6:
            return None
        if name in self.extra:                                            # the names of a class body, seen from inside that body
            return self.m, self.extra[name]
        if _module_bindings(self.m, name) != 1:
            return None
        r = self.repo.resolve_name(self.m, name)
        if not (isinstance(r, tuple) and r[0] == "const"):
            return None
        owner, expr = r[1], r[2]
        if owner is not self.m:
            oname = next((k for k, v in owner.constants.items() if v is expr), None)
            if oname is None or _module_bindings(owner, oname) != 1:
                return None
        return owner, expr

    def __contains__(self, name) -> bool:
        return isinstance(name, str) and self._find(name) is not None

    def __getitem__(self, name):
        found = self._find(name)
        if found is None:
            raise _NotPure
        owner, expr = found
        if owner is self.m:
            return expr
        v = _pure_eval(expr, {}, _ConstMap(self.repo, owner, frozenset(), self.depth + 1))   # evaluated where it is defined
        if isinstance(v, (int, str, bytes, float, tuple)):
            return ast.Constant(value=v)
        raise _NotPure

    def get(self, name, default=None):
        try:
            return self[name]
        except _NotPure:
            return default


def _class_const(ctx: Ctx, ci, attr: str):
    """Value of the class-level constant `attr` as seen on an instance / subclass of ci (int / str / bytes), or NOCONST:
    bound once in one class body of the MRO, overridden by no subclass, never stored as an attribute anywhere in the
    repository (so `self.attr` can only mean the class-level binding), evaluated in the namespace of the class body."""
    owner = next((c for c in ci.mro() if attr in c.attrs), None)
    if owner is None or any(attr in sc.attrs for sc in [*ci.all_subclasses(), *owner.all_subclasses()] if sc is not owner and sc not in ci.mro()):
        return NOCONST
    cache = ctx.extra.setdefault("c14_class_const", {})
    key = (id(owner.node), attr)
    if key in cache:
        return cache[key]
    cache[key] = NOCONST
    bound = sum(1 for st in owner.node.body for t, _v in _assign_targets(st) if isinstance(t, ast.Name) and t.id == attr)
    if bound != 1 or any(isinstance(n.ctx, (ast.Store, ast.Del)) for _m, _f, n in ctx.repo.attribute_uses(attr)):
        return NOCONST
    once = {k: v for k, v in owner.attrs.items()
            if sum(1 for st in owner.node.body for t, _v in _assign_targets(st) if isinstance(t, ast.Name) and t.id == k) == 1}
    try:
        v = _pure_eval(owner.attrs[attr], {}, _ConstMap(ctx.repo, owner.module, frozenset(), 1, once))
    except _NotPure:
        return NOCONST
    if isinstance(v, bool) or not isinstance(v, (int, str, bytes)):
        return NOCONST
    cache[key] = v
    return v


def _format_to_fstring(e: ast.AST) -> ast.AST:
    """'<template>'.format(a, b, k=c) -> the f-string with the same fields (str.format and f-strings share the format
    specification language; only plain positional / keyword fields without attribute or index access, each argument
    expression used at most once so that nothing is evaluated twice)."""
    import string

    def build(template: str, args: list, kw: dict, auto: list, used: list, depth: int) -> list | None:
        out: list = []
        try:
            parsed = list(string.Formatter().parse(template))
        except ValueError:
            return None
        for lit, field, spec, conv in parsed:
            if lit:
                out.append(ast.Constant(value=lit))
            if field is None:
                continue
            if field == "":
                if auto[0] is None:
                    return None
                idx, auto[0] = auto[0], auto[0] + 1
                val = args[idx] if idx < len(args) else None
            elif field.isdigit():
                auto[0] = None if auto[0] in (None, 0) else -1
                if auto[0] == -1:
                    return None
                val = args[int(field)] if int(field) < len(args) else None
            elif field.isidentifier():
                val = kw.get(field)
            else:
                return None
            if val is None or any(val is u for u in used):
                return None
            used.append(val)
            fspec = None
            if spec:
                if depth > 0:
                    return None
                inner = build(spec, args, kw, auto, used, depth + 1)
                if inner is None:
                    return None
                fspec = ast.JoinedStr(values=inner)
            out.append(ast.FormattedValue(value=val, conversion=ord(conv) if conv else -1, format_spec=fspec))
        return out

    class T(ast.NodeTransformer):
        def visit_Call(self, n):
            self.generic_visit(n)
            if isinstance(n.func, ast.Attribute) and n.func.attr == "format" and isinstance(const_value(n.func.value), str) \
                    and not any(isinstance(a, ast.Starred) for a in n.args) and all(k.arg is not None for k in n.keywords):
                parts = build(const_value(n.func.value), list(n.args), {k.arg: k.value for k in n.keywords}, [0], [], 0)
                if parts is not None and any(isinstance(x, ast.FormattedValue) for x in parts) \
                        and sum(isinstance(x, ast.FormattedValue) for x in ast.walk(ast.JoinedStr(values=parts))) == len(n.args) + len(n.keywords):
                    return ast.copy_location(ast.JoinedStr(values=parts), n)
            return n
    return T().visit(e)


_FOLD_CALLS = {"len", "struct.calcsize", "calcsize", "int", "str", "format", "max", "min", "abs", "divmod", "pow", "ord", "chr", "bytes.fromhex",
               "binascii.unhexlify", "unhexlify", "binascii.hexlify", "hexlify"}
_FOLD_METHODS = {"format", "zfill", "rjust", "ljust", "upper", "lower", "join", "hex", "bit_length", "encode"}


def _fold_consts(ctx: Ctx, fi: FuncInfo, e: ast.AST) -> ast.AST:
    """A copy of expression e (of function fi) in which every sub-expression that is a constant of the program is replaced
    by the literal it evaluates to: module-level names bound once (also imported ones, `8 * WIDTH_BYTES`,
    struct.calcsize(FMT), STRUCT.size, len(CONSTANT), hashlib.sha1().digest_size, f"0{BITS}b", "%d" % N ...).  Names the
    function (or a lambda / comprehension inside e) binds are left alone.  A constant expression and its value are
    interchangeable everywhere, so every recogniser may work on the folded expression."""
    hide = set(fi.params()) | _bound_locals(fi.node)
    for n in ast.walk(e):
        if isinstance(n, ast.Lambda):
            hide |= {a.arg for a in [*n.args.posonlyargs, *n.args.args, *n.args.kwonlyargs, *filter(None, [n.args.vararg, n.args.kwarg])]}
        elif isinstance(n, ast.comprehension):
            hide |= _target_names(n.target)
        elif isinstance(n, ast.NamedExpr):
            hide |= _target_names(n.target)
    cm = _ConstMap(ctx.repo, fi.module, frozenset(hide))
    e = _format_to_fstring(_copy(e))

    def attempt(n: ast.AST) -> ast.AST:
        try:
            v = _pure_eval(n, {}, cm)
        except _NotPure:
            return n
        if isinstance(v, bool) or not isinstance(v, (int, str, bytes)) or (isinstance(v, (str, bytes)) and len(v) > 4096):
            return n
        return ast.copy_location(ast.Constant(value=v), n)

    def lit(x: ast.AST) -> bool:
        return isinstance(x, ast.Constant)

    class T(ast.NodeTransformer):
        def visit_Name(self, n):
            return attempt(n) if isinstance(n.ctx, ast.Load) and n.id in cm else n

        def visit_Attribute(self, n):
            if isinstance(n.ctx, ast.Load) and n.attr in ("size", "digest_size", "block_size"):
                new = attempt(n)
                if new is not n:
                    return new
            if isinstance(n.ctx, ast.Load) and isinstance(n.value, ast.Name) and n.value.id in ("self", "cls") and fi.cls is not None \
                    and fi.params()[:1] == [n.value.id] and n.value.id not in _bound_locals(fi.node):
                v = _class_const(ctx, fi.cls, n.attr)
                return n if v is NOCONST else ast.copy_location(ast.Constant(value=v), n)
            if isinstance(n.ctx, ast.Load) and isinstance(n.value, ast.Name) and n.value.id not in hide:
                r = ctx.repo.resolve_name(fi.module, n.value.id)
                if hasattr(r, "mro") and _module_bindings(fi.module, n.value.id) == 1:
                    v = _class_const(ctx, r, n.attr)                      # ClassName.WIDTH
                    return n if v is NOCONST else ast.copy_location(ast.Constant(value=v), n)
                if isinstance(r, tuple) and r[0] == "module" and r[1] is not None and _module_bindings(fi.module, n.value.id) == 1:
                    sub = _ConstMap(ctx.repo, r[1], frozenset(), 1)       # constants_module.WIDTH
                    if n.attr in sub:
                        try:
                            v = _pure_eval(ast.Name(id=n.attr, ctx=ast.Load()), {}, sub)
                        except _NotPure:
                            return n
                        if not isinstance(v, bool) and isinstance(v, (int, str, bytes)):
                            return ast.copy_location(ast.Constant(value=v), n)
                    return n
            self.generic_visit(n)
            return n

        def visit_BinOp(self, n):
            self.generic_visit(n)
            return attempt(n) if lit(n.left) and lit(n.right) else n

        def visit_FormattedValue(self, n):
            n.value = self.visit(n.value)
            if isinstance(n.format_spec, ast.JoinedStr):
                spec = self.visit_JoinedStr(n.format_spec)
                n.format_spec = spec if isinstance(spec, ast.JoinedStr) else ast.copy_location(ast.JoinedStr(values=[spec]), n.format_spec)
            return n

        def visit_JoinedStr(self, n):
            n.values = [self.visit(v) for v in n.values]
            ok = all(lit(v) or (isinstance(v, ast.FormattedValue) and lit(v.value) and (v.format_spec is None or
                     (isinstance(v.format_spec, ast.JoinedStr) and all(lit(x) for x in v.format_spec.values)))) for v in n.values)
            return attempt(n) if ok and n.values else n

        def visit_Call(self, n):
            self.generic_visit(n)
            if n.keywords or not all(lit(a) for a in n.args):
                return n
            c = chain(n.func) if isinstance(n.func, (ast.Name, ast.Attribute)) else None
            if c in _FOLD_CALLS and not (isinstance(n.func, ast.Name) and n.func.id in hide) and n.args:
                return attempt(n)
            if isinstance(n.func, ast.Attribute) and lit(n.func.value) and n.func.attr in _FOLD_METHODS:
                return attempt(n)
            return n
    return T().visit(_copy(e))


def _agrees_on_samples(ctx: Ctx, fi: FuncInfo, reference, samples: list[tuple]) -> bool | None:
    """A module function whose body is one returned expression (locals substituted) gives reference(*args) for every sample
    argument tuple: True; differs (or raises) for one: False; cannot be evaluated: None."""
    try:
        rets = _sym_returns(fi)
    except _Unsupported:
        return None
    if len(rets) != 1 or rets[0][1] or _is_generator(fi.node) or fi.is_async:
        return None
    expr, params = rets[0][2], fi.params()
    consts = fi.module.constants
    try:
        _pure_eval(expr, dict(zip(params, samples[0])), consts)
    except _NotPure as ex:
        if ex.__cause__ is None:
            return None                                                   # syntax / names the evaluator does not know
        return False                                                      # evaluable, but raises for a proper 20-byte id
    try:
        for args in samples:
            if _pure_eval(expr, dict(zip(params, args)), consts) != reference(*args):
                return False
    except _NotPure:
        return False
    return None          # agreement on the witness ids is no proof: the evaluation may refute, never accept


_SAMPLE_IDS = [bytes(20), bytes([255] * 20), bytes(range(1, 21)), bytes(range(200, 220)), bytes([0] * 19 + [1]), bytes([128] + [0] * 19), bytes([0] * 8 + [7] + [0] * 11),
               bytes.fromhex("0123456789abcdef0123456789abcdef01234567"), bytes.fromhex("0123456789abcdef0123456789abcdef012345ff")]


def _renders_20_bytes(ctx: Ctx, full: ast.AST) -> bool | None:
    """The returned expression, with the integer int(<bit string>, 2) it renders replaced by sample values, evaluates to
    exactly the 20 big-endian bytes of that integer: True; to something else: False; not evaluable: None."""
    ints = [n for n in ast.walk(full) if isinstance(n, ast.Call) and chain(n.func) == "int" and len(n.args) == 2 and const_value(n.args[1]) == 2]
    if not ints or len({ast.dump(n) for n in ints}) != 1:
        return None
    key = ast.dump(ints[0])

    class T(ast.NodeTransformer):
        def visit_Call(self, n):
            if ast.dump(n) == key:
                return ast.copy_location(ast.Name(id="value@id", ctx=ast.Load()), n)
            self.generic_visit(n)
            return n
    expr = T().visit(_copy(full))
    consts = ctx.repo.module(RT).constants
    samples = [0, 1, (1 << 160) - 1, 1 << 159, 0x0123456789ABCDEF0123456789ABCDEF01234567, 0xFF00FF00FF00FF00FF00FF00FF00FF00FF00FF00 >> 3, 255 << 64]
    try:
        for v in samples:
            got = _pure_eval(expr, {"value@id": v}, consts)
            if not isinstance(got, (bytes, bytearray)) or bytes(got) != v.to_bytes(20, "big"):
                return False
    except _NotPure:
        return None
    return None          # agreement on the witness integers is no proof: the evaluation may refute, never accept


def _twenty_bytes(full: ast.AST) -> bool:
    """the integer is rendered as exactly 20 bytes (40 hex digits / to_bytes(20, 'big'))"""
    for n in ast.walk(full):
        if isinstance(n, ast.Call) and chain(n.func) == "format" and len(n.args) == 2 and const_value(n.args[1]) in ("040X", "040x"):
            return True
        if isinstance(n, ast.FormattedValue) and isinstance(n.format_spec, ast.JoinedStr) and len(n.format_spec.values) == 1 \
                and const_value(n.format_spec.values[0]) in ("040X", "040x"):
            return True
        if isinstance(n, ast.Call) and isinstance(n.func, ast.Attribute) and n.func.attr == "to_bytes" and n.args and const_value(n.args[0]) == 20:
            order = arg(n, 1, "byteorder")
            if order is not None and const_value(order) == "big":
                return True
        if isinstance(n, ast.Call) and isinstance(n.func, ast.Attribute) and n.func.attr == "format" and const_value(n.func.value) in ("{:040X}", "{:040x}", "{0:040X}", "{0:040x}"):
            return True
    return False


def rule_refresh_id(ctx: Ctx) -> None:
    repo = ctx.repo
    fi = _anchor_method(ctx, "Bucket", "generate_id")
    rets = [r for r in walk_no_nested(fi.node) if isinstance(r, ast.Return)]
    ctx.anchor(rets, "return in generate_id")
    # the returned value as an expression over self.prefix_id: program-order substitution (handles `x = p; if w: x += s`),
    # falling back to substitution of single-assignment locals when the body has loops / try / with
    try:
        values = _sym_returns(fi)
        if {id(r) for r, _, _ in values} != {id(r) for r in rets}:
            raise _Unsupported
    except _Unsupported:
        # substitution of single-assignment locals says what a local WAS assigned, not what it holds after it was modified in
        # place (parts.append(...), x += ..., x[i] = ...): then the returned value is not known
        changed = {n.func.value.id for n in walk_no_nested(fi.node) if isinstance(n, ast.Call) and isinstance(n.func, ast.Attribute)
                   and isinstance(n.func.value, ast.Name) and n.func.attr in _MUTATORS}
        changed |= {n.target.id for n in walk_no_nested(fi.node) if isinstance(n, ast.AugAssign) and isinstance(n.target, ast.Name)}
        changed |= {n.value.id for n in walk_no_nested(fi.node) if isinstance(n, ast.Subscript) and isinstance(n.ctx, (ast.Store, ast.Del)) and isinstance(n.value, ast.Name)}
        changed -= set(fi.params())
        if changed and any(isinstance(n, ast.Name) and n.id in changed for r in rets if r.value is not None for n in ast.walk(_expand(fi, r.value, tuple(changed)))):
            _und(ctx, "refresh-id-in-bucket", fi, rets[0], f"the id is assembled in a local that is modified in place ({', '.join(sorted(changed))}) inside loops / "
                 "try blocks: the returned value cannot be written as one expression over self.prefix_id")
            return
        values = [(r, (), _expand(fi, r.value)) for r in rets]

    def string_builder(x: ast.AST) -> bool:
        x = strip_cast(x)
        return isinstance(x, (ast.BinOp, ast.JoinedStr, ast.IfExp, ast.Attribute, ast.Name, ast.Constant))

    consts = {}
    if fi.cls is not None:
        for c in fi.cls.mro():
            for name, x in c.attrs.items():
                if isinstance(x, ast.Constant) and isinstance(x.value, (int, str)) and not isinstance(x.value, bool):
                    consts.setdefault(name, x)

    class _K(ast.NodeTransformer):
        def visit_Attribute(self, n):
            self.generic_visit(n)
            if isinstance(n.value, ast.Name) and n.value.id in ("self", "cls", fi.cls.name if fi.cls else "") and n.attr in consts and isinstance(n.ctx, ast.Load):
                return ast.copy_location(ast.Constant(value=consts[n.attr].value), n)
            return n
    def dewalrus(x: ast.AST) -> ast.AST:
        """`(w := E)` ... `w`: inside one expression the name stands for E (single binding per name; the binding is
        evaluated first: test of a conditional expression / left operand)"""
        binds: dict[str, ast.AST] = {}
        for n in ast.walk(x):
            if isinstance(n, ast.NamedExpr) and isinstance(n.target, ast.Name):
                if n.target.id in binds and ast.dump(binds[n.target.id]) != ast.dump(n.value):
                    return x
                binds[n.target.id] = n.value
        if not binds:
            return x

        class W(ast.NodeTransformer):
            def visit_NamedExpr(self, n):
                return self.visit(n.value)

            def visit_Name(self, n):
                return self.visit(_copy(binds[n.id])) if isinstance(n.ctx, ast.Load) and n.id in binds else n
        return W().visit(_copy(x))
    # constants of the program (class attributes, module-level names, widths derived from them) stand for their values
    values = [(r, tuple((_fold_consts(ctx, fi, _K().visit(dewalrus(_copy(t)))), pol) for t, pol in conds),
               _concat_joins(_fold_consts(ctx, fi, _K().visit(dewalrus(_copy(full)))))) for r, conds, full in values]

    for r in rets:
        alts = [a for rr, conds, full in values if rr is r for a in _alternatives(full, conds)]
        uses_ok = bool(alts)
        lead: bool | None = True if alts else None
        width: bool | None = True if alts else None
        render: bool | None = True if alts else None
        for conds, full in alts:
            # occurrences of self.prefix_id that are not under len(...)
            under_len = {id(a) for n in ast.walk(full) if isinstance(n, ast.Call) and chain(n.func) == "len" for a in n.args}
            data_uses = [n for n in ast.walk(full) if isinstance(n, ast.Attribute) and chain(n) == "self.prefix_id" and id(n) not in under_len]
            uses_ok = uses_ok and (bool(data_uses) or _prefix_empty(conds))
            # prefix must be the leading part of the binary string handed to int(.., 2) - or the leading bits of the integer
            ints = [n for n in ast.walk(full) if isinstance(n, ast.Call) and chain(n.func) == "int" and len(n.args) == 2 and const_value(n.args[1]) == 2]
            packed = _bytewise_pack(full)
            if any(_leads_with_prefix(n.args[0]) for n in ints) or _shifted_prefix(full, conds) or (packed is not None and _leads_with_prefix(packed)):
                pass
            elif _prefix_empty(conds):
                pass                                                      # on this path the prefix has no characters: every id starts with it
            elif any(string_builder(n.args[0]) and "self.prefix_id" in norm(n.args[0]) for n in ints) or \
                    any(isinstance(n, ast.BinOp) and isinstance(n.op, (ast.LShift, ast.BitOr)) for n in ast.walk(full)) and not ints:
                lead = False                                              # the prefix is in the bit string / integer, but not as its leading part
            else:
                lead = None if lead is not False else False
            # random part is exactly 160 - len(prefix) bits; it may be missing only when that width is 0
            rnd = [n for n in ast.walk(full) if isinstance(n, ast.Call) and (chain(n.func) or "").startswith(("random.", "secrets."))]
            if any(call_name(c) not in ("getrandbits", "randrange", "randint") for c in rnd):
                width = None if width is not False else False             # another random source: its width cannot be read off the call
            elif not ((bool(rnd) and all(_random_width_ok(c) for c in rnd)) or (not rnd and _no_suffix_needed(conds))):
                width = False
            if not _twenty_bytes(full) and packed is None and _renders_20_bytes(ctx, full) is True:
                pass                                                      # evaluated for sample integers: exactly their 20 big-endian bytes
            elif not _twenty_bytes(full) and packed is None:
                wrong = _renders_20_bytes(ctx, full) is False or any(isinstance(n, ast.Call) and chain(n.func) == "format" and len(n.args) == 2 and isinstance(const_value(n.args[1]), str)
                            and const_value(n.args[1])[-1:] in ("X", "x") for n in ast.walk(full)) or \
                    any(isinstance(n, ast.Call) and isinstance(n.func, ast.Attribute) and n.func.attr == "to_bytes" for n in ast.walk(full))
                render = False if wrong else (None if render is not False else False)
        ctx.check(uses_ok, "refresh-id-in-bucket", fi, r, "the bucket's prefix characters flow into the generated id",
                  "generate_id depends on the prefix only through len(self.prefix_id): the refresh id does not lie inside the bucket (it starts with zero bits)")
        if uses_ok:
            _verdict(ctx, lead, "refresh-id-in-bucket", fi, r, "prefix is the leading part of the binary id", "the prefix is not the leading bits of the generated id",
                     unknown="how the prefix characters are turned into the leading bits of the id (int(prefix + suffix, 2) / shift) is not recognised")
            _verdict(ctx, width, "refresh-id-in-bucket", fi, r, "random part is 160 - len(prefix) bits wide (absent only when that is 0)",
                     "the random part of the refresh id does not have 160-len(prefix) bits",
                     unknown="generate_id draws its random part with a call whose width cannot be read off (not getrandbits / randrange / randint)")
            _verdict(ctx, render, "refresh-id-in-bucket", fi, r, "id rendered as 20 bytes", "the generated id is not 20 bytes",
                     unknown="how the integer is rendered as 20 bytes (format '040X' + unhexlify / to_bytes(20, 'big')) is not recognised")


def rule_own_id_fixed(ctx: Ctx) -> None:
    """`bucket.owns(self.my_node_id)` keeps splits on the path of ONE identifier only if that identifier never changes
    while the table lives: the tree was split along the old identifier's path, a new identifier opens a second chain of
    splits.  So my_node_id is written in RoutingTable.__init__ (or a helper only it calls) and nowhere else."""
    repo = ctx.repo
    init = repo.method("RoutingTable", "__init__", RT)
    cl = _Closure(ctx, init)
    allowed = set(cl.visited)

    def inside(fi) -> bool:
        return fi is not None and (id(fi.node) in allowed or any(id(a) in allowed for a in ancestors(fi.node)))
    seen = 0
    # my_node_id as a read-only view: `@property def my_node_id(self): return self.<holder>.<field>` - the identifier is what
    # that expression reads, so the attributes on that path are the ones that must not be rewritten: <holder> on the table
    # (only while it is constructed), <field> only in the constructor of the holder class (or while the table is constructed)
    rtc = repo.cls("RoutingTable", RT)
    cands = [f for c in rtc.mro() for f in c.module.all_functions if f.cls is c and f.name == "my_node_id"]
    getter = next((f for f in cands if any(d.split(".")[-1] in ("property", "cached_property") for d in f.decorator_names())), cands[0] if cands else None)
    watched: list[tuple[str, set[int]]] = [("my_node_id", set())]
    if getter is not None:
        path = None
        if any(d.split(".")[-1] in ("property", "cached_property") for d in getter.decorator_names()) and len(getter.params()) == 1:
            alts = _return_alternatives(getter, ctx)
            if len(alts) == 1:
                c = chain(strip_cast(alts[0])) or ""
                parts = c.split(".")
                if parts[0] == getter.params()[0] and 2 <= len(parts) <= 3 and all(x.isidentifier() for x in parts):
                    path = parts[1:]
        if path is None:
            _und(ctx, "split-own-path", getter, getter.node, "RoutingTable.my_node_id is a method / property whose value is not a plain attribute path "
                 "self.<holder>.<field>: what the own identifier reads is not decided")
            return
        watched = [(path[0], set())]
        if len(path) == 2:
            holder_inits: set[int] = set()
            for fr, n in cl.nodes:
                for t, v in _assign_targets(n):
                    if isinstance(t, ast.Attribute) and t.attr == path[0] and fr.ntr(t.value, expand=False) == "self" and v is not None:
                        hc = repo.resolve_class_expr(fr.fi.module, strip_cast(v).func) if isinstance(strip_cast(v), ast.Call) else None
                        hi = hc.lookup("__init__") if hc is not None else None
                        if hi is not None:
                            holder_inits |= _Closure(ctx, hi).visited
            watched.append((path[1], holder_inits))
        setters = [f for f in cands if f is not getter]
        for f in setters:
            ctx.check(False, "split-own-path", f, f.node, "my_node_id has a setter / deleter", "RoutingTable.my_node_id can be rewritten after the table was built "
                      "(the property has a setter): splits no longer follow the path of one own identifier")
    for attr, extra_ok in watched:
      for m, fi, a in repo.attribute_uses(attr):
        if not isinstance(a.ctx, (ast.Store, ast.Del)):
            continue
        seen += 1
        ok = inside(fi) and isinstance(a.value, ast.Name) and a.value.id == "self" and fi is not None and fi.cls is not None and fi.cls.name == "RoutingTable"
        if ok and fi.node is not init.node:
            ok = all(inside(g) for _m, g, _c in repo.callers_of_name(fi.name))
        if not ok and fi is not None and extra_ok and (id(fi.node) in extra_ok or any(id(x) in extra_ok for x in ancestors(fi.node))) \
                and isinstance(a.value, ast.Name) and a.value.id == "self":
            ok = True                                                     # the holder's own constructor fills the field
        ctx.check(ok, "split-own-path", fi if fi is not None else m.relpath, enclosing_stmt(a), f"my_node_id written in {fi.qualname if fi is not None else m.relpath}",
                  "the identifier whose path decides which buckets may be split (RoutingTable.my_node_id, tested by bucket.owns(self.my_node_id) in "
                  "RoutingTable.add) is rewritten after the table was built: buckets split along the old identifier's path stay split, the new "
                  "identifier allows a second chain of splits - buckets that are not on the path of one own identifier get split")
    for m, fi, c in repo.callers_of_name("setattr"):
        if len(c.args) == 3 and const_value(c.args[1]) == "my_node_id" and not inside(fi):
            ctx.check(False, "split-own-path", fi if fi is not None else m.relpath, c, "my_node_id written through setattr",
                      "RoutingTable.my_node_id is rewritten after the table was built: splits no longer follow the path of one own identifier")
    if not seen:
        ctx.note("no assignment to an attribute my_node_id anywhere: the own identifier cannot change after construction (field / constructor argument)")


def rule_lookup_atomic(ctx: Ctx) -> None:
    """RoutingTable.add looks a bucket up in the trie, lets it add / split, and writes the halves back under the looked-up
    bucket's prefix.  That is a read-modify-write of the tree: it keeps the tree a partition only if nobody restructures
    the tree between the lookup and the write-back (add is called from the strategy thread and from the asyncio thread).
    So every use of self.trie in add's call tree - the lookup in get_bucket included - lies inside ONE `with self.lock:`
    region (the lock is re-entrant: the recursive retry nests inside the same region)."""
    add = ctx.repo.method("RoutingTable", "add", RT)
    cl = _Closure(ctx, add, maxdepth=4)

    def region(fr: _Frame, n: ast.AST):
        """the outermost `with self.lock:` statement around n, up the call tree"""
        found = None
        site = n
        while fr is not None:
            for a in ancestors(site):
                if a is fr.fi.node:
                    break
                if isinstance(a, ast.With) and any(fr.ntr(it.context_expr) == "self.lock" for it in a.items):
                    found = a
            site, fr = fr.site, fr.parent
        return found
    uses = [(fr, n) for fr, n in cl.nodes if isinstance(n, ast.Attribute) and n.attr == "trie" and fr.ntr(n, expand=False) == "self.trie"]
    withs = [n for fr, n in cl.nodes if isinstance(n, ast.With) and any(fr.ntr(it.context_expr) == "self.lock" for it in n.items)]
    if not uses:
        _und(ctx, "lookup-under-lock", add, add.node, "no use of self.trie is recognisable in RoutingTable.add or the helpers it calls")
        return
    if not withs:
        manual = any(isinstance(n, ast.Call) and isinstance(n.func, ast.Attribute) and n.func.attr in ("acquire", "__enter__") for _fr, n in cl.nodes)
        _verdict(ctx, None if manual else False, "lookup-under-lock", add, add.node, "RoutingTable.add works on the tree under self.lock",
                 "RoutingTable.add reads and restructures the bucket tree without holding the table lock: a concurrent add can split the bucket in between "
                 "and the stale halves are written back over the newer subtree (buckets no longer prefix-free)",
                 unknown="the table lock is taken with acquire() / release() instead of a with statement: which statements it covers is not decided")
        return
    regions = {}
    for fr, n in uses:
        r = region(fr, n)
        regions.setdefault(id(r) if r is not None else None, []).append((fr, n))
    outside = regions.get(None, [])
    for fr, n in outside[:1]:
        st = cl.lifted(fr, n, cl.root)
        ctx.check(False, "lookup-under-lock", add, enclosing_stmt(st) if not isinstance(st, ast.stmt) else st, "every use of self.trie in add's call tree is under self.lock",
                  f"RoutingTable.add uses the bucket tree (`{norm(enclosing_stmt(n))[:80]}` in {fr.fi.qualname}) outside the `with self.lock:` region in which it adds / splits "
                  "and writes the halves back: lookup and write-back are not atomic, a concurrent add can split the looked-up bucket in between - add then "
                  "splits the orphaned bucket again and stores its stale halves over the newer subtree (buckets no longer prefix-free and complete)")
    if not outside:
        ctx.check(len(regions) == 1, "lookup-under-lock", add, add.node, "lookup, split and write-back of RoutingTable.add lie in one `with self.lock:` region",
                  "RoutingTable.add releases the table lock between looking a bucket up and writing its halves back (several separate `with self.lock:` "
                  "regions): a concurrent add can restructure the tree in between")


def rule_refresh_caller(ctx: Ctx) -> None:
    """An id generated to refresh a bucket lies inside THAT bucket only if generate_id() is called on the bucket (group)
    the caller is refreshing: the receiver must be current where the call runs.  A loop variable of a loop that does not
    contain the call still names whatever bucket that other loop visited last - an unrelated bucket."""
    repo = ctx.repo

    def leaks(fi: FuncInfo, e: ast.AST, site: ast.AST, depth: int, seen: frozenset) -> list[str]:
        """names in e whose value at `site` can be the left-over target of a `for` loop that does not contain the site"""
        out: list[str] = []
        if depth <= 0:
            return out
        for n in ast.walk(e):
            if isinstance(n, (ast.Lambda, *_COMPS, ast.DictComp)):
                continue
            if not (isinstance(n, ast.Name) and isinstance(n.ctx, ast.Load)) or (n.id, id(site)) in seen:
                continue
            bound_by_comp = any(isinstance(a, (*_COMPS, ast.DictComp)) and any(n.id in _target_names(g.target) for g in a.generators) for a in ancestors(n)) \
                if parent(n) is not None else False
            if bound_by_comp:
                continue
            if n.id in fi.params():
                if depth > 1 and fi.name.startswith("_") and not fi.name.startswith("__"):
                    for _m, g, c in repo.callers_of_name(fi.name):
                        if g is None or g.node is fi.node:
                            continue
                        tgt, bs = _callee(ctx, g, c)
                        env = _bind_args(fi.node, c, bs) if tgt is fi else None
                        if env is not None and n.id in env and parent(env[n.id]) is not None:
                            out.extend(leaks(g, env[n.id], c, depth - 1, seen | {(n.id, id(site))}))
                continue
            for st, v, _idx in _reaching(ctx, fi, n.id, site):
                if isinstance(st, (ast.For, ast.AsyncFor)):
                    holds = any(a is st for a in ancestors(site)) and not any(x is site for x in ast.walk(st.iter)) and not any(x is site for s2 in st.orelse for x in ast.walk(s2))
                    if not holds:
                        # a finished loop of the SAME round of the loop around the call (it ran earlier in this round, over something
                        # that is itself current): its last element still belongs to what this round works on
                        around = next((a for a in ancestors(site) if isinstance(a, (ast.For, ast.AsyncFor, ast.While))), None)
                        if around is not None and any(a is around for a in ancestors(st)) and not any(x is st for s2 in around.orelse for x in ast.walk(s2)):
                            cfg = ctx.cfg(fi)
                            heads, sn = cfg.nodes_for(around), cfg.nodes_for(site)
                            same_round = cfg.reach([x for d in cfg.nodes_for(st) for x, lab in d.succ if lab != "exc"], cut_nodes=heads)
                            if heads and sn and all(x in same_round for x in sn):
                                out.extend(leaks(fi, st.iter, st, depth - 1, seen | {(n.id, id(site))}))
                                continue
                        out.append(f"`{n.id}` (target of the loop at line {st.lineno})")
                elif v is not None and isinstance(st, (ast.Assign, ast.AnnAssign)) and parent(v) is not None:
                    out.extend(leaks(fi, v, st, depth - 1, seen | {(n.id, id(site))}))
        return out

    found = 0
    for m, fi, c in repo.callers_of_name("generate_id"):
        if fi is None or not isinstance(c.func, ast.Attribute) or c.args or c.keywords or m.relpath.startswith("ipv8/test"):
            continue
        found += 1
        bad = leaks(fi, c.func.value, c, 4, frozenset())
        ctx.check(not bad, "refresh-id-in-bucket", fi, c, f"{fi.qualname}: the bucket that generates the refresh id is current at the call",
                  f"{fi.qualname} calls generate_id() on {', '.join(dict.fromkeys(bad))}: a loop variable left over from a loop that does not contain the call. "
                  "It names the bucket that loop visited last, not the bucket (group) being refreshed and stamped here, so the generated id lies in "
                  "another bucket than the one that is refreshed")
    if not found:
        ctx.note("no caller of Bucket.generate_id() outside the tests: nothing refreshes buckets")


def rule_trie(ctx: Ctx) -> None:
    """RoutingTable.add replaces a split bucket by `del self.trie[prefix]`; the buckets stay prefix-free only if that
    deletion really takes the value out of the trie: Trie.__delitem__ either raises or has cleared the found node's
    value when it returns - no path returns silently without doing so."""
    di = ctx.repo.method("Trie", "__delitem__", TRIE)
    cl = _Closure(ctx, di)
    clears = []
    for fr, n in cl.nodes:
        for t, v in _assign_targets(n):
            if isinstance(t, ast.Attribute) and t.attr == "value" and v is not None and isinstance(strip_cast(v), ast.Constant) and strip_cast(v).value is None:
                clears.append((fr, n))
        if isinstance(n, ast.Delete) and any(isinstance(t, ast.Attribute) and t.attr == "value" for t in n.targets):
            clears.append((fr, n))
        if isinstance(n, ast.Call) and chain(n.func) == "setattr" and len(n.args) == 3 and const_value(n.args[1]) == "value" and const_value(n.args[2]) is None:
            clears.append((fr, n))
    ctx.anchor(clears, "<node>.value = None in Trie.__delitem__")
    cfg = ctx.cfg(di)
    through = [x for fr, n in clears for x in cfg.nodes_for(cl.lifted(fr, n, cl.root))]
    silent = cfg.exit in cfg.reach(cut_out_normal=through)
    ctx.check(not silent, "trie-delete", di, di.node, "Trie.__delitem__ returns only after clearing the stored value (or raises)",
              "Trie.__delitem__ can return without removing the value: `del trie[key]` is silently a no-op on some path, so the bucket that "
              "RoutingTable.add replaces by its two halves stays in the tree next to them (buckets no longer prefix-free, closest_nodes sees stale nodes)")


# =================================================================================== private normalised view of the DHT modules
# The engine normalises every module at load time (renamed locals, new helpers, pure aliases, match statements, threaded
# decisions).  What it leaves in place are spellings that need knowledge of the standard library or of small classes of
# the module itself.  The passes below rewrite those - on a PRIVATE copy of the two DHT modules' syntax trees, never on
# the trees other checks share - into the plain syntax the rules reason about.  Every rewrite keeps what the code
# computes (argument expressions of operator / getter calls are pure reads in every accepted case):
#   operator.lt(a, b) -> a < b (all comparison / arithmetic / item functions), operator.setitem / delitem statements
#   methodcaller / attrgetter / itemgetter / partial objects applied to arguments (directly or through a module-level /
#       single-assignment local alias) -> the method call / attribute / subscript / call they perform; not applied: a lambda
#   with contextlib.suppress(E): B -> try: B except E: pass
#   an instance of a small callable class (only __init__ storing fields and __call__ returning one expression) that is
#       only called / handed to filter, sorted ... -> field locals + a lambda with the body of __call__
#   a local that only ever holds freshly constructed records (NamedTuple / dataclass / class with a field-storing
#       __init__ and no other method) and is only read through its fields -> one local per field
#   members of an Enum class of the module -> distinct string constants, `is` / `is not` on them -> == / !=
_PRIVATE_MARK = "\n# c14: private normalised view\n"
_HOF = {"filter", "map", "sorted", "min", "max", "next", "any", "all", "sum", "list", "tuple", "set", "itertools.takewhile", "itertools.dropwhile",
        "itertools.filterfalse", "itertools.groupby", "itertools.starmap", "heapq.nsmallest", "heapq.nlargest", "functools.reduce"}
_OP_CMP = {"lt": ast.Lt, "le": ast.LtE, "gt": ast.Gt, "ge": ast.GtE, "eq": ast.Eq, "ne": ast.NotEq, "is_": ast.Is, "is_not": ast.IsNot}
_OP_BIN = {"add": ast.Add, "sub": ast.Sub, "mul": ast.Mult, "xor": ast.BitXor, "or_": ast.BitOr, "and_": ast.BitAnd, "lshift": ast.LShift, "rshift": ast.RShift,
           "floordiv": ast.FloorDiv, "mod": ast.Mod, "truediv": ast.Div, "pow": ast.Pow, "concat": ast.Add}
_OP_UN = {"not_": ast.Not, "neg": ast.USub, "inv": ast.Invert, "invert": ast.Invert, "pos": ast.UAdd}
_ENUM_BASES = {"enum.Enum", "enum.IntEnum", "enum.StrEnum", "enum.Flag", "enum.IntFlag"}


def _qual(m, e: ast.AST) -> str | None:
    """qualified name of a Name / dotted Attribute through the module's imports: `op.lt` -> 'operator.lt'"""
    c = chain(e) if isinstance(e, (ast.Name, ast.Attribute)) else None
    if c is None or "(" in c or "[" in c:
        return None
    head, _, rest = c.partition(".")
    imp = m.imports.get(head)
    if imp is None:
        return c
    mod, attr = imp
    base = mod if attr is None else f"{mod}.{attr}"
    return base + ("." + rest if rest else "")


def _simple_read(e: ast.AST) -> bool:
    """an expression that only reads names / attributes / items / constants (no call, no binding)"""
    return all(isinstance(n, (ast.Name, ast.Attribute, ast.Constant, ast.Subscript, ast.Compare, ast.BoolOp, ast.UnaryOp, ast.BinOp, ast.IfExp, ast.Tuple,
                              ast.expr_context, ast.cmpop, ast.boolop, ast.unaryop, ast.operator, ast.Slice)) for n in ast.walk(e))


def _class_layout(m, cnode: ast.ClassDef):
    """(constructor `arguments`, binds_self, {field: expression over the constructor's parameters}, __call__ | None) of a
    record-like class: a NamedTuple / dataclass without own __init__, or a class without bases whose only methods are an
    __init__ made of `self.f = <expression over the parameters>` statements and (optionally) __call__.  None otherwise."""
    bases = [_qual(m, b) for b in cnode.bases]
    decos = [_qual(m, d.func if isinstance(d, ast.Call) else d) for d in cnode.decorator_list]
    is_nt = any(b in ("typing.NamedTuple", "NamedTuple") for b in bases)
    is_dc = any(d in ("dataclasses.dataclass", "dataclass") for d in decos)
    methods = [s for s in cnode.body if isinstance(s, _FUNCS)]
    if any(s.name not in ("__init__", "__call__") for s in methods) or any(isinstance(s, ast.ClassDef) for s in cnode.body):
        return None
    init = next((s for s in methods if s.name == "__init__"), None)
    call = next((s for s in methods if s.name == "__call__"), None)
    if call is not None:
        body = [s for s in call.body if not (isinstance(s, ast.Expr) and isinstance(s.value, ast.Constant))]
        a = call.args
        if call.decorator_list or a.vararg or a.kwarg or a.posonlyargs or a.kwonlyargs or not a.args or len(body) != 1 or not isinstance(body[0], ast.Return) \
                or body[0].value is None or isinstance(call, ast.AsyncFunctionDef) or _is_generator(call):
            return None
    if (is_nt or is_dc) and init is None:
        if (is_nt and len(bases) != 1) or (is_dc and (bases or len(decos) != 1)):
            return None
        names, defaults, fields = [], [], {}
        for s in cnode.body:
            if isinstance(s, ast.AnnAssign) and isinstance(s.target, ast.Name):
                if "ClassVar" in norm(s.annotation) or (isinstance(s.value, ast.Call) and (chain(s.value.func) or "").endswith("field")):
                    return None
                if s.value is None and defaults:
                    return None
                names.append(ast.arg(arg=s.target.id))
                if s.value is not None:
                    defaults.append(s.value)
                fields[s.target.id] = ast.Name(id=s.target.id, ctx=ast.Load())
            elif isinstance(s, ast.Assign):
                return None
        if not fields:
            return None
        args = ast.arguments(posonlyargs=[], args=names, vararg=None, kwonlyargs=[], kw_defaults=[], kwarg=None, defaults=defaults)
        return args, False, fields, call
    if is_nt or is_dc or cnode.bases or cnode.decorator_list or cnode.keywords or init is None:
        return None
    a = init.args
    if init.decorator_list or a.vararg or a.kwarg or not (a.posonlyargs + a.args):
        return None
    me = (a.posonlyargs + a.args)[0].arg
    params = {x.arg for x in a.posonlyargs + a.args + a.kwonlyargs} - {me}
    fields = {}
    for s in init.body:
        if isinstance(s, ast.Expr) and isinstance(s.value, ast.Constant):
            continue
        pairs = _assign_targets(s) if isinstance(s, (ast.Assign, ast.AnnAssign)) else []
        if len(pairs) != 1:
            return None
        t, v = pairs[0]
        if not (isinstance(t, ast.Attribute) and isinstance(t.value, ast.Name) and t.value.id == me and v is not None and t.attr not in fields):
            return None
        if any(isinstance(n, ast.Name) and n.id == me for n in ast.walk(v)) or any(isinstance(n, (ast.NamedExpr, ast.Yield, ast.YieldFrom, ast.Await, ast.Lambda)) for n in ast.walk(v)):
            return None
        fields[t.attr] = v
    if not fields:
        return None
    # a parameter that is used more than once (or not at all) must be bound to something that can be read repeatedly
    return a, True, fields, call


def _bind_record(layout, ctor: ast.Call) -> dict[str, ast.AST] | None:
    """field -> value expression in the vocabulary of the constructor call's site"""
    args, binds_self, fields, _call = layout
    fake = ast.FunctionDef(name="__init__", args=args, body=[], decorator_list=[])
    pos = [x.arg for x in args.posonlyargs + args.args][1 if binds_self else 0:]
    if len(ctor.args) == 1 and isinstance(ctor.args[0], ast.Starred) and isinstance(ctor.args[0].value, ast.Name) and not ctor.keywords and len(pos) >= 1 \
            and len(args.defaults) == 0 and not args.kwonlyargs:
        # Rec(*seq): seq has exactly one element per field (anything else raises), field i is seq[i]
        seq = ctor.args[0].value
        ctor = ast.copy_location(ast.Call(func=ctor.func, keywords=[], args=[
            ast.copy_location(ast.Subscript(value=_copy(seq), slice=ast.Constant(value=i), ctx=ast.Load()), seq) for i in range(len(pos))]), ctor)
        ast.fix_missing_locations(ctor)
    env = _bind_args(fake, ctor, binds_self)
    if env is None:
        return None
    if binds_self:
        env.pop((args.posonlyargs + args.args)[0].arg, None)
    uses: dict[str, int] = {}
    for v in fields.values():
        for n in ast.walk(v):
            if isinstance(n, ast.Name) and n.id in env:
                uses[n.id] = uses.get(n.id, 0) + 1
    for p, x in env.items():
        if uses.get(p, 0) != 1 and not isinstance(x, (ast.Name, ast.Constant)) and not (isinstance(x, (ast.Attribute, ast.Subscript)) and _simple_read(x)):
            return None
    return {f: _subst(v, env) for f, v in fields.items()}


def _call_lambda(layout, fieldmap: dict[str, ast.AST], at: ast.AST) -> ast.Lambda | None:
    """lambda <parameters of __call__>: <its returned expression with self.<field> replaced>"""
    call = layout[3]
    me = call.args.args[0].arg
    params = [x.arg for x in call.args.args[1:]]
    free = {n.id for v in fieldmap.values() for n in ast.walk(v) if isinstance(n, ast.Name)}
    ren = {p: (p + "_" if p in free else p) for p in params}
    body = [s for s in call.body if not (isinstance(s, ast.Expr) and isinstance(s.value, ast.Constant))][0].value
    bad = [False]

    class T(ast.NodeTransformer):
        def visit_Attribute(self, n):
            if isinstance(n.value, ast.Name) and n.value.id == me:
                if n.attr in fieldmap and isinstance(n.ctx, ast.Load):
                    return _copy(fieldmap[n.attr])
                bad[0] = True
                return n
            self.generic_visit(n)
            return n

        def visit_Name(self, n):
            if n.id == me:
                bad[0] = True
            return ast.copy_location(ast.Name(id=ren[n.id], ctx=n.ctx), n) if n.id in ren else n

        def visit_Lambda(self, n):
            bad[0] = True
            return n
    new_body = T().visit(_copy(body))
    if bad[0]:
        return None
    a = ast.arguments(posonlyargs=[], args=[ast.arg(arg=ren[p]) for p in params], vararg=None, kwonlyargs=[], kw_defaults=[], kwarg=None,
                      defaults=[_copy(d) for d in call.args.defaults])
    lam = ast.Lambda(args=a, body=new_body)
    for n in ast.walk(lam):
        ast.copy_location(n, at)
    return lam


def _blocks(fn):
    """every statement list below fn (not those of nested functions / classes)"""
    todo = [fn]
    while todo:
        n = todo.pop()
        for f in ("body", "orelse", "finalbody"):
            b = getattr(n, f, None)
            if isinstance(b, list) and b and isinstance(b[0], ast.stmt):
                yield b
                todo.extend(s for s in b if not isinstance(s, (*_FUNCS, ast.ClassDef)))
        for h in getattr(n, "handlers", []) or []:
            yield h.body
            todo.extend(s for s in h.body if not isinstance(s, (*_FUNCS, ast.ClassDef)))
        for c in getattr(n, "cases", []) or []:
            yield c.body
            todo.extend(s for s in c.body if not isinstance(s, (*_FUNCS, ast.ClassDef)))


def _prep_operator(m) -> int:
    """operator / functools / contextlib spellings -> plain syntax (in place); returns the number of rewrites"""
    count = [0]
    module_alias = {k: v for k, v in m.constants.items() if isinstance(v, ast.Call) and _qual(m, v.func) in
                    ("operator.methodcaller", "operator.attrgetter", "operator.itemgetter", "functools.partial")}

    def getter_apply(factory: ast.Call, args: list, keywords: list, at: ast.AST):
        """factory(...)(*args): what the call performs, None if not expressible"""
        q = _qual(m, factory.func)
        if any(isinstance(x, ast.Starred) for x in [*factory.args, *args]) or any(k.arg is None for k in [*factory.keywords, *keywords]):
            return None
        if q == "functools.partial" and factory.args:
            return ast.copy_location(ast.Call(func=_copy(factory.args[0]), args=[*map(_copy, factory.args[1:]), *args],
                                              keywords=[*map(_copy, factory.keywords), *keywords]), at)
        if len(args) != 1 or keywords:
            return None
        obj = args[0]
        if q == "operator.methodcaller" and factory.args and isinstance(const_value(factory.args[0]), str) and const_value(factory.args[0]).isidentifier():
            return ast.copy_location(ast.Call(func=ast.Attribute(value=obj, attr=const_value(factory.args[0]), ctx=ast.Load()),
                                              args=[_copy(x) for x in factory.args[1:]], keywords=[_copy(k) for k in factory.keywords]), at)
        if q == "operator.attrgetter" and factory.args and not factory.keywords and all(isinstance(const_value(x), str) for x in factory.args):
            def one(path: str, o: ast.AST):
                for part in path.split("."):
                    o = ast.Attribute(value=o, attr=part, ctx=ast.Load())
                return o
            if not all(p.isidentifier() for x in factory.args for p in const_value(x).split(".")):
                return None
            if len(factory.args) > 1 and not isinstance(obj, ast.Name):
                return None
            parts = [one(const_value(x), _copy(obj)) for x in factory.args]
            return ast.copy_location(parts[0] if len(parts) == 1 else ast.Tuple(elts=parts, ctx=ast.Load()), at)
        if q == "operator.itemgetter" and factory.args and not factory.keywords:
            if len(factory.args) > 1 and not isinstance(obj, ast.Name):
                return None
            parts = [ast.Subscript(value=_copy(obj), slice=_copy(x), ctx=ast.Load()) for x in factory.args]
            return ast.copy_location(parts[0] if len(parts) == 1 else ast.Tuple(elts=parts, ctx=ast.Load()), at)
        return None

    def is_factory(e: ast.AST) -> bool:
        return isinstance(e, ast.Call) and _qual(m, e.func) in ("operator.methodcaller", "operator.attrgetter", "operator.itemgetter")

    class T(ast.NodeTransformer):
        def __init__(self):
            self.local_alias: list[dict[str, ast.Call]] = [{}]
            self.bound: list[set[str]] = [set()]

        def _function(self, n):
            bound = _bound_locals(n) | {x.arg for x in n.args.posonlyargs + n.args.args + n.args.kwonlyargs}
            once: dict[str, ast.Call] = {}
            for s in walk_no_nested(n):
                if isinstance(s, ast.Assign) and len(s.targets) == 1 and isinstance(s.targets[0], ast.Name) and isinstance(s.value, ast.Call) \
                        and _qual(m, s.value.func) in ("operator.methodcaller", "operator.attrgetter", "operator.itemgetter", "functools.partial"):
                    name = s.targets[0].id
                    stores_ = [x for x in walk_no_nested(n) if isinstance(x, ast.Name) and x.id == name and isinstance(x.ctx, (ast.Store, ast.Del))]
                    if len(stores_) == 1 and all(_simple_read(x) for x in [*s.value.args, *[k.value for k in s.value.keywords]]):
                        once[name] = s.value
            self.local_alias.append(once)
            self.bound.append(bound)
            self.generic_visit(n)
            self.local_alias.pop()
            self.bound.pop()
            return n

        visit_FunctionDef = _function
        visit_AsyncFunctionDef = _function

        def visit_Call(self, n):
            self.generic_visit(n)
            f = n.func
            factory = None
            if isinstance(f, ast.Call):
                factory = f
            elif isinstance(f, ast.Name):
                if f.id in self.local_alias[-1]:
                    factory = self.local_alias[-1][f.id]
                elif f.id in module_alias and not any(f.id in b for b in self.bound):
                    factory = module_alias[f.id]
            if factory is not None:
                new = getter_apply(factory, n.args, n.keywords, n)
                if new is not None:
                    count[0] += 1
                    return self.visit(new) if isinstance(new, ast.Call) and new.func is not f else new
                return n
            q = _qual(m, f) or ""
            if q.startswith("operator.") and not n.keywords and not any(isinstance(x, ast.Starred) for x in n.args):
                name = q[len("operator."):]
                if name.startswith("__") and name.endswith("__"):
                    name = name[2:-2]
                    name = name + "_" if name in ("not", "is", "or", "and") else name
                a = n.args
                new = None
                if name in _OP_CMP and len(a) == 2:
                    new = ast.Compare(left=a[0], ops=[_OP_CMP[name]()], comparators=[a[1]])
                elif name == "contains" and len(a) == 2:
                    new = ast.Compare(left=a[1], ops=[ast.In()], comparators=[a[0]])
                elif name in _OP_BIN and len(a) == 2:
                    new = ast.BinOp(left=a[0], op=_OP_BIN[name](), right=a[1])
                elif name in _OP_UN and len(a) == 1:
                    new = ast.UnaryOp(op=_OP_UN[name](), operand=a[0])
                elif name == "truth" and len(a) == 1:
                    new = ast.Call(func=ast.Name(id="bool", ctx=ast.Load()), args=[a[0]], keywords=[])
                elif name == "getitem" and len(a) == 2:
                    new = ast.Subscript(value=a[0], slice=a[1], ctx=ast.Load())
                if new is not None:
                    count[0] += 1
                    return ast.copy_location(new, n)
            return n

        def visit_Expr(self, n):
            self.generic_visit(n)
            c = n.value
            if isinstance(c, ast.Call) and not c.keywords and not any(isinstance(x, ast.Starred) for x in c.args):
                q = _qual(m, c.func)
                if q in ("operator.setitem", "operator.__setitem__") and len(c.args) == 3:
                    count[0] += 1
                    return ast.copy_location(ast.Assign(targets=[ast.Subscript(value=c.args[0], slice=c.args[1], ctx=ast.Store())], value=c.args[2]), n)
                if q in ("operator.delitem", "operator.__delitem__") and len(c.args) == 2:
                    count[0] += 1
                    return ast.copy_location(ast.Delete(targets=[ast.Subscript(value=c.args[0], slice=c.args[1], ctx=ast.Del())]), n)
            return n

        def visit_With(self, n):
            self.generic_visit(n)
            if n.items and all(isinstance(i.context_expr, ast.Call) and _qual(m, i.context_expr.func) == "contextlib.suppress" and i.optional_vars is None
                               and i.context_expr.args and not i.context_expr.keywords and not any(isinstance(x, ast.Starred) for x in i.context_expr.args)
                               for i in n.items):
                excs = [x for i in n.items for x in i.context_expr.args]
                typ = excs[0] if len(excs) == 1 else ast.Tuple(elts=excs, ctx=ast.Load())
                h = ast.ExceptHandler(type=typ, name=None, body=[ast.copy_location(ast.Pass(), n)])
                count[0] += 1
                return ast.copy_location(ast.Try(body=n.body, handlers=[ast.copy_location(h, n)], orelse=[], finalbody=[]), n)
            return n

    T().visit(m.tree)

    # getter objects that are not applied on the spot: the lambda they are
    class G(ast.NodeTransformer):
        def visit_Call(self, n):
            self.generic_visit(n)
            p = parent_of.get(id(n))
            applied = isinstance(p, ast.Call) and p.func is n
            if is_factory(n) and not applied:
                new = getter_apply(n, [ast.Name(id="o_", ctx=ast.Load())], [], n)
                if new is not None and all(_simple_read(x) for x in [*n.args, *[k.value for k in n.keywords]]):
                    count[0] += 1
                    lam = ast.Lambda(args=ast.arguments(posonlyargs=[], args=[ast.arg(arg="o_")], vararg=None, kwonlyargs=[], kw_defaults=[], kwarg=None, defaults=[]), body=new)
                    return ast.copy_location(lam, n)
            return n
    parent_of = {id(c): p for p in ast.walk(m.tree) for c in ast.iter_child_nodes(p)}
    G().visit(m.tree)

    # partial(f, a) handed over as a one-argument callback (filter / map over one iterable / key=): lambda x_: f(a, x_);
    # map(F, xs) over one iterable: (F(x_) for x_ in xs)
    def one_arg_slot(call: ast.Call, x: ast.AST) -> bool:
        q = _qual(m, call.func)
        if any(k.value is x and k.arg == "key" for k in call.keywords):
            return True
        if call.args and call.args[0] is x:
            return q in ("filter", "itertools.takewhile", "itertools.dropwhile", "itertools.filterfalse") or (q == "map" and len(call.args) == 2)
        return False

    class P(ast.NodeTransformer):
        def visit_Call(self, n):
            self.generic_visit(n)
            for x in [*n.args, *[k.value for k in n.keywords]]:
                if isinstance(x, ast.Call) and _qual(m, x.func) == "functools.partial" and x.args and one_arg_slot(n, x) \
                        and all(_simple_read(y) for y in [*x.args[1:], *[k.value for k in x.keywords]]) and not any(isinstance(y, ast.Starred) for y in x.args) \
                        and all(k.arg is not None for k in x.keywords):
                    body = ast.Call(func=x.args[0], args=[*x.args[1:], ast.Name(id="x_", ctx=ast.Load())], keywords=list(x.keywords))
                    lam = ast.Lambda(args=ast.arguments(posonlyargs=[], args=[ast.arg(arg="x_")], vararg=None, kwonlyargs=[], kw_defaults=[], kwarg=None, defaults=[]), body=body)
                    for y in ast.walk(lam):
                        if not hasattr(y, "lineno") and isinstance(y, (ast.expr, ast.arg)):
                            ast.copy_location(y, x)
                    ast.copy_location(lam, x)
                    if x in n.args:
                        n.args[n.args.index(x)] = lam
                    else:
                        next(k for k in n.keywords if k.value is x).value = lam
                    count[0] += 1
            if _qual(m, n.func) == "map" and len(n.args) == 2 and not n.keywords and not any(isinstance(y, ast.Starred) for y in n.args) \
                    and isinstance(n.args[0], (ast.Name, ast.Attribute, ast.Lambda)) and (_simple_read(n.args[0]) or isinstance(n.args[0], ast.Lambda)):
                f = n.args[0]
                elt = ast.Call(func=f, args=[ast.Name(id="x_", ctx=ast.Load())], keywords=[])
                if isinstance(f, ast.Lambda) and len(f.args.args) == 1 and not (f.args.vararg or f.args.kwarg or f.args.kwonlyargs or f.args.defaults or f.args.posonlyargs):
                    elt = _subst(f.body, {f.args.args[0].arg: ast.Name(id="x_", ctx=ast.Load())})
                gen = ast.GeneratorExp(elt=elt, generators=[ast.comprehension(target=ast.Name(id="x_", ctx=ast.Store()), iter=n.args[1], ifs=[], is_async=0)])
                for y in ast.walk(gen):
                    if not hasattr(y, "lineno") and isinstance(y, (ast.expr, ast.arg)):
                        ast.copy_location(y, n)
                count[0] += 1
                return ast.copy_location(gen, n)
            return n
    P().visit(m.tree)
    return count[0]


def _prep_enums(m) -> int:
    """Cls.MEMBER of an Enum class of this module -> a string constant naming the member; is / is not -> == / !="""
    members: dict[str, dict[str, str]] = {}
    for c in ast.walk(m.tree):
        if isinstance(c, ast.ClassDef) and any(_qual(m, b) in _ENUM_BASES for b in c.bases):
            seen: dict = {}
            mem = {}
            for s in c.body:
                for t, v in (_assign_targets(s) if isinstance(s, (ast.Assign, ast.AnnAssign)) else []):
                    if isinstance(t, ast.Name) and not t.id.startswith("_") and v is not None:
                        cv = const_value(v)
                        key = ("v", repr(cv)) if cv is not NOCONST else ("n", t.id)      # equal values are aliases of one member
                        mem[t.id] = seen.setdefault(key, f"<{c.name}.{t.id}>")
            if mem:
                members[c.name] = mem
    if not members:
        return 0
    count = [0]
    made: set[int] = set()

    class T(ast.NodeTransformer):
        def __init__(self):
            self.inside: list[str] = []

        def visit_ClassDef(self, n):
            self.inside.append(n.name)
            self.generic_visit(n)
            self.inside.pop()
            return n

        def visit_Attribute(self, n):
            if isinstance(n.value, ast.Name) and n.value.id in members and n.attr in members[n.value.id] and isinstance(n.ctx, ast.Load) \
                    and n.value.id not in self.inside:
                count[0] += 1
                new = ast.copy_location(ast.Constant(value=members[n.value.id][n.attr]), n)
                made.add(id(new))
                return new
            self.generic_visit(n)
            return n

        def visit_Compare(self, n):
            self.generic_visit(n)
            sides = [n.left, *n.comparators]
            for i, op in enumerate(n.ops):
                if isinstance(op, (ast.Is, ast.IsNot)) and (id(sides[i]) in made or id(sides[i + 1]) in made):
                    n.ops[i] = ast.Eq() if isinstance(op, ast.Is) else ast.NotEq()
            return n
    T().visit(m.tree)
    return count[0]


def _prep_records(m) -> int:
    """callable-class instances -> lambdas, record locals -> one local per field (in place)"""
    layouts = {}
    for c in m.tree.body:
        if isinstance(c, ast.ClassDef):
            lay = _class_layout(m, c)
            if lay is not None:
                layouts[c.name] = lay
    if not layouts:
        return 0
    count = 0

    def ctor_of(e: ast.AST, bound: set[str]):
        return layouts.get(e.func.id) if isinstance(e, ast.Call) and isinstance(e.func, ast.Name) and e.func.id in layouts and e.func.id not in bound else None

    for fn in [n for n in ast.walk(m.tree) if isinstance(n, _FUNCS)]:
        bound = _bound_locals(fn) | {x.arg for x in fn.args.posonlyargs + fn.args.args + fn.args.kwonlyargs}
        par = {id(c): p for p in ast.walk(fn) for c in ast.iter_child_nodes(p)}
        names = sorted({n.id for n in walk_no_nested(fn) if isinstance(n, ast.Name) and isinstance(n.ctx, ast.Store)})
        for v in names:
            occ = [n for n in ast.walk(fn) if isinstance(n, ast.Name) and n.id == v]
            stores_ = [n for n in occ if not isinstance(n.ctx, ast.Load)]
            loads = [n for n in occ if isinstance(n.ctx, ast.Load)]
            defs = []
            for s in stores_:
                st = par.get(id(s))
                ok = (isinstance(st, ast.Assign) and len(st.targets) == 1 and st.targets[0] is s) or (isinstance(st, ast.AnnAssign) and st.target is s and st.value is not None)
                lay = ctor_of(st.value, bound) if ok else None
                fm = _bind_record(lay, st.value) if lay is not None else None
                if fm is None:
                    defs = None
                    break
                defs.append((st, lay, fm))
            if not defs or any(any(isinstance(a, (*_FUNCS,)) and a is not fn for a in _chain_up(par, s)) for s in occ):
                continue
            fields = set.intersection(*[set(fm) for _st, _lay, fm in defs])
            ctor_names = {st.value.func.id for st, _lay, _fm in defs}

            def type_test(n) -> bool:
                """isinstance(v, Cls) with Cls the one class every assignment of v constructs: always true"""
                c = par.get(id(n))
                return isinstance(c, ast.Call) and isinstance(c.func, ast.Name) and c.func.id == "isinstance" and len(c.args) == 2 and c.args[0] is n \
                    and not c.keywords and isinstance(c.args[1], ast.Name) and ctor_names == {c.args[1].id}
            tests = [n for n in loads if type_test(n)]
            loads = [n for n in loads if not type_test(n)]
            as_field = all(isinstance(par.get(id(n)), ast.Attribute) and par[id(n)].value is n and par[id(n)].attr in fields and isinstance(par[id(n)].ctx, ast.Load) for n in loads)

            def callable_use(n) -> bool:
                p = par.get(id(n))
                if isinstance(p, ast.keyword):
                    p = par.get(id(p))
                    return isinstance(p, ast.Call)
                if isinstance(p, ast.Call):
                    return p.func is n or (n in p.args and (_qual(m, p.func) in _HOF or (isinstance(p.func, ast.Attribute) and p.func.attr == "sort")))
                return False
            as_callable = len(defs) == 1 and defs[0][1][3] is not None and loads and all(callable_use(n) for n in loads)
            if not loads or not (as_field or as_callable) or (tests and not as_field):
                continue
            for n in tests:
                c = par[id(n)]
                gp = par.get(id(c))
                repl = ast.copy_location(ast.Constant(value=True), c)
                for fname, val in ast.iter_fields(gp):
                    if val is c:
                        setattr(gp, fname, repl)
                    elif isinstance(val, list) and c in val:
                        val[val.index(c)] = repl
            for st, lay, fm in defs:
                new = []
                order = [f for f in fm]
                for f in order:
                    a = ast.Assign(targets=[ast.Name(id=f"{v}__{f}", ctx=ast.Store())], value=fm[f])
                    new.append(a)
                if as_callable:
                    lam = _call_lambda(lay, {f: ast.Name(id=f"{v}__{f}", ctx=ast.Load()) for f in fm}, st)
                    if lam is None:
                        new = None
                    else:
                        new.append(ast.Assign(targets=[ast.Name(id=v, ctx=ast.Store())], value=lam))
                if new is None:
                    continue
                for a in new:
                    for x in ast.walk(a):
                        if not hasattr(x, "lineno"):
                            ast.copy_location(x, st)
                    ast.copy_location(a, st)
                for b in _blocks(fn):
                    if st in b:
                        i = b.index(st)
                        b[i:i + 1] = new
                        count += 1
            if as_field:
                for n in loads:
                    a = par[id(n)]
                    gp = par.get(id(a))
                    repl = ast.copy_location(ast.Name(id=f"{v}__{a.attr}", ctx=ast.Load()), a)
                    for fname, val in ast.iter_fields(gp):
                        if val is a:
                            setattr(gp, fname, repl)
                        elif isinstance(val, list) and a in val:
                            val[val.index(a)] = repl
        # Cls(a, b).field read on the spot: the value the field was given (the other arguments are plain reads)
        par = {id(c): p for p in ast.walk(fn) for c in ast.iter_child_nodes(p)}
        for a in [n for n in ast.walk(fn) if isinstance(n, ast.Attribute) and isinstance(n.ctx, ast.Load) and isinstance(n.value, ast.Call)]:
            lay = ctor_of(a.value, bound)
            fm = _bind_record(lay, a.value) if lay is not None else None
            if fm is None or a.attr not in fm or not all(_simple_read(x) for f_, x in fm.items() if f_ != a.attr):
                continue
            holder = par.get(id(a))
            repl = fm[a.attr]
            for y in ast.walk(repl):
                if isinstance(y, ast.expr) and not hasattr(y, "lineno"):
                    ast.copy_location(y, a)
            for fname, val in ast.iter_fields(holder):
                if val is a:
                    setattr(holder, fname, repl)
                elif isinstance(val, list) and a in val:
                    val[val.index(a)] = repl
            count += 1
        # constructor calls of callable classes used on the spot: Cls(a)(x), filter(Cls(a), xs), key=Cls(a)
        par = {id(c): p for p in ast.walk(fn) for c in ast.iter_child_nodes(p)}
        for c in [n for n in ast.walk(fn) if isinstance(n, ast.Call)]:
            lay = ctor_of(c, bound)
            if lay is None or lay[3] is None:
                continue
            p = par.get(id(c))
            if isinstance(p, ast.keyword):
                holder, ok = p, isinstance(par.get(id(p)), ast.Call)
            else:
                holder = p
                ok = isinstance(p, ast.Call) and (p.func is c or (c in p.args and (_qual(m, p.func) in _HOF or (isinstance(p.func, ast.Attribute) and p.func.attr == "sort"))))
            fm = _bind_record(lay, c) if ok else None
            if fm is None or not all(_simple_read(x) for x in fm.values()):
                continue
            lam = _call_lambda(lay, fm, c)
            if lam is None:
                continue
            for fname, val in ast.iter_fields(holder):
                if val is c:
                    setattr(holder, fname, lam)
                elif isinstance(val, list) and c in val:
                    val[val.index(c)] = lam
            count += 1
    return count


def _boolean_valued(m, fn, e: ast.AST, depth: int = 3) -> bool:
    """the expression can only be True or False: comparison, not, and/or of such, bool(...) and friends, a call of a
    function / method of this module that is declared `-> bool`"""
    e = strip_cast(e)
    if depth <= 0:
        return False
    if isinstance(e, ast.Constant):
        return isinstance(e.value, bool)
    if isinstance(e, ast.Compare) or (isinstance(e, ast.UnaryOp) and isinstance(e.op, ast.Not)):
        return True
    if isinstance(e, ast.BoolOp):
        return all(_boolean_valued(m, fn, v, depth - 1) for v in e.values)
    if isinstance(e, ast.IfExp):
        return _boolean_valued(m, fn, e.body, depth - 1) and _boolean_valued(m, fn, e.orelse, depth - 1)
    if isinstance(e, ast.Call):
        if isinstance(e.func, ast.Name) and e.func.id in ("bool", "isinstance", "issubclass", "callable", "all", "any", "hasattr"):
            return True
        fi = getattr(fn, "_info", None)
        t = None
        if isinstance(e.func, ast.Name):
            t = m.functions.get(e.func.id)
        elif isinstance(e.func, ast.Attribute):
            owners = [c for c in m.classes.values() if e.func.attr in c.methods]
            recv = e.func.value
            if isinstance(recv, ast.Name) and recv.id in ("self", "cls") and fi is not None and fi.cls is not None:
                t = fi.cls.lookup(e.func.attr)
            elif len(owners) == 1:
                t = owners[0].methods[e.func.attr]
            elif fi is not None and _expr_class(fi, recv) in m.classes:
                t = m.classes[_expr_class(fi, recv)].lookup(e.func.attr)
            elif owners and all(c.methods[e.func.attr].node.returns is not None and norm(c.methods[e.func.attr].node.returns).strip("'\"") == "bool" for c in owners):
                t = owners[0].methods[e.func.attr]
        return t is not None and t.node.returns is not None and norm(t.node.returns).strip("'\"") == "bool"
    return False


def _prep_booltests(m) -> int:
    """`x is True` / `x is False` (and `==`) where x is boolean-valued by construction (or a local that is only ever
    assigned such values) -> `x` / `not x`; constant True / False operands of and / or folded away"""
    count = [0]
    for fn in [n for n in ast.walk(m.tree) if isinstance(n, _FUNCS)]:
        params = {x.arg for x in fn.args.posonlyargs + fn.args.args + fn.args.kwonlyargs}
        values: dict[str, list] = {}
        for st in walk_no_nested(fn):
            for t, v in (_assign_targets(st) if isinstance(st, (ast.Assign, ast.AnnAssign, ast.AugAssign)) else []):
                if isinstance(t, ast.Name):
                    values.setdefault(t.id, []).append(v)
        other_bind = {n.id for n in walk_no_nested(fn) if isinstance(n, ast.Name) and isinstance(n.ctx, (ast.Store, ast.Del))
                      and not isinstance(getattr(n, "_parent", None), (ast.Assign, ast.AnnAssign))}
        boolean = {k for k, vs in values.items() if k not in params and k not in other_bind and all(v is not None and _boolean_valued(m, fn, v) for v in vs)}

        def is_bool(e) -> bool:
            return (isinstance(e, ast.Name) and e.id in boolean) or _boolean_valued(m, fn, e)

        class T(ast.NodeTransformer):
            def visit_FunctionDef(self, n):
                return n if n is not fn else self.generic_visit(n)
            visit_AsyncFunctionDef = visit_FunctionDef

            def visit_Compare(self, n):
                self.generic_visit(n)
                if len(n.ops) == 1 and isinstance(n.ops[0], (ast.Is, ast.IsNot, ast.Eq, ast.NotEq)):
                    for a, b in ((n.left, n.comparators[0]), (n.comparators[0], n.left)):
                        if isinstance(b, ast.Constant) and isinstance(b.value, bool) and is_bool(a) and not isinstance(a, ast.Constant):
                            want = b.value if isinstance(n.ops[0], (ast.Is, ast.Eq)) else not b.value
                            count[0] += 1
                            return a if want else ast.copy_location(ast.UnaryOp(op=ast.Not(), operand=a), n)
                return n

            def visit_BoolOp(self, n):
                self.generic_visit(n)
                neutral = isinstance(n.op, ast.And)
                if any(isinstance(v, ast.Constant) and isinstance(v.value, bool) for v in n.values):
                    vals = []
                    for v in n.values:
                        if isinstance(v, ast.Constant) and isinstance(v.value, bool):
                            if v.value is neutral:
                                continue
                            vals.append(v)
                            break                                         # the absorbing constant ends the evaluation
                        vals.append(v)
                    if all(is_bool(v) for v in vals):                     # (a and True) is a only for boolean a
                        count[0] += 1
                        if not vals:
                            return ast.copy_location(ast.Constant(value=neutral), n)
                        if len(vals) == 1:
                            return vals[0]
                        n.values = vals
                return n
        T().visit(fn)
    return count[0]


def _prep_match(m) -> int:
    """match statements over a tuple / record of freshly computed parts (or any subject) with sequence, class, value,
    singleton, capture, wildcard and or-patterns -> the parts bound to locals once, then an if / elif chain.  A boolean part
    tested against True / False becomes a plain truth test; what earlier cases' failing says about a part is used to drop
    settled conjuncts from later cases (the chain is evaluated top-down, exactly like the cases)."""
    layouts = {c.name: _class_layout(m, c) for c in m.tree.body if isinstance(c, ast.ClassDef)}
    layouts = {k: v for k, v in layouts.items() if v is not None}
    count = 0

    class Unsupported(Exception):
        pass

    for fn in [n for n in ast.walk(m.tree) if isinstance(n, _FUNCS)]:
        bound = _bound_locals(fn) | {x.arg for x in fn.args.posonlyargs + fn.args.args + fn.args.kwonlyargs}
        for block in list(_blocks(fn)):
            for st in [x for x in block if isinstance(x, ast.Match)]:
                base = f"m{st.lineno}"
                if any(b.startswith(base + "_") for b in bound):
                    continue
                pre: list[ast.stmt] = []
                boolean: set[str] = set()

                def temp(i, value, st=st, pre=pre, base=base, boolean=boolean, fn=fn):
                    name = f"{base}_{i}"
                    a = ast.Assign(targets=[ast.Name(id=name, ctx=ast.Store())], value=value)
                    pre.append(a)
                    if _boolean_valued(m, fn, value):
                        boolean.add(name)
                    return ast.Name(id=name, ctx=ast.Load())
                subj = strip_cast(st.subject)
                parts = fieldparts = whole = None
                lay = layouts.get(subj.func.id) if isinstance(subj, ast.Call) and isinstance(subj.func, ast.Name) and subj.func.id not in bound else None
                fm = _bind_record(lay, subj) if lay is not None else None
                if isinstance(subj, (ast.Tuple, ast.List)) and not any(isinstance(x, ast.Starred) for x in subj.elts):
                    parts = [temp(i, x) for i, x in enumerate(subj.elts)]
                elif fm is not None:
                    fieldparts = {f: temp(i, v) for i, (f, v) in enumerate(fm.items())}
                else:
                    whole = subj if isinstance(subj, ast.Name) else temp(0, subj)

                def test_of(part: ast.AST, value: ast.AST, op) -> ast.AST:
                    if isinstance(part, ast.Name) and part.id in boolean and isinstance(value, ast.Constant) and isinstance(value.value, bool):
                        return _copy(part) if value.value else ast.UnaryOp(op=ast.Not(), operand=_copy(part))
                    return ast.Compare(left=_copy(part), ops=[op], comparators=[_copy(value)])

                def pat(p, part, seq=None, rec=None):
                    """(list of conjunct expressions, list of (name, expression) bindings)"""
                    if isinstance(p, ast.MatchValue):
                        return [test_of(part, p.value, ast.Eq())], []
                    if isinstance(p, ast.MatchSingleton):
                        return [test_of(part, ast.Constant(value=p.value), ast.Is())], []
                    if isinstance(p, ast.MatchAs):
                        if p.pattern is None:
                            return [], ([(p.name, _copy(part))] if p.name else [])
                        c, b = pat(p.pattern, part, seq, rec)
                        return c, b + ([(p.name, _copy(part))] if p.name else [])
                    if isinstance(p, ast.MatchOr):
                        alts = [pat(x, part, seq, rec) for x in p.patterns]
                        if any(b for _c, b in alts):
                            raise Unsupported
                        if any(not c for c, _b in alts):
                            return [], []
                        return [ast.BoolOp(op=ast.Or(), values=[c[0] if len(c) == 1 else ast.BoolOp(op=ast.And(), values=c) for c, _b in alts])], []
                    if isinstance(p, ast.MatchSequence):
                        if any(isinstance(x, ast.MatchStar) for x in p.patterns):
                            raise Unsupported
                        if seq is not None:
                            if len(seq) != len(p.patterns):
                                return [ast.Constant(value=False)], []
                            elems = seq
                            conj, binds = [], []
                        else:
                            elems = [ast.Subscript(value=_copy(part), slice=ast.Constant(value=i), ctx=ast.Load()) for i in range(len(p.patterns))]
                            conj = [ast.Call(func=ast.Name(id="isinstance", ctx=ast.Load()), args=[_copy(part), ast.Tuple(elts=[ast.Name(id="tuple", ctx=ast.Load()), ast.Name(id="list", ctx=ast.Load())], ctx=ast.Load())], keywords=[]),
                                    ast.Compare(left=ast.Call(func=ast.Name(id="len", ctx=ast.Load()), args=[_copy(part)], keywords=[]), ops=[ast.Eq()], comparators=[ast.Constant(value=len(p.patterns))])]
                            binds = []
                        for x, el in zip(p.patterns, elems):
                            c, b = pat(x, el)
                            conj += c
                            binds += b
                        return conj, binds
                    if isinstance(p, ast.MatchClass) and isinstance(p.cls, ast.Name):
                        lay2 = layouts.get(p.cls.id)
                        order = [a.arg for a in (lay2[0].posonlyargs + lay2[0].args)][1 if lay2[1] else 0:] if lay2 is not None else None
                        if p.patterns and (order is None or len(p.patterns) > len(order)):
                            raise Unsupported
                        attrs = [*(order[:len(p.patterns)] if p.patterns else []), *p.kwd_attrs]
                        subs = [*p.patterns, *p.kwd_patterns]
                        if rec is not None and isinstance(subj, ast.Call) and subj.func.id == p.cls.id:
                            conj, binds = [], []
                            get = lambda a: rec.get(a)  # noqa: E731
                        else:
                            conj = [ast.Call(func=ast.Name(id="isinstance", ctx=ast.Load()), args=[_copy(part), ast.Name(id=p.cls.id, ctx=ast.Load())], keywords=[])]
                            binds = []
                            get = lambda a: ast.Attribute(value=_copy(part), attr=a, ctx=ast.Load())  # noqa: E731
                        for a, x in zip(attrs, subs):
                            el = get(a)
                            if el is None:
                                raise Unsupported
                            c, b = pat(x, el)
                            conj += c
                            binds += b
                        return conj, binds
                    raise Unsupported
                try:
                    cases = []
                    for cs in st.cases:
                        top = whole if whole is not None else ast.Name(id=base, ctx=ast.Load())
                        conj, binds = pat(cs.pattern, top, parts, fieldparts)
                        if parts is not None and not isinstance(cs.pattern, (ast.MatchSequence, ast.MatchAs, ast.MatchOr)):
                            raise Unsupported
                        if fieldparts is not None and not isinstance(cs.pattern, (ast.MatchClass, ast.MatchAs)):
                            raise Unsupported
                        if (parts is not None or fieldparts is not None) and any(isinstance(n, ast.Name) and n.id == base for c in conj for n in ast.walk(c)):
                            raise Unsupported
                        if (parts is not None or fieldparts is not None) and any(isinstance(n, ast.Name) and n.id == base for _n, b in binds for n in ast.walk(b)):
                            raise Unsupported
                        if cs.guard is not None:
                            if binds:
                                raise Unsupported
                            conj = conj + [cs.guard]
                        cases.append((conj, binds, cs.body))
                except Unsupported:
                    continue
                # what the failing of the earlier cases says about boolean parts settles conjuncts of the later ones
                known: dict[str, bool] = {}

                def lit(c):
                    if isinstance(c, ast.Name) and c.id in boolean:
                        return c.id, True
                    if isinstance(c, ast.UnaryOp) and isinstance(c.op, ast.Not) and isinstance(c.operand, ast.Name) and c.operand.id in boolean:
                        return c.operand.id, False
                    return None
                chain_: list[tuple[list, list, list]] = []
                for conj, binds, body in cases:
                    kept, dead = [], False
                    for c in conj:
                        l = lit(c)
                        if l is not None and l[0] in known:
                            if known[l[0]] != l[1]:
                                dead = True
                            continue
                        if isinstance(c, ast.Constant) and c.value is False:
                            dead = True
                        kept.append(c)
                    if dead:
                        continue
                    chain_.append((kept, binds, body))
                    if not kept:
                        break                                             # an irrefutable case: nothing after it is reached
                    if len(kept) == 1 and lit(kept[0]) is not None:
                        known[lit(kept[0])[0]] = not lit(kept[0])[1]
                if not chain_:
                    new_stmts: list[ast.stmt] = list(pre)
                else:
                    node = None
                    for kept, binds, body in reversed(chain_):
                        body2 = [ast.Assign(targets=[ast.Name(id=n_, ctx=ast.Store())], value=v) for n_, v in binds] + list(body)
                        if not kept:
                            node = body2                                  # else branch
                            continue
                        test = kept[0] if len(kept) == 1 else ast.BoolOp(op=ast.And(), values=kept)
                        node = [ast.If(test=test, body=body2, orelse=node if isinstance(node, list) else ([] if node is None else [node]))]
                    new_stmts = list(pre) + (node if isinstance(node, list) else [node])
                for x in new_stmts:
                    for y in ast.walk(x):
                        if isinstance(y, (ast.expr, ast.stmt)) and not hasattr(y, "lineno"):
                            ast.copy_location(y, st)
                i = block.index(st)
                block[i:i + 1] = new_stmts
                count += 1
    return count


def _chain_up(par: dict, n: ast.AST):
    n = par.get(id(n))
    while n is not None:
        yield n
        n = par.get(id(n))


def _anyall_operands(m, c: ast.AST) -> list[ast.AST] | None:
    """all(...) / any(...) over a collection that is written out: a literal tuple / list of side-effect free tests, or a
    generator `test(x) for x in <literal tuple / list / set, or a module constant bound once to one>` (unrolled).  The
    operands, in order; None when the call is something else."""
    if not (isinstance(c, ast.Call) and isinstance(c.func, ast.Name) and c.func.id in ("all", "any") and len(c.args) == 1 and not c.keywords
            and c.func.id not in m.functions and c.func.id not in m.constants and c.func.id not in m.imports and c.func.id not in m.classes):
        return None

    def pure(e: ast.AST) -> bool:
        for n in ast.walk(e):
            if isinstance(n, ast.Call):
                if not (call_name(n) in _PURE_METHODS or chain(n.func) in _PURE_CALLS):
                    return False
            elif not isinstance(n, (ast.Name, ast.Attribute, ast.Constant, ast.Subscript, ast.Compare, ast.BoolOp, ast.UnaryOp, ast.BinOp, ast.IfExp, ast.Tuple,
                                    ast.expr_context, ast.cmpop, ast.boolop, ast.unaryop, ast.operator, ast.Slice)):
                return False
        return True

    def literal(e: ast.AST, depth: int = 2) -> list[ast.AST] | None:
        e = strip_cast(e)
        if isinstance(e, ast.Call) and chain(e.func) in ("frozenset", "tuple", "list", "set") and len(e.args) == 1 and not e.keywords:
            return literal(e.args[0], depth)
        if isinstance(e, (ast.Tuple, ast.List, ast.Set)) and not any(isinstance(x, ast.Starred) for x in e.elts):
            return list(e.elts)
        if isinstance(e, ast.Name) and depth > 0 and e.id in m.constants and _module_bindings(m, e.id) == 1:
            return literal(m.constants[e.id], depth - 1)
        return None
    a = strip_cast(c.args[0])
    ops: list[ast.AST] | None = None
    if isinstance(a, (ast.Tuple, ast.List)):
        ops = literal(a)
    elif isinstance(a, (ast.GeneratorExp, ast.ListComp)) and len(a.generators) == 1 and not a.generators[0].ifs and not a.generators[0].is_async \
            and isinstance(a.generators[0].target, ast.Name):
        col = literal(a.generators[0].iter)
        if col is not None and all(isinstance(x, (ast.Constant, ast.Name, ast.Attribute)) for x in col):
            ops = [_subst(a.elt, {a.generators[0].target.id: x}) for x in col]
    if ops is None or not 1 <= len(ops) <= 8 or not all(pure(x) for x in ops):
        return None
    return ops


def _prep_anyall(m) -> int:
    """all((a, b)) -> bool(a and b), any(t(x) for x in (p, q)) -> bool(t(p) or t(q)): the same truth value for side-effect
    free operands (the eager form evaluates every operand, so whenever it does not raise neither does the lazy one)."""
    count = [0]

    class T(ast.NodeTransformer):
        def visit_Call(self, n):
            self.generic_visit(n)
            ops = _anyall_operands(m, n)
            if ops is None:
                return n
            count[0] += 1
            test = ops[0] if len(ops) == 1 else ast.BoolOp(op=ast.And() if n.func.id == "all" else ast.Or(), values=[_copy(x) for x in ops])
            up = getattr(n, "_parent", None)
            if (isinstance(up, (ast.If, ast.While, ast.IfExp, ast.Assert)) and up.test is n) or (isinstance(up, ast.comprehension) and n in up.ifs) \
                    or isinstance(up, ast.BoolOp) or (isinstance(up, ast.UnaryOp) and isinstance(up.op, ast.Not)):
                return ast.copy_location(test, n)                         # only the truth value is used
            return ast.copy_location(ast.Call(func=ast.Name(id="bool", ctx=ast.Load()), args=[test], keywords=[]), n)
    T().visit(m.tree)
    return count[0]


def _wrapper_decorator(fn) -> ast.AST | None:
    """fn is `def d(func): [@wraps(func)] def w(...): ...; return w` - a decorator that replaces the function by the
    closure w: returns w's definition, else None."""
    if not isinstance(fn, ast.FunctionDef) or fn.decorator_list:
        return None
    a = fn.args
    if len(a.posonlyargs + a.args) != 1 or a.vararg or a.kwarg or a.kwonlyargs:
        return None
    body = [st for st in fn.body if not (isinstance(st, ast.Expr) and isinstance(st.value, ast.Constant))]
    if len(body) != 2 or not isinstance(body[0], _FUNCS) or not (isinstance(body[1], ast.Return) and isinstance(body[1].value, ast.Name) and body[1].value.id == body[0].name):
        return None
    w = body[0]
    for d in w.decorator_list:
        if not (isinstance(d, ast.Call) and (chain(d.func) or "").split(".")[-1] == "wraps"):
            return None
    return w


def _undecorated_source(repo, m) -> str | None:
    """The module's source with every function that carries a private wrapper-decorator of the repository written out as
    what the decoration denotes: the wrapper's body under the function's name and signature, the call of the wrapped
    function inside it turned into a call of a new private function / method that holds the original body.  (Calling
    `name` runs the wrapper, which runs the body where it calls `func`: exactly the decorated program.)  None when nothing
    was rewritten; a decoration that does not have this plain shape is left as it is."""
    try:
        tree = ast.parse(m.src)
    except SyntaxError:
        return None
    wrappers: dict[str, ast.AST] = {}
    for st in tree.body:
        if isinstance(st, ast.FunctionDef) and _wrapper_decorator(st) is not None:
            wrappers[st.name] = st
    for name in m.imports:
        r = repo.resolve_name(m, name)
        if isinstance(r, FuncInfo) and r.cls is None and _wrapper_decorator(r.node) is not None:
            wrappers[name] = r.node
    if not wrappers:
        return None
    changed = [0]

    def rewrite(fn, clsname: str | None):
        """[new definition of fn.name, definition of the body holder] or None"""
        if not fn.decorator_list or not all(isinstance(d, ast.Name) and d.id in wrappers for d in fn.decorator_list) or len(fn.decorator_list) != 1:
            return None
        deco = wrappers[fn.decorator_list[0].id]
        w = _copy(_wrapper_decorator(deco))
        fparam = (deco.args.posonlyargs + deco.args.args)[0].arg
        if isinstance(w, ast.AsyncFunctionDef) != isinstance(fn, ast.AsyncFunctionDef) or _is_generator(w) or _is_generator(fn):
            return None
        fa, wa = fn.args, w.args
        fpos = [x.arg for x in fa.posonlyargs + fa.args]
        wpos = [x.arg for x in wa.posonlyargs + wa.args]
        if fa.vararg or fa.kwarg or fa.kwonlyargs or wa.kwonlyargs or wa.defaults or (clsname is not None and (not fpos or not wpos)):
            return None
        star, dstar = (wa.vararg.arg if wa.vararg else None), (wa.kwarg.arg if wa.kwarg else None)
        if (star is None) != (dstar is None) and dstar is not None:
            return None
        if star is None and wpos != fpos:
            return None
        if star is not None and wpos != fpos[:len(wpos)]:
            return None
        rest = fpos[len(wpos):] if star is not None else []
        holder = f"_c14body_{clsname + '_' if clsname else ''}{fn.name.strip('_')}"
        ok = [True]

        class T(ast.NodeTransformer):
            def visit_Call(self, n):
                if isinstance(n.func, ast.Name) and n.func.id == fparam:
                    args = []
                    for x in n.args:
                        if isinstance(x, ast.Starred) and isinstance(x.value, ast.Name) and x.value.id == star:
                            args.extend(ast.Name(id=r, ctx=ast.Load()) for r in rest)
                        elif isinstance(x, ast.Starred):
                            ok[0] = False
                        else:
                            args.append(self.visit(x))
                    kws = []
                    for k in n.keywords:
                        if k.arg is None and isinstance(k.value, ast.Name) and k.value.id == dstar:
                            continue
                        if k.arg is None:
                            ok[0] = False
                        kws.append(ast.keyword(arg=k.arg, value=self.visit(k.value)))
                    if clsname is not None:
                        if not (args and isinstance(args[0], ast.Name) and args[0].id == wpos[0]):
                            ok[0] = False
                            return n
                        return ast.copy_location(ast.Call(func=ast.Attribute(value=args[0], attr=holder, ctx=ast.Load()), args=args[1:], keywords=kws), n)
                    return ast.copy_location(ast.Call(func=ast.Name(id=holder, ctx=ast.Load()), args=args, keywords=kws), n)
                self.generic_visit(n)
                return n

            def visit_Name(self, n):
                if n.id in (fparam, star, dstar):
                    ok[0] = False                                         # the function object / the argument pack used for something else
                return n
        new_body = [T().visit(st) for st in w.body]
        if not ok[0] or not any(isinstance(c, ast.Call) and ((isinstance(c.func, ast.Attribute) and c.func.attr == holder) or (isinstance(c.func, ast.Name) and c.func.id == holder))
                                for st in new_body for c in ast.walk(st)):
            return None
        doc = [st for st in fn.body[:1] if isinstance(st, ast.Expr) and isinstance(st.value, ast.Constant) and isinstance(st.value.value, str)]
        new_body = [st for st in new_body if not (isinstance(st, ast.Expr) and isinstance(st.value, ast.Constant))]
        outer = type(fn)(name=fn.name, args=_copy(fa), body=[*map(_copy, doc), *new_body], decorator_list=[], returns=fn.returns, type_comment=None)
        inner = type(fn)(name=holder, args=_copy(fa), body=fn.body, decorator_list=[], returns=fn.returns, type_comment=None)
        for x in (outer, inner):
            if hasattr(ast, "TypeAlias"):
                x.type_params = []
            ast.copy_location(x, fn)
        changed[0] += 1
        return [outer, inner]

    def do_block(body: list, clsname: str | None) -> list:
        out = []
        for st in body:
            if isinstance(st, ast.ClassDef) and clsname is None:
                st.body = do_block(st.body, st.name)
            new = rewrite(st, clsname) if isinstance(st, _FUNCS) else None
            out.extend(new if new is not None else [st])
        return out
    tree.body = do_block(tree.body, None)
    if not changed[0]:
        return None
    ast.fix_missing_locations(tree)
    try:
        src = ast.unparse(tree)
        compile(src, m.relpath, "exec")
    except Exception:  # noqa: BLE001 - the rewrite is optional
        return None
    return src + "\n"


# ---------------------------------------------------------------------- early-bound callables, dunder calls
_DUNDER_SYNTAX = {"__getitem__", "__setitem__", "__delitem__", "__contains__"}


def _attr_path(e: ast.AST):
    """(root name, [attr, ...]) of a Name-rooted attribute chain with at least one attribute, None otherwise"""
    attrs = []
    while isinstance(e, ast.Attribute):
        attrs.append(e.attr)
        e = e.value
    return (e.id, attrs[::-1]) if isinstance(e, ast.Name) and attrs else None


def _stmt_slot(st: ast.AST):
    p = parent(st)
    for f in ("body", "orelse", "finalbody"):
        b = getattr(p, f, None)
        if isinstance(b, list):
            for i, x in enumerate(b):
                if x is st:
                    return p, f, b, i
    return None


def _runs_before(store_stmt: ast.AST, s: ast.AST, fn: ast.AST) -> bool:
    """whenever statement s runs, store_stmt has completed its binding since the last time s's block was entered: an earlier
    statement of s's block or of an enclosing block, or the for / with statement whose body contains s"""
    cur = s
    while cur is not None and cur is not fn:
        slot = _stmt_slot(cur) if isinstance(cur, ast.stmt) else None
        if slot is not None:
            p, f, b, i = slot
            if isinstance(store_stmt, (ast.Assign, ast.AnnAssign)) and any(x is store_stmt for x in b[:i]):
                return True
            if p is store_stmt and isinstance(p, (ast.For, ast.AsyncFor, ast.With, ast.AsyncWith)) and f == "body":
                return True
        cur = parent(cur)
    return False


def _early_bound_pairs(s: ast.AST) -> list[tuple[str, ast.AST]]:
    """(local, attribute chain) pairs of `f = X.m` / `f, g = X.m, Y.n` (a parallel assignment of the same length)"""
    if not (isinstance(s, ast.Assign) and len(s.targets) == 1):
        return []
    t, v = s.targets[0], s.value
    if isinstance(t, ast.Name):
        return [(t.id, v)] if _attr_path(v) is not None else []
    if isinstance(t, (ast.Tuple, ast.List)) and isinstance(v, (ast.Tuple, ast.List)) and len(t.elts) == len(v.elts) \
            and all(isinstance(x, ast.Name) for x in t.elts) and not any(isinstance(x, ast.Starred) for x in v.elts) \
            and all(_simple_read(x) for x in v.elts):
        return [(x.id, y) for x, y in zip(t.elts, v.elts) if _attr_path(y) is not None]
    return []


def _unbind_one(fn, stored) -> bool:
    """One local of fn that only ever stands for a bound method / attribute chain taken early (`send = self.endpoint.send`,
    `get, put = d.__getitem__, d.__setitem__`) and is only CALLED: its calls are respelled as calls of the chain and the
    binding is dropped.  Same behaviour when the chain evaluates to the same callable at the call as at the binding:
    the root name is bound once, before the binding (a parameter never rebound / one local assignment, loop or with target that
    runs before it), and no attribute of the chain is ever assigned outside constructors anywhere in the code base."""
    params = {x.arg for x in fn.args.posonlyargs + fn.args.args + fn.args.kwonlyargs} | {x.arg for x in (fn.args.vararg, fn.args.kwarg) if x is not None}
    own_stores: dict[str, list] = {}
    for n in walk_no_nested(fn):
        if isinstance(n, ast.Name) and isinstance(n.ctx, (ast.Store, ast.Del)):
            own_stores.setdefault(n.id, []).append(n)
        elif isinstance(n, ast.ExceptHandler) and n.name:
            own_stores.setdefault(n.name, []).append(n)
    own_ids = {id(x) for xs in own_stores.values() for x in xs}
    foreign: set[str] = set()                                             # rebound in a nested scope / declared global or nonlocal
    for n in ast.walk(fn):
        if isinstance(n, (ast.Global, ast.Nonlocal)):
            foreign |= set(n.names)
        elif isinstance(n, ast.Name) and isinstance(n.ctx, (ast.Store, ast.Del)) and id(n) not in own_ids:
            foreign.add(n.id)
        elif isinstance(n, ast.arg) and n.arg not in params:
            foreign.add(n.arg)
        elif isinstance(n, ast.ExceptHandler) and n.name and id(n) not in own_ids:
            foreign.add(n.name)
    for s in walk_no_nested(fn):
        for name, value in _early_bound_pairs(s):
            if name in params or name in foreign or len(own_stores.get(name, [])) != 1:
                continue
            root, attrs = _attr_path(value)
            if root in foreign or root == name or any(stored(a) for a in attrs):
                continue
            rs = own_stores.get(root, [])
            if root in params:
                if rs:
                    continue
            elif len(rs) != 1 or isinstance(rs[0], ast.ExceptHandler) or not _runs_before(enclosing_stmt(rs[0]), s, fn):
                continue
            slot = _stmt_slot(s)
            if slot is None:
                continue
            _p, _f, block, idx = slot
            region = {id(y) for later in block[idx + 1:] for y in ast.walk(later)}
            uses = [x for x in ast.walk(fn) if isinstance(x, ast.Name) and x.id == name and isinstance(x.ctx, ast.Load)]
            if not uses or not all(id(u) in region and isinstance(parent(u), ast.Call) and parent(u).func is u for u in uses):
                continue
            for u in uses:
                parent(u).func = ast.copy_location(_copy(value), u)
            t = s.targets[0]
            def drop() -> None:
                if len(block) > 1:
                    del block[idx]
                else:
                    block[idx] = ast.copy_location(ast.Pass(), s)
            if isinstance(t, ast.Name):
                drop()
            else:
                k = next(i for i, x in enumerate(t.elts) if x.id == name)
                del t.elts[k]
                del s.value.elts[k]
                if not t.elts:
                    drop()
                elif len(t.elts) == 1:
                    s.targets[0], s.value = t.elts[0], s.value.elts[0]
            return True
    return False


def _prep_bound(m, stored) -> int:
    """early-bound callables -> the chain they stand for; X.__getitem__(k) / X.__setitem__(k, v) / X.__delitem__(k) /
    X.__contains__(k) -> X[k] / X[k] = v / del X[k] / k in X (the statement and the method call run the same type slot;
    not for super() receivers); returns the number of rewrites"""
    count = 0
    for fn in [n for n in ast.walk(m.tree) if isinstance(n, _FUNCS)]:
        for _round in range(12):
            set_parents(m.tree)
            if not _unbind_one(fn, stored):
                break
            count += 1
    module_bound = {n.id for n in ast.walk(m.tree) if isinstance(n, ast.Name) and isinstance(n.ctx, ast.Store)} | set(m.imports)

    def receiver(c: ast.Call, nargs: int):
        """(receiver, arguments) of a dunder call with nargs arguments: X.__d__(args) or dict.__d__(X, args)"""
        if c.keywords or any(isinstance(x, ast.Starred) for x in c.args) or not isinstance(c.func, ast.Attribute):
            return None
        r = c.func.value
        if isinstance(r, ast.Name) and r.id in ("dict", "list") and r.id not in module_bound and len(c.args) == nargs + 1 and _simple_read(c.args[0]):
            return c.args[0], c.args[1:]
        if len(c.args) != nargs or not _simple_read(r) or (isinstance(r, ast.Name) and r.id in ("super", "dict", "list", "set", "object")):
            return None
        return r, c.args

    class D(ast.NodeTransformer):
        n = 0

        def visit_Expr(self, n):
            self.generic_visit(n)
            c = n.value
            if isinstance(c, ast.Call) and isinstance(c.func, ast.Attribute):
                if c.func.attr == "__setitem__":
                    rv = receiver(c, 2)
                    if rv is not None:
                        D.n += 1
                        return ast.copy_location(ast.Assign(targets=[ast.copy_location(ast.Subscript(value=rv[0], slice=rv[1][0], ctx=ast.Store()), c)], value=rv[1][1]), n)
                if c.func.attr == "__delitem__":
                    rv = receiver(c, 1)
                    if rv is not None:
                        D.n += 1
                        return ast.copy_location(ast.Delete(targets=[ast.copy_location(ast.Subscript(value=rv[0], slice=rv[1][0], ctx=ast.Del()), c)]), n)
            return n

        def visit_Call(self, n):
            self.generic_visit(n)
            if isinstance(n.func, ast.Attribute) and n.func.attr in ("__getitem__", "__contains__"):
                rv = receiver(n, 1)
                if rv is not None:
                    D.n += 1
                    if n.func.attr == "__getitem__":
                        return ast.copy_location(ast.Subscript(value=rv[0], slice=rv[1][0], ctx=ast.Load()), n)
                    if not _simple_read(rv[1][0]):
                        D.n -= 1
                        return n                                          # (`k in X` evaluates k first: only when both merely read)
                    return ast.copy_location(ast.Compare(left=rv[1][0], ops=[ast.In()], comparators=[rv[0]]), n)
            return n
    D().visit(m.tree)
    return count + D.n


def _bound_trigger(m) -> bool:
    for n in ast.walk(m.tree):
        if isinstance(n, ast.Call) and isinstance(n.func, ast.Attribute) and n.func.attr in _DUNDER_SYNTAX:
            return True
    for fn in ast.walk(m.tree):
        if isinstance(fn, _FUNCS):
            called = {c.func.id for c in ast.walk(fn) if isinstance(c, ast.Call) and isinstance(c.func, ast.Name)}
            if called and any(name in called for s in walk_no_nested(fn) for name, _v in _early_bound_pairs(s)):
                return True
    return False


def _prep_triggers(m) -> bool:
    if _bound_trigger(m):
        return True
    if any(_anyall_operands(m, c) is not None for c in ast.walk(m.tree) if isinstance(c, ast.Call)):
        return True
    mods = {mod.split(".")[0] for mod, _a in m.imports.values()}
    if mods & {"operator", "functools", "contextlib", "enum", "dataclasses"} or any(a == "NamedTuple" for _m, a in m.imports.values()):
        return True
    if any(isinstance(c, ast.ClassDef) and _class_layout(m, c) is not None for c in m.tree.body):
        return True
    if any(isinstance(c, ast.Match) for c in ast.walk(m.tree)):
        return True
    return any(isinstance(c, ast.Call) and isinstance(c.func, ast.Name) and c.func.id == "map" and len(c.args) == 2 for c in ast.walk(m.tree))


def _private_view(ctx: Ctx) -> None:
    """Replace ctx.repo by a private copy in which the DHT modules are rewritten by the passes above - only when one of
    the modules uses a spelling the passes know; the unchanged tree is analysed as loaded."""
    repo = ctx.repo
    if getattr(repo, "_c14_private", False):
        return
    undecorated = {}
    for r in (RT, TRIE):
        if r in repo.by_relpath and "@" in repo.by_relpath[r].src:
            try:
                src = _undecorated_source(repo, repo.by_relpath[r])
            except AnalysisError:
                raise
            except Exception as e:  # noqa: BLE001 - optional rewrite
                ctx.note(f"decorator expansion skipped: {type(e).__name__}: {e}")
                src = None
            if src is not None:
                undecorated[r] = src
    rels = [r for r in (RT, TRIE) if r in repo.by_relpath and (r in undecorated or _prep_triggers(repo.by_relpath[r]))]
    if not rels:
        return
    from ..model import Repo
    ov = dict(repo.overrides)
    for r in rels:
        ov[r] = undecorated.get(r, repo.by_relpath[r].src) + _PRIVATE_MARK
    stored_cache: dict[str, bool] = {}

    def stored(attr: str) -> bool:
        """some code outside a constructor assigns / deletes an attribute of this name (anywhere in the code base)"""
        if attr not in stored_cache:
            hit = False
            for rel, mod in repo.by_relpath.items():
                if "/test/" in rel or attr not in mod.src:
                    continue                                              # (test fixtures are not part of the running library)
                for fn in ast.walk(mod.tree):
                    if isinstance(fn, (*_FUNCS, ast.Module, ast.ClassDef)) and not (isinstance(fn, _FUNCS) and fn.name in ("__init__", "__new__", "__post_init__")):
                        for x in walk_no_nested(fn):
                            if isinstance(x, ast.Attribute) and x.attr == attr and isinstance(x.ctx, (ast.Store, ast.Del)):
                                hit = True
                            elif isinstance(x, ast.Call) and isinstance(x.func, ast.Name) and x.func.id in ("setattr", "delattr") and len(x.args) >= 2 \
                                    and const_value(x.args[1]) == attr:
                                hit = True
                    if hit:
                        break
                if hit:
                    break
            stored_cache[attr] = hit
        return stored_cache[attr]
    try:
        priv = Repo(repo.root, overrides=ov, include_tests=any(r.startswith("ipv8/test/") for r in repo.by_relpath), extra_dirs=repo.extra_dirs)
        for r in rels:
            m = priv.by_relpath[r]
            for _round in range(3):
                n = _prep_operator(m) + _prep_enums(m) + _prep_match(m) + _prep_records(m) + _prep_anyall(m)
                set_parents(m.tree)
                n += _prep_bound(m, stored)
                set_parents(m.tree)
                n += _prep_booltests(m)
                ast.fix_missing_locations(m.tree)
                set_parents(m.tree)
                if not n:
                    break
    except AnalysisError:
        raise
    except Exception as e:  # noqa: BLE001 - the passes only remove reasons for false alarms: if they cannot cope, the modules are analysed as loaded
        ctx.note(f"private normalisation skipped: {type(e).__name__}: {e}")
        return
    priv._c14_private = True  # type: ignore[attr-defined]
    ctx.repo = priv


def run(ctx: Ctx) -> None:
    _private_view(ctx)
    rule_bucket(ctx)
    rule_split(ctx)
    rule_closest(ctx)
    rule_refresh_id(ctx)
    rule_own_id_fixed(ctx)
    rule_lookup_atomic(ctx)
    rule_refresh_caller(ctx)
    rule_trie(ctx)
    finish_undecided(ctx)
    ctx.assume("induction argument: (1) every insert satisfies owns and capacity, (2) split replaces a leaf by its two children whose prefixes partition the parent's, "
               "(3) nothing else writes the trie => buckets stay a prefix-free complete cover and each node sits in its owner; nodes in the subtree of a longer common "
               "prefix are XOR-closer than nodes outside it => the walk is exact once a complete level holds >= k live nodes")
    ctx.assume("Trie (dht/trie.py) implements longest-prefix / suffixes / the pruning of delete correctly: covered by its unit tests, not by this analysis "
               "(decided here: a delete never returns without having cleared the value)")


WITNESSES = [
    {"name": "parent deletion skipped for the root bucket", "file": RT, "rule": "split-partition",
     "old": "                    del self.trie[bucket.prefix_id]\n",
     "new": "                    if bucket.prefix_id:\n                        del self.trie[bucket.prefix_id]\n"},
    {"name": "node written into a half without Bucket.add", "file": RT, "rule": "bucket-insert",
     "old": "                    # Retry\n                    return self.add(node)",
     "new": "                    half = bucket_0 if bucket_0.owns(node.id) else bucket_1\n                    half.nodes[node.id] = node\n                    return self.add(node)"},
    {"name": "get_bucket prefers the root bucket", "file": RT, "rule": "bucket-insert",
     "old": "return self.trie.longest_prefix_value(node_id_binary, default=None) or self.trie[\"\"]",
     "new": "return self.trie[\"\"] or self.trie.longest_prefix_value(node_id_binary, default=None)"},
    {"name": "eviction although the bucket has room", "file": RT, "rule": "bucket-insert",
     "old": "        if len(self.nodes) >= self.max_size:\n            for n in list(self.nodes.values()):",
     "new": "        if len(self.nodes) >= self.max_size - 1:\n            for n in list(self.nodes.values()):"},
    {"name": "capacity flag taken before the bucket is refilled (stale flag)", "file": RT, "rule": "bucket-insert",
     "old": '        # Make room if needed\n        if len(self.nodes) >= self.max_size:\n            for n in list(self.nodes.values()):\n                if n.status == NODE_STATUS_BAD:\n                    self.nodes.pop(n.id)\n                    break\n\n            for n in list(self.nodes.values()):\n                if node.rtt and n.rtt / node.rtt >= 2.0:\n                    self.nodes.pop(n.id)\n                    break\n\n        # Insert\n        if len(self.nodes) < self.max_size:\n',
     "new": '        has_room = len(self.nodes) < self.max_size\n        # Make room if needed\n        if len(self.nodes) >= self.max_size:\n            for n in list(self.nodes.values()):\n                if n.status == NODE_STATUS_BAD:\n                    self.nodes.pop(n.id)\n                    break\n\n            for n in list(self.nodes.values()):\n                if node.rtt and n.rtt / node.rtt >= 2.0:\n                    self.nodes.pop(n.id)\n                    break\n            self.nodes.update(node.bucket.nodes if node.bucket else {})\n\n        # Insert\n        if has_room:\n'},
    {"name": "trie delete of the root key silently does nothing", "file": TRIE, "rule": "trie-delete",
     "old": "        rm_node: Node[ValueType] = cast(\"Node[ValueType]\", node)\n",
     "new": "        if not key:\n            return\n        rm_node: Node[ValueType] = cast(\"Node[ValueType]\", node)\n"},
    {"name": "pre-fix: refresh id ignores prefix", "file": RT, "rule": "refresh-id-in-bucket",
     "old": "        rand_node_id_bin = self.prefix_id + suffix\n", "new": "        rand_node_id_bin = \"0\" * len(self.prefix_id) + suffix\n"},
    {"name": "refresh id random part too wide", "file": RT, "rule": "refresh-id-in-bucket",
     "old": "        suffix = format(random.getrandbits(suffix_length), f\"0{suffix_length}b\") if suffix_length else \"\"",
     "new": "        suffix = format(random.getrandbits(160), f\"0{suffix_length}b\") if suffix_length else \"\""},
    {"name": "refresh id without random bits although the prefix is short", "file": RT, "rule": "refresh-id-in-bucket",
     "old": "f\"0{suffix_length}b\") if suffix_length else \"\"", "new": "f\"0{suffix_length}b\") if suffix_length > 8 else \"\""},
    {"name": "closest walk never reaches the root", "file": RT, "rule": "closest",
     "old": "for i in reversed(range(len(prefix) + 1)):", "new": "for i in reversed(range(1, len(prefix) + 1)):"},
    {"name": "closest adds unfiltered nodes as well", "file": RT, "rule": "closest",
     "old": "            # Ensure nodes are sorted by distance\n", "new": "            nodes.update(self.get_bucket(node_id).nodes.values())\n"},
    {"name": "remove_bad_nodes removes every node", "file": RT, "rule": "bucket-insert",
     "old": "                    if node.status == NODE_STATUS_BAD:\n                        bucket.nodes.pop(node_id, None)", "new": "                    if node.status != NODE_STATUS_BAD:\n                        bucket.nodes.pop(node_id, None)"},
    {"name": "insert without ownership check", "file": RT, "rule": "bucket-insert",
     "old": "        if not self.owns(node.id):\n            return False\n\n        # Update existing node", "new": "        # Update existing node"},
    {"name": "insert into full bucket", "file": RT, "rule": "bucket-insert",
     "old": "        if len(self.nodes) < self.max_size:\n            self.nodes[node.id] = node", "new": "        if len(self.nodes) <= self.max_size:\n            self.nodes[node.id] = node"},
    {"name": "split any bucket", "file": RT, "rule": "split-own-path",
     "old": "                if bucket.owns(self.my_node_id):\n                    split = bucket.split()", "new": "                if bucket.owns(node.id):\n                    split = bucket.split()"},
    {"name": "children swapped after split", "file": RT, "rule": "split-partition",
     "old": "                    self.trie[bucket.prefix_id + \"0\"] = bucket_0\n                    self.trie[bucket.prefix_id + \"1\"] = bucket_1",
     "new": "                    self.trie[bucket.prefix_id + \"0\"] = bucket_1\n                    self.trie[bucket.prefix_id + \"1\"] = bucket_0"},
    {"name": "parent kept after split", "file": RT, "rule": "split-partition",
     "old": "                    del self.trie[bucket.prefix_id]\n", "new": ""},
    {"name": "split drops unplaceable nodes silently into b_0", "file": RT, "rule": "split-partition",
     "old": "            if b_0.owns(node.id):\n                b_0.add(node)\n            elif b_1.owns(node.id):\n                b_1.add(node)",
     "new": "            if b_1.owns(node.id):\n                b_1.add(node)\n            elif True:\n                b_0.add(node)"},
    {"name": "closest sorted by status first", "file": RT, "rule": "closest",
     "old": "key=lambda n: (distance(n.id, node_id), n.status)", "new": "key=lambda n: (n.status, distance(n.id, node_id))"},
    {"name": "closest walk stops early", "file": RT, "rule": "closest",
     "old": "                if len(nodes) > max_nodes:\n                    break", "new": "                if len(nodes) > max_nodes // 2:\n                    break"},
    {"name": "closest includes bad nodes", "file": RT, "rule": "closest",
     "old": "if node.status != NODE_STATUS_BAD and (exclude_node is None", "new": "if node.status is not None and (exclude_node is None"},
    {"name": "closest not truncated", "file": RT, "rule": "closest",
     "old": "n.status))[:max_nodes]", "new": "n.status))"},
    {"name": "distance is subtraction", "file": RT, "rule": "closest",
     "old": "return int(binascii.hexlify(a), 16) ^ int(binascii.hexlify(b), 16)", "new": "return abs(int(binascii.hexlify(a), 16) - int(binascii.hexlify(b), 16))"},
    {"name": "distance over the leading 8 bytes of the ids only", "file": RT, "rule": "closest",
     "old": "return int(binascii.hexlify(a), 16) ^ int(binascii.hexlify(b), 16)", "new": "return int(binascii.hexlify(a[:8]), 16) ^ int(binascii.hexlify(b[:8]), 16)"},
    {"name": "own identifier of a routing table rewritten after construction", "file": "ipv8/dht/community.py", "rule": "split-own-path",
     "old": "            self.routing_tables[address_cls] = RoutingTable(self.get_my_node_id(node))\n",
     "new": "            self.routing_tables[address_cls] = RoutingTable(self.get_my_node_id(node))\n"
            "        self.routing_tables[address_cls].my_node_id = self.get_my_node_id(node)\n"},
    {"name": "refresh id generated from a left-over loop variable", "file": "ipv8/dht/community.py", "rule": "refresh-id-in-bucket",
     "old": "await self.find_values(buckets[0].generate_id())", "new": "await self.find_values(bucket.generate_id())"},
    {"name": "bucket looked up before the table lock is taken", "file": RT, "rule": "lookup-under-lock",
     "old": "        with self.lock:\n            bucket = self.get_bucket(node.id)\n\n            # Add/update node\n",
     "new": "        bucket = self.get_bucket(node.id)\n        with self.lock:\n            # Add/update node\n"},
    {"name": "capacity test spelled operator.le", "rule": "bucket-insert", "edits": [
        {"file": RT, "old": "from collections import deque\n", "new": "from collections import deque\nimport operator\n"},
        {"file": RT, "old": "        if len(self.nodes) < self.max_size:\n            self.nodes[node.id] = node",
         "new": "        if operator.le(len(self.nodes), self.max_size):\n            self.nodes[node.id] = node"}]},
    {"name": "Enum decision that lets a foreign node in", "rule": "bucket-insert", "edits": [
        {"file": RT, "old": "from collections import deque\n", "new": "from collections import deque\nfrom enum import Enum\n"},
        {"file": RT, "old": "class Bucket:\n", "new": "class _Rel(Enum):\n    FOREIGN = 0\n    OWN = 1\n\n\nclass Bucket:\n"},
        {"file": RT, "old": "        if not self.owns(node.id):\n            return False\n\n        # Update existing node",
         "new": "        rel = _Rel.OWN if self.owns(node.id) or node.rtt else _Rel.FOREIGN\n        if rel is _Rel.FOREIGN:\n            return False\n\n        # Update existing node"}]},
    {"name": "result object whose ownership field is constant", "rule": "bucket-insert", "edits": [
        {"file": RT, "old": "from typing import TYPE_CHECKING, cast\n", "new": "from typing import TYPE_CHECKING, NamedTuple, cast\n"},
        {"file": RT, "old": "class Bucket:\n", "new": "class _Seen(NamedTuple):\n    owned: bool\n    known: bool\n\n\nclass Bucket:\n"},
        {"file": RT, "old": "        if not self.owns(node.id):\n            return False\n\n        # Update existing node",
         "new": "        seen = _Seen(True, node.id in self.nodes)\n        if not seen.owned:\n            return False\n\n        # Update existing node"}]},
    {"name": "dispatch table whose insert handler has no capacity test", "rule": "bucket-insert", "edits": [
        {"file": RT, "old": "        # Insert\n        if len(self.nodes) < self.max_size:\n            self.nodes[node.id] = node\n            node.bucket = self\n            self.last_changed = time.time()\n            return True\n\n        return False\n",
         "new": "        place = self._place if len(self.nodes) < self.max_size else self._place_anyway\n        return place(node)\n\n"
                "    def _place(self, node: Node) -> bool:\n        self.nodes[node.id] = node\n        node.bucket = self\n        self.last_changed = time.time()\n        return True\n\n"
                "    def _place_anyway(self, node: Node) -> bool:\n        self.nodes[node.id] = node\n        return True\n"}]},
    {"name": "callable-class filter that admits BAD nodes", "rule": "closest", "edits": [
        {"file": RT, "old": "class RoutingTable:\n",
         "new": "class _Usable:\n    def __init__(self, skip: Node | None) -> None:\n        self.skip = skip\n\n"
                "    def __call__(self, node: Node) -> bool:\n        return self.skip is None or node.id != self.skip.id\n\n\nclass RoutingTable:\n"},
        {"file": RT, "old": "                    nodes.update({node.id: node for node in list(bucket.nodes.values())\n                                  if node.status != NODE_STATUS_BAD and (exclude_node is None\n                                                                         or node.id != exclude_node.id)})\n",
         "new": "                    nodes.update({n.id: n for n in filter(_Usable(exclude_node), list(bucket.nodes.values()))})\n"}]},
    {"name": "pre-fix: closest_nodes collects its candidates in a set of Node objects (equality by public key)", "rule": "closest", "edits": [
        {"file": RT, "old": "            nodes: dict[bytes, Node] = {}\n", "new": "            nodes: set[Node] = set()\n"},
        {"file": RT, "old": "                    nodes.update({node.id: node for node in list(bucket.nodes.values())\n                                  if node.status != NODE_STATUS_BAD and (exclude_node is None\n                                                                         or node.id != exclude_node.id)})\n",
         "new": "                    nodes |= {node for node in list(bucket.nodes.values())\n                              if node.status != NODE_STATUS_BAD and (exclude_node is None\n                                                                     or node.id != exclude_node.id)}\n"},
        {"file": RT, "old": "return sorted(nodes.values(), key=", "new": "return sorted(nodes, key="}]},
    {"name": "update path rewrites the address of an entry found by peer identity (its node id changes under its key)", "file": RT, "rule": "bucket-insert",
     "old": "        if node.id in self.nodes:\n            curr_node = self.nodes[node.id]\n",
     "new": "        curr_node = self.nodes.get(node.id) or next((n for n in self.nodes.values() if n.mid == node.mid), None)\n        if curr_node is not None:\n"},
    {"name": "closest candidates keyed by the peer's mid instead of the node id", "file": RT, "rule": "closest",
     "old": "nodes.update({node.id: node for node in list(bucket.nodes.values())", "new": "nodes.update({node.mid: node for node in list(bucket.nodes.values())"},
    {"name": "closest candidates pass through an intermediate set of Node objects", "file": RT, "rule": "closest",
     "old": "nodes.update({node.id: node for node in list(bucket.nodes.values())", "new": "nodes.update({node.id: node for node in set(bucket.nodes.values())"},
    {"name": "closest leaves the excluded node out by Peer equality (public key) instead of by node id", "file": RT, "rule": "closest",
     "old": "if node.status != NODE_STATUS_BAD and (exclude_node is None\n                                                                         or node.id != exclude_node.id)})",
     "new": "if node.status != NODE_STATUS_BAD and node != exclude_node})"},
    {"name": "closest skips entries equal to the excluded node through a local alias (`skip = exclude_node`; `node == skip`)", "rule": "closest", "edits": [
        {"file": RT, "old": "            nodes: dict[bytes, Node] = {}\n", "new": "            nodes: dict[bytes, Node] = {}\n            skip = exclude_node\n"},
        {"file": RT, "old": "if node.status != NODE_STATUS_BAD and (exclude_node is None\n                                                                         or node.id != exclude_node.id)})",
         "new": "if node.status != NODE_STATUS_BAD and not (node == skip)})"}]},
]
