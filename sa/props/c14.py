"""C14 - The DHT routing table stays a valid Kademlia tree."""
from __future__ import annotations

import ast

from ..core import Ctx
from ..match import arg, call_name, calls, facts_at, local_defs, mentions, resolve, single_def, stores
from ..model import AnalysisError, FuncInfo, ancestors, chain, const_value, enclosing_stmt, norm, parent, strip_cast, walk_no_nested

LEVEL = "other"
EXPLANATION = (
    "Local guards from which the tree invariants follow by induction over add/split/remove: a node is stored in a bucket "
    "only under bucket.owns(node.id) and len(nodes) < max_size; split happens only under bucket.owns(my_node_id), stores "
    "prefix+'0' and prefix+'1' (from Bucket.split, which redistributes through owns) and deletes the parent before "
    "retrying; owns is a prefix test on the 160-bit binary id; closest_nodes walks the subtrees from the longest prefix "
    "outwards, leaves the walk only once it holds at least max_nodes live nodes, filters BAD nodes, sorts by XOR "
    "distance to the target and truncates; the refresh id is the bucket's prefix followed by 160-len(prefix) random "
    "bits (taint: the prefix characters, not just its length, flow into the result). Tree shape over long histories is "
    "not executed."
)

RT = "ipv8/dht/routing.py"


def rule_bucket(ctx: Ctx) -> None:
    repo = ctx.repo
    add = repo.method("Bucket", "add", RT)
    cfg = ctx.cfg(add)
    node = add.params()[1]
    sts = [s for s, t in stores(add, "self.nodes[]")]
    ctx.anchor(sts, "self.nodes[...] = node in Bucket.add")
    for s in sts:
        fs = facts_at(cfg, s)
        owns = any(f.op == "truthy" and f.pos and isinstance(f.left, ast.Call) and chain(f.left.func) == "self.owns" and norm(f.left.args[0]) == f"{node}.id" for f in fs)
        room = any(f.op == "lt" and f.pos and norm(f.left) == "len(self.nodes)" and norm(f.right) == "self.max_size" for f in fs)
        key = norm(s.targets[0].slice) == f"{node}.id" and chain(s.value) == node
        ctx.check(owns and room and key, "bucket-insert", add, s, "nodes[node.id] = node dominated by owns(node.id) and len(nodes) < max_size",
                  f"a node can be stored in a bucket that does not own its id or that is full (owns={owns} room={room} keyed_by_id={key})", [str(f) for f in fs])
    # the update branch changes the address only
    for s in walk_no_nested(add.node):
        if isinstance(s, ast.Assign) and isinstance(s.targets[0], ast.Attribute) and s.targets[0].attr not in ("last_changed", "bucket", "address") \
                and chain(s.targets[0]) != "self.nodes[]":
            ctx.check(False, "bucket-insert", add, s, "add only sets address/last_changed/bucket", "Bucket.add rewrites an unexpected attribute")
    owns = repo.method("Bucket", "owns", RT)
    rets = [r for r in walk_no_nested(owns.node) if isinstance(r, ast.Return)]
    ok = len(rets) == 1 and isinstance(rets[0].value, ast.Call) and call_name(rets[0].value) == "startswith" and norm(arg(rets[0].value, 0)) == "self.prefix_id" \
        and norm(resolve(owns, rets[0].value.func.value)) == f"id_to_binary_string({owns.params()[1]})"
    ctx.check(ok, "bucket-insert", owns, owns.node, "owns(id) = binary(id).startswith(prefix_id)", "bucket ownership is no longer the prefix test on the binary id")
    ib = repo.func(RT, "id_to_binary_string")
    rets = [r for r in walk_no_nested(ib.node) if isinstance(r, ast.Return)]
    ok = len(rets) == 1 and norm(rets[0].value) == f"format(int(binascii.hexlify({ib.params()[0]}), 16), '0160b')"
    ctx.check(ok, "bucket-insert", ib, ib.node, "binary id = 160-bit zero-padded big-endian", "id_to_binary_string is no longer the 160-bit big-endian rendering")
    # removal from a bucket only of BAD nodes / slow nodes when full; pops are keyed by the node's own id
    for c in calls(add, "self.nodes.pop"):
        fs = facts_at(cfg, c)
        full = any(f.op == "lt" and not f.pos and norm(f.left) == "len(self.nodes)" and norm(f.right) == "self.max_size" for f in fs)
        ctx.check(full and norm(arg(c, 0)) == "n.id", "bucket-insert", add, c, "eviction only when the bucket is full, keyed by the evicted node's id",
                  "nodes are evicted from a bucket that is not full")


def rule_split(ctx: Ctx) -> None:
    repo = ctx.repo
    add = repo.method("RoutingTable", "add", RT)
    cfg = ctx.cfg(add)
    node = add.params()[1]
    sp = ctx.anchor([c for c in calls(add) if call_name(c) == "split"], "bucket.split() in RoutingTable.add")
    for c in sp:
        fs = facts_at(cfg, c)
        b = chain(c.func.value)
        own = any(f.op == "truthy" and f.pos and isinstance(f.left, ast.Call) and chain(f.left.func) == f"{b}.owns" and norm(f.left.args[0]) == "self.my_node_id" for f in fs)
        failed = any(f.op == "truthy" and not f.pos and isinstance(f.left, ast.Call) and chain(f.left.func) == f"{b}.add" for f in fs)
        d = single_def(add, b)
        src = d is not None and norm(d[0]) == f"self.get_bucket({node}.id)"
        ctx.check(own and failed and src, "split-own-path", add, c, "split only when adding failed and the bucket owns our own id",
                  "a bucket that is not on the path of our own identifier can be split", [str(f) for f in fs])
    sts = {norm(s.targets[0].slice): norm(s.value) for s, t in stores(add, "self.trie[]") if isinstance(s, ast.Assign)}
    dels = [norm(t.slice) for s in walk_no_nested(add.node) if isinstance(s, ast.Delete) for t in s.targets if chain(t) == "self.trie[]"]
    # which variable is which half
    tup = [s for s in walk_no_nested(add.node) if isinstance(s, ast.Assign) and isinstance(s.targets[0], ast.Tuple) and len(s.targets[0].elts) == 2
           and isinstance(resolve(add, s.value), ast.Call) and call_name(resolve(add, s.value)) == "split"]
    ok = bool(tup)
    if ok:
        v0, v1 = (e.id for e in tup[0].targets[0].elts)
        ok = sts == {"bucket.prefix_id + '0'": v0, "bucket.prefix_id + '1'": v1} and dels == ["bucket.prefix_id"]
    ctx.check(ok, "split-partition", add, add.node, "split stores prefix+'0' -> first half, prefix+'1' -> second half and deletes prefix",
              f"after a split the tree is not the two children replacing the parent: stores={sts} deletes={dels}")
    # retry after split; None when split impossible
    retry = [c for c in calls(add, "self.add") if norm(arg(c, 0)) == node]
    ctx.check(bool(retry), "split-partition", add, add.node, "insertion retried after the split", "the node that triggered the split is not inserted afterwards")
    # children are placed before the parent is deleted (so ids stay covered)
    if ok:
        dn = [n for s in walk_no_nested(add.node) if isinstance(s, ast.Delete) for n in cfg.nodes_for(s)]
        stn = [n for s, t in stores(add, "self.trie[]") if isinstance(s, ast.Assign) for n in cfg.nodes_for(s)]
        ctx.check(all(cfg.must_complete(d, [x]) for d in dn for x in stn), "split-partition", add, add.node,
                  "both children stored before the parent is deleted", "the parent bucket is deleted before its children exist")
    sf = repo.method("Bucket", "split", RT)
    bs = {}
    for s in walk_no_nested(sf.node):
        if isinstance(s, ast.Assign) and isinstance(s.value, ast.Call) and chain(s.value.func) == "Bucket":
            bs[s.targets[0].id] = (norm(arg(s.value, 0)), norm(arg(s.value, 1)))
    rets = [r for r in walk_no_nested(sf.node) if isinstance(r, ast.Return) and isinstance(r.value, ast.Tuple)]
    ok = len(bs) == 2 and len(rets) == 1
    if ok:
        n0, n1 = (norm(e) for e in rets[0].value.elts)
        ok = bs.get(n0) == ("self.prefix_id + '0'", "self.max_size") and bs.get(n1) == ("self.prefix_id + '1'", "self.max_size")
    ctx.check(ok, "split-partition", sf, sf.node, "Bucket.split returns (prefix+'0', prefix+'1') children of the same capacity",
              f"Bucket.split children are {bs}")
    cfgs = ctx.cfg(sf)
    for c in [c for c in calls(sf) if call_name(c) == "add"]:
        fs = facts_at(cfgs, c)
        b = chain(c.func.value)
        ok = any(f.op == "truthy" and f.pos and isinstance(f.left, ast.Call) and chain(f.left.func) == f"{b}.owns" for f in fs)
        ctx.check(ok, "split-partition", sf, c, f"node moved to {b} only if {b}.owns(node.id)", "split redistributes a node into a child that does not own it")
    loop = [l for l in walk_no_nested(sf.node) if isinstance(l, ast.For)]
    ok = bool(loop) and norm(loop[0].iter) == "list(self.nodes.values())" and not any(isinstance(x, (ast.Break, ast.Return)) for x in ast.walk(loop[0]))
    ctx.check(ok, "split-partition", sf, sf.node, "every node of the parent is redistributed", "split can lose nodes of the parent bucket")
    gb = repo.method("RoutingTable", "get_bucket", RT)
    rets = [r for r in walk_no_nested(gb.node) if isinstance(r, ast.Return)]
    ok = len(rets) == 1 and "self.trie.longest_prefix_value(" in norm(rets[0].value) and norm(resolve(gb, arg([c for c in calls(gb) if call_name(c) == "longest_prefix_value"][0], 0))) == f"id_to_binary_string({gb.params()[1]})"
    ctx.check(ok, "bucket-insert", gb, gb.node, "get_bucket = bucket of the longest matching prefix of the binary id", "get_bucket no longer selects by longest prefix")
    # who else writes the trie / bucket.nodes
    for m, fi, a in repo.attribute_uses("trie"):
        p = parent(a)
        if isinstance(p, ast.Subscript) and isinstance(p.ctx, (ast.Store, ast.Del)) and fi is not None:
            ctx.check(fi.qualname in ("RoutingTable.add", "RoutingTable.__init__"), "split-partition", fi, enclosing_stmt(a),
                      f"trie written in {fi.qualname}", "the bucket tree is rewritten outside RoutingTable.add")
    rb = repo.method("RoutingTable", "remove_bad_nodes", RT)
    cfgr = ctx.cfg(rb)
    for c in [c for c in calls(rb) if call_name(c) == "pop"]:
        fs = facts_at(cfgr, c)
        ok = any(f.op == "eq" and f.pos and norm(f.left) == "node.status" and norm(f.right) == "NODE_STATUS_BAD" for f in fs)
        ctx.check(ok, "bucket-insert", rb, c, "only BAD nodes are removed", "remove_bad_nodes removes nodes that are not BAD")


def rule_closest(ctx: Ctx) -> None:
    repo = ctx.repo
    fi = repo.method("RoutingTable", "closest_nodes", RT)
    cfg = ctx.cfg(fi)
    target, k = fi.params()[1], fi.params()[2]
    rets = [r for r in walk_no_nested(fi.node) if isinstance(r, ast.Return)]
    ok = False
    if len(rets) == 1 and isinstance(rets[0].value, ast.Subscript) and isinstance(rets[0].value.slice, ast.Slice):
        sl = rets[0].value
        srt = sl.value
        if sl.slice.lower is None and norm(sl.slice.upper) == k and isinstance(srt, ast.Call) and chain(srt.func) == "sorted" and not arg(srt, None, "reverse"):
            key = arg(srt, None, "key")
            if isinstance(key, ast.Lambda):
                body = key.body
                first = body.elts[0] if isinstance(body, ast.Tuple) else body
                ok = norm(first) in (f"distance({key.args.args[0].arg}.id, {target})", f"distance({target}, {key.args.args[0].arg}.id)")
    ctx.check(ok, "closest", fi, rets[0] if rets else fi.node, "result = sorted(nodes, key=XOR distance to the target first)[:max_nodes]",
              "closest_nodes does not return the max_nodes nearest by XOR distance to the target, nearest first")
    dist = repo.func(RT, "distance")
    r = [x for x in walk_no_nested(dist.node) if isinstance(x, ast.Return)]
    ok = len(r) == 1 and isinstance(r[0].value, ast.BinOp) and isinstance(r[0].value.op, ast.BitXor)
    ctx.check(ok, "closest", dist, dist.node, "distance is XOR of the ids as integers", "distance is no longer the XOR metric")
    # candidate set: live nodes only
    comps = [c for c in ast.walk(fi.node) if isinstance(c, ast.SetComp)]
    ok = bool(comps) and any("node.status != NODE_STATUS_BAD" in norm(i) for c in comps for g in c.generators for i in g.ifs)
    ctx.check(ok, "closest", fi, fi.node, "candidates exclude BAD nodes", "closest_nodes can return nodes whose status is BAD")
    # the walk: i from len(prefix) down to 0, all suffixes of prefix[:i]; break only with >= max_nodes collected
    loops = [l for l in walk_no_nested(fi.node) if isinstance(l, ast.For)]
    outer = [l for l in loops if norm(l.iter) == "reversed(range(len(prefix) + 1))"]
    ctx.check(len(outer) == 1, "closest", fi, fi.node, "walk from the longest prefix outwards to the root", "the subtree walk does not go from the longest prefix to the root")
    if outer:
        inner = [l for l in ast.walk(outer[0]) if isinstance(l, ast.For) and l is not outer[0]]
        iv = norm(outer[0].target)
        ok = len(inner) == 1 and norm(inner[0].iter) == f"self.trie.suffixes(prefix[:{iv}])" and \
            any(norm(s.value) == f"self.trie[prefix[:{iv}] + {norm(inner[0].target)}]" for s in ast.walk(inner[0]) if isinstance(s, ast.Assign))
        ctx.check(ok, "closest", fi, outer[0], "each level takes every bucket below prefix[:i]", "a level of the walk does not cover the whole subtree")
        for b in [b for b in ast.walk(outer[0]) if isinstance(b, ast.Break)]:
            fs = facts_at(cfg, b)
            ok = any(f.op == "lt" and ((f.pos and norm(f.left) == k and norm(f.right) == "len(nodes)") or
                                       (not f.pos and norm(f.left) == "len(nodes)" and norm(f.right) == k)) for f in fs)
            in_inner = any(isinstance(a, ast.For) and a is not outer[0] for a in ancestors(b) if a in list(ast.walk(outer[0])))
            ctx.check(ok and not in_inner, "closest", fi, b, "the walk stops only after a complete level and with >= max_nodes candidates",
                      "the walk can stop with fewer than max_nodes candidates or in the middle of a subtree: the result is not the k closest", [str(f) for f in fs])
    d = single_def(fi, "prefix")
    ok = d is not None and isinstance(strip_cast(d[0]), ast.Call) and chain(strip_cast(d[0]).func) == "self.trie.longest_prefix" \
        and norm(resolve(fi, arg(strip_cast(d[0]), 0))) == f"id_to_binary_string({target})"
    ctx.check(ok, "closest", fi, fi.node, "walk starts at the longest known prefix of the target", "the walk does not start at the target's own bucket")


def rule_refresh_id(ctx: Ctx) -> None:
    repo = ctx.repo
    fi = repo.method("Bucket", "generate_id", RT)
    rets = [r for r in walk_no_nested(fi.node) if isinstance(r, ast.Return)]
    ctx.anchor(rets, "return in generate_id")

    def expand(e: ast.AST, depth: int = 6) -> ast.AST:
        """Inline single-assignment locals (copying the tree)."""
        class T(ast.NodeTransformer):
            def visit_Name(self, n):
                if depth > 0 and isinstance(n.ctx, ast.Load):
                    d = single_def(fi, n.id)
                    if d is not None and d[1] is None:
                        return expand(d[0], depth - 1)
                return n
        import copy
        return T().visit(copy.deepcopy(e))

    for r in rets:
        full = expand(r.value)
        # occurrences of self.prefix_id that are not under len(...)
        data_uses = []
        for n in ast.walk(full):
            for ch in ast.iter_child_nodes(n):
                ch._p = n  # type: ignore[attr-defined]
        for n in ast.walk(full):
            if isinstance(n, ast.Attribute) and chain(n) == "self.prefix_id":
                p = getattr(n, "_p", None)
                under_len = isinstance(p, ast.Call) and chain(p.func) == "len"
                if not under_len:
                    data_uses.append(n)
        ok = bool(data_uses)
        ctx.check(ok, "refresh-id-in-bucket", fi, r, "the bucket's prefix characters flow into the generated id",
                  "generate_id depends on the prefix only through len(self.prefix_id): the refresh id does not lie inside the bucket (it starts with zero bits)")
        if ok:
            # prefix must be the leading part of the binary string handed to int(.., 2)
            lead_ok = False
            for n in ast.walk(full):
                if isinstance(n, ast.Call) and chain(n.func) == "int" and len(n.args) == 2 and const_value(n.args[1]) == 2:
                    s = n.args[0]
                    while isinstance(s, ast.BinOp) and isinstance(s.op, ast.Add):
                        s = s.left
                    if chain(s) == "self.prefix_id":
                        lead_ok = True
            ctx.check(lead_ok, "refresh-id-in-bucket", fi, r, "prefix is the leading part of the binary id", "the prefix is not the leading bits of the generated id")
            # random part is exactly 160 - len(prefix) bits
            rnd = [n for n in ast.walk(full) if isinstance(n, ast.Call) and (chain(n.func) or "").startswith("random.")]
            w_ok = False
            for c in rnd:
                if call_name(c) == "getrandbits" and norm(c.args[0]).replace(" ", "") == "160-len(self.prefix_id)":
                    w_ok = True
                if call_name(c) == "randint" and norm(c.args[0]) == "0" and norm(c.args[1]).replace(" ", "") in ("2**(160-len(self.prefix_id))-1",):
                    w_ok = True
            ctx.check(w_ok, "refresh-id-in-bucket", fi, r, "random part is 160 - len(prefix) bits wide", "the random part of the refresh id does not have 160-len(prefix) bits")
            hexok = any(isinstance(n, ast.Call) and chain(n.func) == "format" and const_value(n.args[1]) in ("040X", "040x") for n in ast.walk(full))
            ctx.check(hexok, "refresh-id-in-bucket", fi, r, "id rendered as 20 bytes", "the generated id is not 20 bytes")


def run(ctx: Ctx) -> None:
    rule_bucket(ctx)
    rule_split(ctx)
    rule_closest(ctx)
    rule_refresh_id(ctx)
    ctx.assume("induction argument: (1) every insert satisfies owns and capacity, (2) split replaces a leaf by its two children whose prefixes partition the parent's, "
               "(3) nothing else writes the trie => buckets stay a prefix-free complete cover and each node sits in its owner; nodes in the subtree of a longer common "
               "prefix are XOR-closer than nodes outside it => the walk is exact once a complete level holds >= k live nodes")
    ctx.assume("Trie (dht/trie.py) implements longest-prefix / suffixes / delete correctly: covered by its unit tests, not by this analysis")


WITNESSES = [
    {"name": "pre-fix: refresh id ignores prefix", "file": RT, "rule": "refresh-id-in-bucket",
     "old": "        rand_node_id_bin = self.prefix_id + suffix\n", "new": "        rand_node_id_bin = \"0\" * len(self.prefix_id) + suffix\n"},
    {"name": "refresh id random part too wide", "file": RT, "rule": "refresh-id-in-bucket",
     "old": "        suffix = format(random.getrandbits(suffix_length), f\"0{suffix_length}b\") if suffix_length else \"\"",
     "new": "        suffix = format(random.getrandbits(160), f\"0{suffix_length}b\") if suffix_length else \"\""},
    {"name": "insert without ownership check", "file": RT, "rule": "bucket-insert",
     "old": "        if not self.owns(node.id):\n            return False\n\n        # Update existing node", "new": "        # Update existing node"},
    {"name": "insert into full bucket", "file": RT, "rule": "bucket-insert",
     "old": "        if len(self.nodes) < self.max_size:\n            self.nodes[node.id] = node", "new": "        if len(self.nodes) <= self.max_size:\n            self.nodes[node.id] = node"},
    {"name": "split any bucket", "file": RT, "rule": "split-own-path",
     "old": "                if bucket.owns(self.my_node_id):\n                    split = bucket.split()", "new": "                if bucket.owns(node.id):\n                    split = bucket.split()"},
    {"name": "children swapped after split", "file": RT, "rule": "split-partition",
     "old": "                    self.trie[bucket.prefix_id + \"0\"] = bucket_0\n                    self.trie[bucket.prefix_id + \"1\"] = bucket_1",
     "new": "                    self.trie[bucket.prefix_id + \"0\"] = bucket_1\n                    self.trie[bucket.prefix_id + \"1\"] = bucket_0"},
    {"name": "parent kept after split", "file": RT, "rule": "split-partition",
     "old": "                    del self.trie[bucket.prefix_id]\n", "new": ""},
    {"name": "split drops unplaceable nodes silently into b_0", "file": RT, "rule": "split-partition",
     "old": "            if b_0.owns(node.id):\n                b_0.add(node)\n            elif b_1.owns(node.id):\n                b_1.add(node)",
     "new": "            if b_1.owns(node.id):\n                b_1.add(node)\n            elif True:\n                b_0.add(node)"},
    {"name": "closest sorted by status first", "file": RT, "rule": "closest",
     "old": "key=lambda n: (distance(n.id, node_id), n.status)", "new": "key=lambda n: (n.status, distance(n.id, node_id))"},
    {"name": "closest walk stops early", "file": RT, "rule": "closest",
     "old": "                if len(nodes) > max_nodes:\n                    break", "new": "                if len(nodes) > max_nodes // 2:\n                    break"},
    {"name": "closest includes bad nodes", "file": RT, "rule": "closest",
     "old": "if node.status != NODE_STATUS_BAD and (exclude_node is None", "new": "if node.status is not None and (exclude_node is None"},
    {"name": "closest not truncated", "file": RT, "rule": "closest",
     "old": "n.status))[:max_nodes]", "new": "n.status))"},
    {"name": "distance is subtraction", "file": RT, "rule": "closest",
     "old": "return int(binascii.hexlify(a), 16) ^ int(binascii.hexlify(b), 16)", "new": "return abs(int(binascii.hexlify(a), 16) - int(binascii.hexlify(b), 16))"},
]
