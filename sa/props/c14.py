"""C14 - The DHT routing table stays a valid Kademlia tree."""
from __future__ import annotations

import ast

from ..core import Ctx
from ..match import Fact, _atoms_with_polarity, arg, call_name, calls, facts_at, local_defs, mentions, resolve, single_def, stores
from ..model import AnalysisError, FuncInfo, ancestors, chain, const_value, enclosing_stmt, norm, parent, strip_cast, walk_no_nested

LEVEL = "other"
EXPLANATION = (
    "Local guards from which the tree invariants follow by induction over add/split/remove: a node is stored in a bucket "
    "only under bucket.owns(node.id) and len(nodes) < max_size; split happens only under bucket.owns(my_node_id), stores "
    "prefix+'0' and prefix+'1' (from Bucket.split, which redistributes through owns) and deletes the parent before "
    "retrying; owns is a prefix test on the 160-bit binary id; closest_nodes walks the subtrees from the longest prefix "
    "outwards, leaves the walk only once it holds at least max_nodes live nodes, filters BAD nodes, sorts by XOR "
    "distance to the target and truncates; the refresh id is the bucket's prefix followed by 160-len(prefix) random "
    "bits (taint: the prefix characters, not just its length, flow into the result). Tree shape over long histories is "
    "not executed."
)

RT = "ipv8/dht/routing.py"

_COMPS = (ast.ListComp, ast.SetComp, ast.GeneratorExp)


# ----------------------------------------------------------------------------------- helpers
def _copy(e):
    """Copy of the syntax fields only.  (copy.deepcopy would follow the engine's `_parent` back-links and copy the whole
    module, deep enough to exhaust the recursion limit.)"""
    if isinstance(e, ast.AST):
        new = e.__class__()
        for f, v in ast.iter_fields(e):
            setattr(new, f, _copy(v))
        return new
    if isinstance(e, list):
        return [_copy(x) for x in e]
    return e


def _expand(fi: FuncInfo, e: ast.AST, stop=(), depth: int = 6) -> ast.AST:
    """Copy of e with single-assignment locals (not in `stop`) replaced by their defining expression."""
    class T(ast.NodeTransformer):
        def visit_Name(self, n):
            if depth > 0 and isinstance(n.ctx, ast.Load) and n.id not in stop:
                d = single_def(fi, n.id)
                if d is not None and d[1] is None:
                    return _expand(fi, strip_cast(d[0]), stop, depth - 1)
            return n
    return T().visit(_copy(e))


def _xnorm(fi: FuncInfo, e: ast.AST, stop=()) -> str:
    return norm(_expand(fi, e, stop))


def _names_shape(e: ast.AST):
    """Name structure of a (possibly nested tuple) binding target / identity element, None if anything else."""
    if isinstance(e, ast.Name):
        return e.id
    if isinstance(e, (ast.Tuple, ast.List)):
        parts = [_names_shape(x) for x in e.elts]
        return None if any(p is None for p in parts) else tuple(parts)
    return None


def _strip_snapshot(e: ast.AST) -> ast.AST:
    """list(x) / tuple(x) of one positional argument keep the elements and their order."""
    while isinstance(e, ast.Call) and isinstance(e.func, ast.Name) and e.func.id in ("list", "tuple") and len(e.args) == 1 and not e.keywords \
            and not isinstance(e.args[0], ast.Starred):
        e = e.args[0]
    return e


def _comp_filter_facts(comp: ast.AST, names: set[str]) -> list[Fact]:
    """Facts that hold for every element produced by a comprehension: the atoms of its `if` clauses, taken from the
    generator that binds (one of) `names` onwards - an earlier clause would speak about an outer variable of that name."""
    out: list[Fact] = []
    bound = False
    for g in comp.generators:
        if g.is_async:
            return []
        if names & {n.id for n in ast.walk(g.target) if isinstance(n, ast.Name)}:
            bound = True
        if bound:
            for i in g.ifs:
                out.extend(_atoms_with_polarity(i, True))
    return out


def _loop_filter_facts(fi: FuncInfo, site: ast.AST) -> list[Fact]:
    """`for T in [T for T in src if C]` (the list possibly held in a single-assignment local): C holds for T in the body.
    Only identity comprehensions whose element has the same name structure as the loop target are used."""
    out: list[Fact] = []
    for a in ancestors(site):
        if a is fi.node:
            break
        if not isinstance(a, ast.For):
            continue
        it = _strip_snapshot(resolve(fi, _strip_snapshot(a.iter)))
        if not isinstance(it, _COMPS):
            continue
        shape = _names_shape(a.target)
        if shape is None or _names_shape(it.elt) != shape:
            continue
        names = {n.id for n in ast.walk(a.target) if isinstance(n, ast.Name)}
        # the element is the generator's own target (identity), so the filter speaks about the loop variable
        if not any(_names_shape(g.target) == shape for g in it.generators):
            continue
        out.extend(_comp_filter_facts(it, names))
    return out


def _status_cmp(f: Fact, var: str) -> bool:
    """f compares <var>.status with NODE_STATUS_BAD (either side)."""
    return f.op == "eq" and {norm(f.left), norm(f.right)} == {f"{var}.status", "NODE_STATUS_BAD"}


def _writes_status(fi: FuncInfo) -> bool:
    return any(isinstance(n, ast.Attribute) and n.attr == "status" and isinstance(n.ctx, (ast.Store, ast.Del)) for n in ast.walk(fi.node))


def rule_bucket(ctx: Ctx) -> None:
    repo = ctx.repo
    add = repo.method("Bucket", "add", RT)
    cfg = ctx.cfg(add)
    node = add.params()[1]
    sts = [s for s, t in stores(add, "self.nodes[]")]
    ctx.anchor(sts, "self.nodes[...] = node in Bucket.add")
    for s in sts:
        fs = facts_at(cfg, s)
        owns = any(f.op == "truthy" and f.pos and isinstance(f.left, ast.Call) and chain(f.left.func) == "self.owns" and norm(f.left.args[0]) == f"{node}.id" for f in fs)
        room = any(f.op == "lt" and f.pos and norm(f.left) == "len(self.nodes)" and norm(f.right) == "self.max_size" for f in fs)
        key = norm(s.targets[0].slice) == f"{node}.id" and chain(s.value) == node
        ctx.check(owns and room and key, "bucket-insert", add, s, "nodes[node.id] = node dominated by owns(node.id) and len(nodes) < max_size",
                  f"a node can be stored in a bucket that does not own its id or that is full (owns={owns} room={room} keyed_by_id={key})", [str(f) for f in fs])
    # the update branch changes the address only
    for s in walk_no_nested(add.node):
        if isinstance(s, ast.Assign) and isinstance(s.targets[0], ast.Attribute) and s.targets[0].attr not in ("last_changed", "bucket", "address") \
                and chain(s.targets[0]) != "self.nodes[]":
            ctx.check(False, "bucket-insert", add, s, "add only sets address/last_changed/bucket", "Bucket.add rewrites an unexpected attribute")
    owns = repo.method("Bucket", "owns", RT)
    rets = [r for r in walk_no_nested(owns.node) if isinstance(r, ast.Return)]
    ok = len(rets) == 1 and isinstance(rets[0].value, ast.Call) and call_name(rets[0].value) == "startswith" and norm(arg(rets[0].value, 0)) == "self.prefix_id" \
        and norm(resolve(owns, rets[0].value.func.value)) == f"id_to_binary_string({owns.params()[1]})"
    ctx.check(ok, "bucket-insert", owns, owns.node, "owns(id) = binary(id).startswith(prefix_id)", "bucket ownership is no longer the prefix test on the binary id")
    ib = repo.func(RT, "id_to_binary_string")
    rets = [r for r in walk_no_nested(ib.node) if isinstance(r, ast.Return)]
    ok = len(rets) == 1 and norm(rets[0].value) == f"format(int(binascii.hexlify({ib.params()[0]}), 16), '0160b')"
    ctx.check(ok, "bucket-insert", ib, ib.node, "binary id = 160-bit zero-padded big-endian", "id_to_binary_string is no longer the 160-bit big-endian rendering")
    # removal from a bucket only of BAD nodes / slow nodes when full; pops are keyed by the node's own id
    for c in calls(add, "self.nodes.pop"):
        fs = facts_at(cfg, c)
        full = any(f.op == "lt" and not f.pos and norm(f.left) == "len(self.nodes)" and norm(f.right) == "self.max_size" for f in fs)
        ctx.check(full and norm(arg(c, 0)) == "n.id", "bucket-insert", add, c, "eviction only when the bucket is full, keyed by the evicted node's id",
                  "nodes are evicted from a bucket that is not full")


def rule_split(ctx: Ctx) -> None:
    repo = ctx.repo
    add = repo.method("RoutingTable", "add", RT)
    cfg = ctx.cfg(add)
    node = add.params()[1]
    sp = ctx.anchor([c for c in calls(add) if call_name(c) == "split"], "bucket.split() in RoutingTable.add")
    for c in sp:
        fs = facts_at(cfg, c)
        b = chain(c.func.value)
        own = any(f.op == "truthy" and f.pos and isinstance(f.left, ast.Call) and chain(f.left.func) == f"{b}.owns" and norm(f.left.args[0]) == "self.my_node_id" for f in fs)
        failed = any(f.op == "truthy" and not f.pos and isinstance(f.left, ast.Call) and chain(f.left.func) == f"{b}.add" for f in fs)
        d = single_def(add, b)
        src = d is not None and norm(d[0]) == f"self.get_bucket({node}.id)"
        ctx.check(own and failed and src, "split-own-path", add, c, "split only when adding failed and the bucket owns our own id",
                  "a bucket that is not on the path of our own identifier can be split", [str(f) for f in fs])
    sts = {norm(s.targets[0].slice): norm(s.value) for s, t in stores(add, "self.trie[]") if isinstance(s, ast.Assign)}
    dels = [norm(t.slice) for s in walk_no_nested(add.node) if isinstance(s, ast.Delete) for t in s.targets if chain(t) == "self.trie[]"]
    # which variable is which half
    tup = [s for s in walk_no_nested(add.node) if isinstance(s, ast.Assign) and isinstance(s.targets[0], ast.Tuple) and len(s.targets[0].elts) == 2
           and isinstance(resolve(add, s.value), ast.Call) and call_name(resolve(add, s.value)) == "split"]
    ok = bool(tup)
    if ok:
        v0, v1 = (e.id for e in tup[0].targets[0].elts)
        ok = sts == {"bucket.prefix_id + '0'": v0, "bucket.prefix_id + '1'": v1} and dels == ["bucket.prefix_id"]
    ctx.check(ok, "split-partition", add, add.node, "split stores prefix+'0' -> first half, prefix+'1' -> second half and deletes prefix",
              f"after a split the tree is not the two children replacing the parent: stores={sts} deletes={dels}")
    # retry after split; None when split impossible
    retry = [c for c in calls(add, "self.add") if norm(arg(c, 0)) == node]
    ctx.check(bool(retry), "split-partition", add, add.node, "insertion retried after the split", "the node that triggered the split is not inserted afterwards")
    # children are placed before the parent is deleted (so ids stay covered)
    if ok:
        dn = [n for s in walk_no_nested(add.node) if isinstance(s, ast.Delete) for n in cfg.nodes_for(s)]
        stn = [n for s, t in stores(add, "self.trie[]") if isinstance(s, ast.Assign) for n in cfg.nodes_for(s)]
        ctx.check(all(cfg.must_complete(d, [x]) for d in dn for x in stn), "split-partition", add, add.node,
                  "both children stored before the parent is deleted", "the parent bucket is deleted before its children exist")
    sf = repo.method("Bucket", "split", RT)
    bs = {}
    for s in walk_no_nested(sf.node):
        if isinstance(s, ast.Assign) and isinstance(s.value, ast.Call) and chain(s.value.func) == "Bucket":
            bs[s.targets[0].id] = (norm(arg(s.value, 0)), norm(arg(s.value, 1)))
    rets = [r for r in walk_no_nested(sf.node) if isinstance(r, ast.Return) and isinstance(r.value, ast.Tuple)]
    ok = len(bs) == 2 and len(rets) == 1
    if ok:
        n0, n1 = (norm(e) for e in rets[0].value.elts)
        ok = bs.get(n0) == ("self.prefix_id + '0'", "self.max_size") and bs.get(n1) == ("self.prefix_id + '1'", "self.max_size")
    ctx.check(ok, "split-partition", sf, sf.node, "Bucket.split returns (prefix+'0', prefix+'1') children of the same capacity",
              f"Bucket.split children are {bs}")
    cfgs = ctx.cfg(sf)
    for c in [c for c in calls(sf) if call_name(c) == "add"]:
        fs = facts_at(cfgs, c)
        b = chain(c.func.value)
        ok = any(f.op == "truthy" and f.pos and isinstance(f.left, ast.Call) and chain(f.left.func) == f"{b}.owns" for f in fs)
        ctx.check(ok, "split-partition", sf, c, f"node moved to {b} only if {b}.owns(node.id)", "split redistributes a node into a child that does not own it")
    loop = [l for l in walk_no_nested(sf.node) if isinstance(l, ast.For)]
    ok = bool(loop) and norm(loop[0].iter) == "list(self.nodes.values())" and not any(isinstance(x, (ast.Break, ast.Return)) for x in ast.walk(loop[0]))
    ctx.check(ok, "split-partition", sf, sf.node, "every node of the parent is redistributed", "split can lose nodes of the parent bucket")
    gb = repo.method("RoutingTable", "get_bucket", RT)
    rets = [r for r in walk_no_nested(gb.node) if isinstance(r, ast.Return)]
    ok = len(rets) == 1 and "self.trie.longest_prefix_value(" in norm(rets[0].value) and norm(resolve(gb, arg([c for c in calls(gb) if call_name(c) == "longest_prefix_value"][0], 0))) == f"id_to_binary_string({gb.params()[1]})"
    ctx.check(ok, "bucket-insert", gb, gb.node, "get_bucket = bucket of the longest matching prefix of the binary id", "get_bucket no longer selects by longest prefix")
    # who else writes the trie / bucket.nodes
    for m, fi, a in repo.attribute_uses("trie"):
        p = parent(a)
        if isinstance(p, ast.Subscript) and isinstance(p.ctx, (ast.Store, ast.Del)) and fi is not None:
            ctx.check(fi.qualname in ("RoutingTable.add", "RoutingTable.__init__"), "split-partition", fi, enclosing_stmt(a),
                      f"trie written in {fi.qualname}", "the bucket tree is rewritten outside RoutingTable.add")
    rb = repo.method("RoutingTable", "remove_bad_nodes", RT)
    cfgr = ctx.cfg(rb)
    for c in [c for c in calls(rb) if call_name(c) == "pop"]:
        # guard in the loop body, or the loop runs over a list that was filtered by the guard (collect first, pop afterwards:
        # same nodes, same order; the status is not written in between)
        fs = facts_at(cfgr, c) + ([] if _writes_status(rb) else _loop_filter_facts(rb, c))
        ok = any(f.pos and _status_cmp(f, "node") for f in fs)
        ctx.check(ok, "bucket-insert", rb, c, "only BAD nodes are removed", "remove_bad_nodes removes nodes that are not BAD", [str(f) for f in fs])


def _live_collection(e: ast.AST) -> bool:
    """A comprehension (possibly wrapped in set()/list()/frozenset()) whose elements are its own loop variable filtered by
    <var>.status != NODE_STATUS_BAD."""
    while isinstance(e, ast.Call) and isinstance(e.func, ast.Name) and e.func.id in ("set", "frozenset", "list", "tuple") and len(e.args) == 1 \
            and not e.keywords and not isinstance(e.args[0], ast.Starred):
        e = e.args[0]
    if not isinstance(e, _COMPS) or not isinstance(e.elt, ast.Name):
        return False
    var = e.elt.id
    if not any(var in {n.id for n in ast.walk(g.target) if isinstance(n, ast.Name)} for g in e.generators):
        return False
    return any(_status_cmp(f, var) and not f.pos for f in _comp_filter_facts(e, {var}))


def _empty_set(e: ast.AST) -> bool:
    return isinstance(e, ast.Call) and isinstance(e.func, ast.Name) and e.func.id == "set" and not e.keywords and \
        (not e.args or (len(e.args) == 1 and isinstance(e.args[0], (ast.List, ast.Tuple)) and not e.args[0].elts))


def _additions(fi: FuncInfo, cfg, coll: str) -> list[tuple[ast.AST, bool]]:
    """Every statement / call that can put elements into the local collection `coll`, with 'only live nodes' decided."""
    out: list[tuple[ast.AST, bool]] = []

    def union_ok(v: ast.AST) -> bool:
        if isinstance(v, ast.Name) and v.id == coll:
            return True
        if isinstance(v, ast.BinOp) and isinstance(v.op, ast.BitOr):
            return union_ok(v.left) and union_ok(v.right)
        return _live_collection(resolve(fi, v))

    for st, _val, _idx in local_defs(fi, coll):
        if not isinstance(st, (ast.Assign, ast.AnnAssign, ast.AugAssign)):
            out.append((st, False))                                       # bound by for / with / walrus / except: not followed
    for n in walk_no_nested(fi.node):
        if isinstance(n, ast.AugAssign) and isinstance(n.target, ast.Name) and n.target.id == coll:
            if isinstance(n.op, (ast.BitAnd, ast.Sub)):
                continue                                                  # can only shrink
            out.append((n, isinstance(n.op, ast.BitOr) and union_ok(n.value)))
        elif isinstance(n, (ast.Assign, ast.AnnAssign)) and n.value is not None:
            tg = n.targets if isinstance(n, ast.Assign) else [n.target]
            if any(isinstance(t, ast.Name) and t.id == coll for t in tg):
                if _empty_set(n.value):
                    continue
                out.append((n, union_ok(n.value)))
            elif any(coll in {x.id for x in ast.walk(t) if isinstance(x, ast.Name) and isinstance(x.ctx, ast.Store)} for t in tg):
                out.append((n, False))                                    # bound through unpacking: not followed
        elif isinstance(n, ast.Call) and isinstance(n.func, ast.Attribute) and isinstance(n.func.value, ast.Name) and n.func.value.id == coll:
            if n.func.attr == "add" and len(n.args) == 1:
                x = n.args[0]
                fs = facts_at(cfg, n) + ([] if _writes_status(fi) else _loop_filter_facts(fi, n))
                out.append((n, isinstance(x, ast.Name) and any(_status_cmp(f, x.id) and not f.pos for f in fs)))
            elif n.func.attr in ("update", "extend", "append", "insert", "symmetric_difference_update", "__ior__"):
                out.append((n, n.func.attr == "update" and not n.keywords and all(_live_collection(resolve(fi, a)) for a in n.args)))
    return out


def _descending_from_len(fi: FuncInfo, it: ast.AST, name: str) -> bool:
    """The iterable yields len(name), len(name)-1, ..., 0."""
    it = _expand(fi, it, stop=(name,))
    length = f"len({name})"
    if not isinstance(it, ast.Call) or it.keywords:
        return False
    if chain(it.func) == "reversed" and len(it.args) == 1:
        r = it.args[0]
        if not (isinstance(r, ast.Call) and chain(r.func) == "range" and not r.keywords and 1 <= len(r.args) <= 3):
            return False
        a = r.args
        if len(a) >= 2 and const_value(a[0]) != 0:
            return False
        if len(a) == 3 and const_value(a[2]) != 1:
            return False
        stop = a[0] if len(a) == 1 else a[1]
        return norm(stop) in (f"{length} + 1", f"1 + {length}")
    if chain(it.func) == "range" and len(it.args) == 3:
        return norm(it.args[0]) == length and const_value(it.args[1]) == -1 and const_value(it.args[2]) == -1
    return False


def rule_closest(ctx: Ctx) -> None:
    repo = ctx.repo
    fi = repo.method("RoutingTable", "closest_nodes", RT)
    cfg = ctx.cfg(fi)
    target, k = fi.params()[1], fi.params()[2]
    rets = [r for r in walk_no_nested(fi.node) if isinstance(r, ast.Return)]
    ok = False
    coll = None
    if len(rets) == 1:
        sl = resolve(fi, rets[0].value)                                   # `v = sorted(..)[:k]; return v` is the same value
        if isinstance(sl, ast.Subscript) and isinstance(sl.slice, ast.Slice):
            srt = resolve(fi, sl.value)
            if sl.slice.lower is None and sl.slice.step is None and sl.slice.upper is not None and norm(sl.slice.upper) == k \
                    and isinstance(srt, ast.Call) and chain(srt.func) == "sorted" and not arg(srt, None, "reverse"):
                key = arg(srt, None, "key")
                if isinstance(key, ast.Lambda):
                    body = key.body
                    first = body.elts[0] if isinstance(body, ast.Tuple) else body
                    ok = norm(first) in (f"distance({key.args.args[0].arg}.id, {target})", f"distance({target}, {key.args.args[0].arg}.id)")
                if ok and srt.args and isinstance(srt.args[0], ast.Name):
                    coll = srt.args[0].id
    ctx.check(ok, "closest", fi, rets[0] if rets else fi.node, "result = sorted(nodes, key=XOR distance to the target first)[:max_nodes]",
              "closest_nodes does not return the max_nodes nearest by XOR distance to the target, nearest first")
    dist = repo.func(RT, "distance")
    r = [x for x in walk_no_nested(dist.node) if isinstance(x, ast.Return)]
    ok = len(r) == 1 and isinstance(r[0].value, ast.BinOp) and isinstance(r[0].value.op, ast.BitXor)
    ctx.check(ok, "closest", dist, dist.node, "distance is XOR of the ids as integers", "distance is no longer the XOR metric")
    # candidate set: the collection that is counted by the walk and sorted at the end receives live nodes only
    # (set comprehension with the filter, or an explicit loop that adds under the filter: same elements)
    coll = coll or "nodes"
    adds = _additions(fi, cfg, coll)
    ok = bool(adds) and all(good for _, good in adds)
    bad = next((n for n, good in adds if not good), None)
    ctx.check(ok, "closest", fi, enclosing_stmt(bad) if bad is not None else fi.node, "candidates exclude BAD nodes",
              "closest_nodes can return nodes whose status is BAD" + ("" if adds else f" (nothing is added to `{coll}`)"))
    # the walk: i from len(prefix) down to 0, all suffixes of prefix[:i]; break only with >= max_nodes collected
    loops = [l for l in walk_no_nested(fi.node) if isinstance(l, ast.For)]
    outer = [l for l in loops if isinstance(l.target, ast.Name) and _descending_from_len(fi, l.iter, "prefix")]
    ctx.check(len(outer) == 1, "closest", fi, loops[0] if loops else fi.node, "walk from the longest prefix outwards to the root",
              "the subtree walk does not go from the longest prefix to the root")
    if len(outer) == 1:
        iv = outer[0].target.id
        stop = ("prefix", iv)
        inner = [l for l in ast.walk(outer[0]) if isinstance(l, ast.For) and l is not outer[0]
                 and _xnorm(fi, l.iter, stop) == f"self.trie.suffixes(prefix[:{iv}])"]
        ok = len(inner) == 1 and isinstance(inner[0].target, ast.Name)
        if ok:
            want = f"self.trie[prefix[:{iv}] + {inner[0].target.id}]"
            ok = any(isinstance(s, ast.Subscript) and isinstance(s.ctx, ast.Load) and _xnorm(fi, s, stop + (inner[0].target.id,)) == want
                     for st in inner[0].body for s in ast.walk(st))
            # the suffix loop runs on every level: it is not under a condition inside the level
            ok = ok and not any(isinstance(a, (ast.If, ast.IfExp, ast.Try, ast.While)) for a in _between(inner[0], outer[0]))
        ctx.check(ok, "closest", fi, outer[0], "each level takes every bucket below prefix[:i]", "a level of the walk does not cover the whole subtree")
        within = set(map(id, ast.walk(outer[0])))
        for b in [b for b in ast.walk(outer[0]) if isinstance(b, ast.Break)]:
            fs = facts_at(cfg, b)
            ok = any(f.op == "lt" and ((f.pos and norm(f.left) == k and norm(f.right) == f"len({coll})") or
                                       (not f.pos and norm(f.left) == f"len({coll})" and norm(f.right) == k)) for f in fs)
            in_inner = any(isinstance(a, (ast.For, ast.While)) and a is not outer[0] for a in ancestors(b) if id(a) in within)
            ctx.check(ok and not in_inner, "closest", fi, b, "the walk stops only after a complete level and with >= max_nodes candidates",
                      "the walk can stop with fewer than max_nodes candidates or in the middle of a subtree: the result is not the k closest", [str(f) for f in fs])
    d = single_def(fi, "prefix")
    ok = d is not None and isinstance(strip_cast(d[0]), ast.Call) and chain(strip_cast(d[0]).func) == "self.trie.longest_prefix" \
        and norm(resolve(fi, arg(strip_cast(d[0]), 0))) == f"id_to_binary_string({target})"
    ctx.check(ok, "closest", fi, fi.node, "walk starts at the longest known prefix of the target", "the walk does not start at the target's own bucket")


def _between(inner: ast.AST, outer: ast.AST) -> list[ast.AST]:
    out = []
    for a in ancestors(inner):
        if a is outer:
            break
        out.append(a)
    return out


class _Unsupported(Exception):
    pass


def _subst(e: ast.AST, env: dict[str, ast.AST]) -> ast.AST:
    class T(ast.NodeTransformer):
        def visit_Name(self, n):
            if isinstance(n.ctx, ast.Load) and n.id in env:
                return _copy(env[n.id])
            return n
    return T().visit(_copy(e))


def _sym_returns(fi: FuncInfo) -> list[tuple[ast.Return, tuple, ast.AST]]:
    """Value of every `return` of a loop-free function as one expression over parameters / attributes: locals are
    substituted in program order (so `x = a; if c: x += b` gives `a + b if c else a`), together with the branch
    conditions (test, polarity) under which the return is reached.  Raises _Unsupported for anything else."""
    rets: list[tuple[ast.Return, tuple, ast.AST]] = []

    def run(stmts, env, conds):
        for st in stmts:
            if isinstance(st, ast.Pass) or (isinstance(st, ast.Expr) and isinstance(st.value, ast.Constant)):
                continue
            if isinstance(st, ast.Assign) and len(st.targets) == 1 and isinstance(st.targets[0], ast.Name):
                env[st.targets[0].id] = _subst(strip_cast(st.value), env)
            elif isinstance(st, ast.AnnAssign) and isinstance(st.target, ast.Name):
                if st.value is not None:
                    env[st.target.id] = _subst(strip_cast(st.value), env)
            elif isinstance(st, ast.AugAssign) and isinstance(st.target, ast.Name) and st.target.id in env:
                env[st.target.id] = ast.BinOp(left=env[st.target.id], op=st.op, right=_subst(st.value, env))
            elif isinstance(st, ast.If):
                t = _subst(st.test, env)
                e1 = run(st.body, dict(env), conds + ((t, True),))
                e2 = run(st.orelse, dict(env), conds + ((t, False),))
                if e1 is None and e2 is None:
                    return None
                if e1 is None or e2 is None:
                    env, conds = (e2, conds + ((t, False),)) if e1 is None else (e1, conds + ((t, True),))
                    continue
                merged = {}
                for name in e1.keys() & e2.keys():
                    a, b = e1[name], e2[name]
                    merged[name] = a if ast.dump(a) == ast.dump(b) else ast.IfExp(test=t, body=a, orelse=b)
                for name in (e1.keys() ^ e2.keys()) | (env.keys() - merged.keys()):
                    merged.pop(name, None)
                    merged[name] = ast.Name(id=f"<unbound:{name}>", ctx=ast.Load())
                env = merged
            elif isinstance(st, ast.Return):
                if st.value is None:
                    raise _Unsupported
                rets.append((st, conds, _subst(st.value, env)))
                return None
            else:
                raise _Unsupported
        return env

    run(fi.node.body, {}, ())
    return rets


def _replace(e, target: ast.AST, repl: ast.AST):
    if e is target:
        return repl
    if isinstance(e, ast.AST):
        new = e.__class__()
        for f, v in ast.iter_fields(e):
            setattr(new, f, [_replace(x, target, repl) for x in v] if isinstance(v, list) else _replace(v, target, repl))
        return new
    return e


def _alternatives(e: ast.AST, conds: tuple = (), budget: int = 64) -> list[tuple[tuple, ast.AST]]:
    """Split conditional expressions: [(conditions, expression without IfExp)]."""
    node = next((n for n in ast.walk(e) if isinstance(n, ast.IfExp)), None)
    if node is None:
        return [(conds, e)]
    if budget <= 1:
        raise AnalysisError("undecided: too many conditional alternatives in Bucket.generate_id")
    known = {ast.dump(t): pol for t, pol in conds}
    out = []
    for pol, br in ((True, node.body), (False, node.orelse)):
        if known.get(ast.dump(node.test), pol) != pol:
            continue                                                      # same test already decided the other way on this path
        out.extend(_alternatives(_replace(e, node, br), conds + ((node.test, pol),), budget // 2))
    return out


def _leads_with_prefix(s: ast.AST) -> bool:
    """The string expression starts with the characters of self.prefix_id."""
    if isinstance(s, ast.BinOp) and isinstance(s.op, ast.Add):
        return _leads_with_prefix(s.left)
    if isinstance(s, ast.IfExp):
        return _leads_with_prefix(s.body) and _leads_with_prefix(s.orelse)
    if isinstance(s, ast.JoinedStr) and s.values:
        v = s.values[0]
        return isinstance(v, ast.FormattedValue) and v.conversion == -1 and v.format_spec is None and _leads_with_prefix(v.value)
    return chain(s) == "self.prefix_id"


_WIDTH = "160 - len(self.prefix_id)"


def _no_suffix_needed(conds: tuple) -> bool:
    """The path conditions say that the prefix is already 160 bits long."""
    for t, pol in conds:
        for f in _atoms_with_polarity(t, pol):
            l, r = norm(f.left), (norm(f.right) if f.right is not None else None)
            if f.op == "truthy" and not f.pos and l == _WIDTH:
                return True
            if f.op == "eq" and f.pos and ({l, r} == {_WIDTH, "0"} or {l, r} == {"len(self.prefix_id)", "160"}):
                return True
            if f.op == "lt" and not f.pos and ((l, r) == ("0", _WIDTH) or (l, r) == ("len(self.prefix_id)", "160")):
                return True
    return False


def rule_refresh_id(ctx: Ctx) -> None:
    repo = ctx.repo
    fi = repo.method("Bucket", "generate_id", RT)
    rets = [r for r in walk_no_nested(fi.node) if isinstance(r, ast.Return)]
    ctx.anchor(rets, "return in generate_id")
    # the returned value as an expression over self.prefix_id: program-order substitution (handles `x = p; if w: x += s`),
    # falling back to substitution of single-assignment locals when the body has loops / try / with
    try:
        values = _sym_returns(fi)
        if {id(r) for r, _, _ in values} != {id(r) for r in rets}:
            raise _Unsupported
    except _Unsupported:
        values = [(r, (), _expand(fi, r.value)) for r in rets]

    for r in rets:
        alts = [a for rr, conds, full in values if rr is r for a in _alternatives(full, conds)]
        uses_ok = lead_ok = w_ok = hexok = bool(alts)
        for conds, full in alts:
            # occurrences of self.prefix_id that are not under len(...)
            under_len = {id(a) for n in ast.walk(full) if isinstance(n, ast.Call) and chain(n.func) == "len" for a in n.args}
            data_uses = [n for n in ast.walk(full) if isinstance(n, ast.Attribute) and chain(n) == "self.prefix_id" and id(n) not in under_len]
            uses_ok = uses_ok and bool(data_uses)
            # prefix must be the leading part of the binary string handed to int(.., 2)
            lead_ok = lead_ok and any(isinstance(n, ast.Call) and chain(n.func) == "int" and len(n.args) == 2 and const_value(n.args[1]) == 2
                                      and _leads_with_prefix(n.args[0]) for n in ast.walk(full))
            # random part is exactly 160 - len(prefix) bits; it may be missing only when that width is 0
            rnd = [n for n in ast.walk(full) if isinstance(n, ast.Call) and (chain(n.func) or "").startswith("random.")]
            w = False
            for c in rnd:
                if call_name(c) == "getrandbits" and len(c.args) == 1 and norm(c.args[0]) == _WIDTH:
                    w = True
                if call_name(c) == "randint" and len(c.args) == 2 and norm(c.args[0]) == "0" and norm(c.args[1]).replace(" ", "") in ("2**(160-len(self.prefix_id))-1",):
                    w = True
            if not rnd and _no_suffix_needed(conds):
                w = True
            w_ok = w_ok and w
            hexok = hexok and any(isinstance(n, ast.Call) and chain(n.func) == "format" and len(n.args) == 2 and const_value(n.args[1]) in ("040X", "040x")
                                  for n in ast.walk(full))
        ctx.check(uses_ok, "refresh-id-in-bucket", fi, r, "the bucket's prefix characters flow into the generated id",
                  "generate_id depends on the prefix only through len(self.prefix_id): the refresh id does not lie inside the bucket (it starts with zero bits)")
        if uses_ok:
            ctx.check(lead_ok, "refresh-id-in-bucket", fi, r, "prefix is the leading part of the binary id", "the prefix is not the leading bits of the generated id")
            ctx.check(w_ok, "refresh-id-in-bucket", fi, r, "random part is 160 - len(prefix) bits wide (absent only when that is 0)",
                      "the random part of the refresh id does not have 160-len(prefix) bits")
            ctx.check(hexok, "refresh-id-in-bucket", fi, r, "id rendered as 20 bytes", "the generated id is not 20 bytes")


def run(ctx: Ctx) -> None:
    rule_bucket(ctx)
    rule_split(ctx)
    rule_closest(ctx)
    rule_refresh_id(ctx)
    ctx.assume("induction argument: (1) every insert satisfies owns and capacity, (2) split replaces a leaf by its two children whose prefixes partition the parent's, "
               "(3) nothing else writes the trie => buckets stay a prefix-free complete cover and each node sits in its owner; nodes in the subtree of a longer common "
               "prefix are XOR-closer than nodes outside it => the walk is exact once a complete level holds >= k live nodes")
    ctx.assume("Trie (dht/trie.py) implements longest-prefix / suffixes / delete correctly: covered by its unit tests, not by this analysis")


WITNESSES = [
    {"name": "pre-fix: refresh id ignores prefix", "file": RT, "rule": "refresh-id-in-bucket",
     "old": "        rand_node_id_bin = self.prefix_id + suffix\n", "new": "        rand_node_id_bin = \"0\" * len(self.prefix_id) + suffix\n"},
    {"name": "refresh id random part too wide", "file": RT, "rule": "refresh-id-in-bucket",
     "old": "        suffix = format(random.getrandbits(suffix_length), f\"0{suffix_length}b\") if suffix_length else \"\"",
     "new": "        suffix = format(random.getrandbits(160), f\"0{suffix_length}b\") if suffix_length else \"\""},
    {"name": "refresh id without random bits although the prefix is short", "file": RT, "rule": "refresh-id-in-bucket",
     "old": "f\"0{suffix_length}b\") if suffix_length else \"\"", "new": "f\"0{suffix_length}b\") if suffix_length > 8 else \"\""},
    {"name": "closest walk never reaches the root", "file": RT, "rule": "closest",
     "old": "for i in reversed(range(len(prefix) + 1)):", "new": "for i in reversed(range(1, len(prefix) + 1)):"},
    {"name": "closest adds unfiltered nodes as well", "file": RT, "rule": "closest",
     "old": "            # Ensure nodes are sorted by distance\n", "new": "            nodes.update(self.get_bucket(node_id).nodes.values())\n"},
    {"name": "remove_bad_nodes removes every node", "file": RT, "rule": "bucket-insert",
     "old": "                    if node.status == NODE_STATUS_BAD:\n                        bucket.nodes.pop(node_id, None)", "new": "                    if node.status != NODE_STATUS_BAD:\n                        bucket.nodes.pop(node_id, None)"},
    {"name": "insert without ownership check", "file": RT, "rule": "bucket-insert",
     "old": "        if not self.owns(node.id):\n            return False\n\n        # Update existing node", "new": "        # Update existing node"},
    {"name": "insert into full bucket", "file": RT, "rule": "bucket-insert",
     "old": "        if len(self.nodes) < self.max_size:\n            self.nodes[node.id] = node", "new": "        if len(self.nodes) <= self.max_size:\n            self.nodes[node.id] = node"},
    {"name": "split any bucket", "file": RT, "rule": "split-own-path",
     "old": "                if bucket.owns(self.my_node_id):\n                    split = bucket.split()", "new": "                if bucket.owns(node.id):\n                    split = bucket.split()"},
    {"name": "children swapped after split", "file": RT, "rule": "split-partition",
     "old": "                    self.trie[bucket.prefix_id + \"0\"] = bucket_0\n                    self.trie[bucket.prefix_id + \"1\"] = bucket_1",
     "new": "                    self.trie[bucket.prefix_id + \"0\"] = bucket_1\n                    self.trie[bucket.prefix_id + \"1\"] = bucket_0"},
    {"name": "parent kept after split", "file": RT, "rule": "split-partition",
     "old": "                    del self.trie[bucket.prefix_id]\n", "new": ""},
    {"name": "split drops unplaceable nodes silently into b_0", "file": RT, "rule": "split-partition",
     "old": "            if b_0.owns(node.id):\n                b_0.add(node)\n            elif b_1.owns(node.id):\n                b_1.add(node)",
     "new": "            if b_1.owns(node.id):\n                b_1.add(node)\n            elif True:\n                b_0.add(node)"},
    {"name": "closest sorted by status first", "file": RT, "rule": "closest",
     "old": "key=lambda n: (distance(n.id, node_id), n.status)", "new": "key=lambda n: (n.status, distance(n.id, node_id))"},
    {"name": "closest walk stops early", "file": RT, "rule": "closest",
     "old": "                if len(nodes) > max_nodes:\n                    break", "new": "                if len(nodes) > max_nodes // 2:\n                    break"},
    {"name": "closest includes bad nodes", "file": RT, "rule": "closest",
     "old": "if node.status != NODE_STATUS_BAD and (exclude_node is None", "new": "if node.status is not None and (exclude_node is None"},
    {"name": "closest not truncated", "file": RT, "rule": "closest",
     "old": "n.status))[:max_nodes]", "new": "n.status))"},
    {"name": "distance is subtraction", "file": RT, "rule": "closest",
     "old": "return int(binascii.hexlify(a), 16) ^ int(binascii.hexlify(b), 16)", "new": "return abs(int(binascii.hexlify(a), 16) - int(binascii.hexlify(b), 16))"},
]
