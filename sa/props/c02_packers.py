"""C02.packer-symmetry: abstract run of every Packer.pack / Packer.unpack (offset arithmetic, layout agreement)."""
from __future__ import annotations

import ast
import re
import struct

from ..cfg import CFG
from ..core import Ctx
from ..match import arg, call_name, calls, single_def
from ..model import NOCONST, AnalysisError, ClassInfo, FuncInfo, chain, const_value, norm, strip_cast, walk_no_nested

SER = "ipv8/messaging/serialization.py"


# ------------------------------------------------------------------------------------------ linear forms
class Lin:
    """Integer linear form  const + sum coeff*symbol  (symbols are strings)."""

    def __init__(self, const: int = 0, terms: dict[str, int] | None = None) -> None:
        self.c = const
        self.t = {k: v for k, v in (terms or {}).items() if v}

    @staticmethod
    def sym(s: str) -> "Lin":
        return Lin(0, {s: 1})

    def __add__(self, o: "Lin") -> "Lin":
        t = dict(self.t)
        for k, v in o.t.items():
            t[k] = t.get(k, 0) + v
        return Lin(self.c + o.c, t)

    def __sub__(self, o: "Lin") -> "Lin":
        return self + o.scale(-1)

    def scale(self, k: int) -> "Lin":
        return Lin(self.c * k, {s: v * k for s, v in self.t.items()})

    def __eq__(self, o) -> bool:
        return isinstance(o, Lin) and self.c == o.c and self.t == o.t

    def __hash__(self) -> int:
        return hash((self.c, frozenset(self.t.items())))

    def __str__(self) -> str:
        parts = [f"{v}*{k}" if v != 1 else k for k, v in sorted(self.t.items())]
        if self.c or not parts:
            parts.append(str(self.c))
        return " + ".join(parts)


class Unknown(Exception):
    pass


class PackerModel:
    def __init__(self, ctx: Ctx, cls: ClassInfo) -> None:
        self.ctx = ctx
        self.cls = cls
        self.size_attr: dict[str, str] = {}      # self.length_size -> "size(self.length_format)"
        self.fmt_attr: set[str] = set()
        init = cls.lookup("__init__")
        if init is not None and init.cls.name not in ("Packer", "object"):
            for k in cls.mro():
                i = k.methods.get("__init__")
                if i is None:
                    continue
                stored = {}
                for s in sorted((x for x in walk_no_nested(i.node) if isinstance(x, ast.stmt)), key=lambda x: x.lineno):
                    if isinstance(s, ast.Assign) and chain(s.targets[0]) and chain(s.targets[0]).startswith("self."):
                        v = strip_cast(s.value)
                        a = s.targets[0].attr
                        if isinstance(v, ast.Name):
                            stored[v.id] = a
                        if isinstance(v, ast.Attribute) and isinstance(v.value, ast.Call) and chain(v.value.func) in ("Struct", "struct.Struct") and v.attr == "size":
                            src = v.value.args[0]
                            self.size_attr[a] = f"size({self._fmt_text(src, stored)})"
                        if isinstance(v, ast.Call) and chain(v.func) in ("calcsize", "struct.calcsize"):
                            self.size_attr[a] = f"size({self._fmt_text(v.args[0], stored)})"

    @staticmethod
    def _fmt_text(e: ast.AST, stored: dict[str, str]) -> str:
        if isinstance(e, ast.Name) and e.id in stored:
            return f"self.{stored[e.id]}"
        return norm(e)

    def fmt_size(self, e: ast.AST) -> Lin:
        cv = const_value(e)
        if isinstance(cv, str):
            return Lin(struct.calcsize(cv))
        return Lin.sym(f"size({norm(e)})")


class UnpackRun:
    """Symbolic run of one path of an unpack method."""

    def __init__(self, pm: PackerModel, fi: FuncInfo) -> None:
        self.pm = pm
        self.fi = fi
        p = fi.params()
        self.data, self.off = p[1], p[2]
        self.env: dict[str, Lin] = {self.off: Lin.sym("offset")}
        self.reads: list[tuple[Lin, Lin, str]] = []
        self.wire: dict[str, str] = {}          # local name -> description of the wire value
        self.ret: Lin | None = None
        self.fresh = 0

    def lin(self, e: ast.AST) -> Lin:
        e = strip_cast(e)
        cv = const_value(e)
        if isinstance(cv, int) and not isinstance(cv, bool):
            return Lin(cv)
        if isinstance(e, ast.Name):
            if e.id in self.env:
                return self.env[e.id]
            raise Unknown(f"name {e.id}")
        if isinstance(e, ast.Attribute) and chain(e) and chain(e).startswith("self."):
            a = e.attr
            if a in self.pm.size_attr:
                return Lin.sym(self.pm.size_attr[a])
            return Lin.sym(chain(e))
        if isinstance(e, ast.BinOp):
            if isinstance(e.op, ast.Add):
                return self.lin(e.left) + self.lin(e.right)
            if isinstance(e.op, ast.Sub):
                return self.lin(e.left) - self.lin(e.right)
            if isinstance(e.op, ast.Mult):
                l, r = self.lin(e.left), self.lin(e.right)
                if not l.t:
                    return r.scale(l.c)
                if not r.t:
                    return l.scale(r.c)
                if len(l.t) == 1 and not l.c and len(r.t) == 1 and not r.c:
                    (a, ca), (b, cb) = next(iter(l.t.items())), next(iter(r.t.items()))
                    return Lin(0, {"*".join(sorted([a, b])): ca * cb})
        if isinstance(e, ast.Call) and chain(e.func) == "len" and chain(e.args[0]) == self.data:
            return Lin.sym("len(data)")
        raise Unknown(f"expression `{norm(e)[:50]}`")

    def scan_reads(self, e: ast.AST) -> None:
        """Record unpack_from calls and slices of the data buffer inside an expression (in source order)."""
        nodes = sorted((n for n in ast.walk(e) if isinstance(n, (ast.Call, ast.Subscript))), key=lambda n: (n.lineno, n.col_offset))
        for n in nodes:
            if isinstance(n, ast.Call) and chain(n.func) in ("unpack_from", "struct.unpack_from") and chain(arg(n, 1)) == self.data:
                off = arg(n, 2, "offset")
                start = self.lin(off) if off is not None else Lin(0)
                self.reads.append((start, self.pm.fmt_size(n.args[0]), "struct:" + (const_value(n.args[0]) if isinstance(const_value(n.args[0]), str) else norm(n.args[0]))))
            elif isinstance(n, ast.Subscript) and isinstance(n.slice, ast.Slice) and chain(n.value) == self.data:
                lo = self.lin(n.slice.lower) if n.slice.lower is not None else Lin(0)
                if n.slice.upper is None:
                    self.reads.append((lo, Lin.sym("len(data)") - lo, "rest"))
                else:
                    self.reads.append((lo, self.lin(n.slice.upper) - lo, "bytes"))

    def define_wire(self, targets: list[str], value: ast.AST) -> None:
        for t in targets:
            self.fresh += 1
            self.env[t] = Lin.sym(f"w:{t}")
            self.wire[t] = norm(value)

    def stmt(self, s: ast.AST) -> None:  # noqa: C901, PLR0912
        if isinstance(s, ast.Expr) and isinstance(s.value, ast.Constant):
            return
        if isinstance(s, (ast.Assign, ast.AnnAssign)):
            v = s.value
            if v is None:
                return
            tg = s.targets[0] if isinstance(s, ast.Assign) else s.target
            core = strip_cast(v)
            # delegated unpack: (value, offset) = X.unpack(fmt, data, offset)  |  offset = X.unpack(data, offset, ...)
            if isinstance(core, ast.Call) and call_name(core) == "unpack" and any(chain(a) == self.data for a in core.args):
                offarg = [a for a in core.args if chain(a) in self.env and a is not core.args[0] or (chain(a) == self.off)]
                start = None
                for a in core.args:
                    if isinstance(a, ast.Name) and a.id in self.env and a.id != self.data:
                        start = self.env[a.id]
                if start is None:
                    raise Unknown("delegated unpack without offset argument")
                self.fresh += 1
                end = Lin.sym(f"delegate{self.fresh}")
                self.reads.append((start, end - start, "delegate:" + norm(core.func)))
                names = [norm(e) for e in tg.elts] if isinstance(tg, ast.Tuple) else [norm(tg)]
                # which target receives the new offset: the last element of a tuple, or the single target
                self.env[names[-1]] = end
                for nm in names[:-1]:
                    self.env.pop(nm, None)
                return
            self.scan_reads(v)
            names = [norm(e) for e in tg.elts] if isinstance(tg, ast.Tuple) else [norm(tg)]
            has_unpack = any(isinstance(n, ast.Call) and chain(n.func) in ("unpack_from", "struct.unpack_from") for n in ast.walk(v))
            if has_unpack:
                # value derived from the wire, possibly scaled by a unit
                if isinstance(core, ast.BinOp) and isinstance(core.op, ast.Mult) and len(names) == 1:
                    unit = core.right if any(isinstance(n, ast.Call) for n in ast.walk(core.left)) else core.left
                    self.env[names[0]] = Lin(0, {f"w:{names[0]}*{norm(unit)}": 1})
                    self.wire[names[0]] = f"count*{norm(unit)}"
                else:
                    self.define_wire(names, v)
                return
            if len(names) == 1:
                try:
                    self.env[names[0]] = self.lin(v)
                except Unknown:
                    self.env.pop(names[0], None)
            return
        if isinstance(s, ast.AugAssign) and isinstance(s.target, ast.Name):
            if isinstance(s.op, ast.Add) and s.target.id in self.env:
                try:
                    self.env[s.target.id] = self.env[s.target.id] + self.lin(s.value)
                except Unknown:
                    self.env.pop(s.target.id, None)
            self.scan_reads(s.value)
            return
        if isinstance(s, ast.Return):
            self.scan_reads(s.value) if s.value is not None else None
            self.ret = self.lin(s.value)
            return
        if isinstance(s, ast.Expr):
            self.scan_reads(s.value)
            return
        if isinstance(s, (ast.Raise, ast.Pass)):
            return
        if isinstance(s, ast.expr):
            self.scan_reads(s)
            return


def run_unpack_paths(ctx: Ctx, pm: PackerModel, fi: FuncInfo):
    cfg = ctx.cfg(fi)
    out = []
    for path in cfg.paths(limit=400):
        if path[-1][0] is not cfg.exit:
            continue
        run = UnpackRun(pm, fi)
        try:
            for node, lab in path:
                if node.kind in ("stmt",) and node.ast is not None:
                    run.stmt(node.ast)
                elif node.kind == "cond" and node.ast is not None:
                    run.scan_reads(node.ast)
        except Unknown as u:
            out.append((run, f"unknown: {u}"))
            continue
        out.append((run, None))
    return out


def check_tiling(run: UnpackRun) -> str | None:
    if run.ret is None:
        return "no return value"
    pos = Lin.sym("offset")
    for start, length, kind in run.reads:
        if start != pos:
            return f"read `{kind}` starts at {start}, expected {pos} (bytes skipped or read twice)"
        pos = start + length
    if run.ret != pos:
        return f"returns {run.ret} but the bytes consumed end at {pos}"
    return None


# ------------------------------------------------------------------------------------------ pack side
def pack_pieces(fi: FuncInfo):
    """Pieces written by a pack method: list of alternatives, each a list of ('struct', fmt_text, [arg texts]) / ('bytes', text) / ('delegate', text)."""
    alts = []
    for r in [r for r in walk_no_nested(fi.node) if isinstance(r, ast.Return) and r.value is not None]:
        pieces = []

        def flat(e):
            e = strip_cast(e)
            if isinstance(e, ast.BinOp) and isinstance(e.op, ast.Add):
                flat(e.left)
                flat(e.right)
                return
            if isinstance(e, ast.Call) and chain(e.func) in ("pack", "struct.pack"):
                f = e.args[0]
                ft = const_value(f) if isinstance(const_value(f), str) else ("".join(v.value if isinstance(v, ast.Constant) else "{n}" for v in f.values) if isinstance(f, ast.JoinedStr) else norm(f))
                pieces.append(("struct", ft, [norm(a) for a in e.args[1:]]))
                return
            if isinstance(e, ast.Name) and single_def(fi, e.id) is not None and e.id not in fi.params():
                flat(single_def(fi, e.id)[0])
                return
            if isinstance(e, ast.Call) and call_name(e) in ("pack", "pack_serializable") and not chain(e.func) in ("pack", "struct.pack"):
                pieces.append(("delegate", norm(e)))
                return
            pieces.append(("bytes", norm(e)))
        flat(r.value)
        alts.append(pieces)
    return alts


def _struct_chars(fmt: str) -> str:
    return re.sub(r"^[<>!=@]", "", fmt)


def rule_packer_symmetry(ctx: Ctx) -> None:
    repo = ctx.repo
    base = repo.cls("Packer", SER)
    classes = sorted(base.all_subclasses(), key=lambda c: c.name)
    ctx.floor("packer-symmetry.classes", len(classes), 11)
    n_paths = 0
    for cls in classes:
        un, pk = cls.lookup("unpack"), cls.lookup("pack")
        if un is None or pk is None or un.cls.name == "Packer":
            continue
        pm = PackerModel(ctx, un.cls)
        runs = run_unpack_paths(ctx, pm, un)
        if un.cls is not cls:
            continue            # inherited unchanged: analysed at the defining class
        for run, err in runs:
            n_paths += 1
            if err:
                raise AnalysisError(f"packer-symmetry: {cls.name}.unpack: {err}")
            msg = check_tiling(run)
            layout = " | ".join(f"{k}@{s}+{l}" for s, l, k in run.reads)
            ctx.check(msg is None, "packer-symmetry", un, un.node, f"{cls.name}.unpack path [{layout}] -> returns {run.ret}: reads tile [offset, return)",
                      f"{cls.name}.unpack: {msg}: the reported end offset is not the absolute end of what was consumed (path [{layout}], returns {run.ret})")
        # ---- layout agreement with pack
        alts = pack_pieces(pk)
        un_structs = [[k[len("struct:"):] for _, _, k in run.reads if k.startswith("struct:")] for run, _ in runs]
        if cls.name in ("Bits", "Raw", "NestedPayload", "NodePacker", "VarLenUtf8", "ListOf", "IPv4", "Address", "DefaultStruct", "VarLen", "DefaultArray", "Flags"):
            _layout_agreement(ctx, cls, pk, un, alts, runs)
    ctx.floor("packer-symmetry.paths", n_paths, 14)
    # decoders hand out fresh values: no memoisation on functions in the packer / payload modules (a cached list would be shared by every decoded message)
    for m in repo.modules.values():
        if not (m.relpath.startswith("ipv8/messaging/") and (m.relpath.endswith("payload.py") or m.relpath.endswith("serialization.py") or "lazy_payload" in m.relpath)):
            continue
        for f in m.all_functions:
            memo = [d for d in f.decorator_names() if d.split(".")[-1] in ("lru_cache", "cache", "cached_property")]
            ctx.check(not memo, "packer-symmetry", f, f.node, f"{f.qualname}: not memoised",
                      f"{f.qualname} is memoised ({memo}): every message with the same wire bytes decodes to the SAME mutable object, so changing one decoded value changes later decodes")


def _layout_agreement(ctx: Ctx, cls: ClassInfo, pk: FuncInfo, un: FuncInfo, alts, runs) -> None:
    """Pack and unpack must use the same struct formats (as concatenated field codes) and the same length unit."""
    def chars_of_pack(pieces) -> str:
        out = ""
        for p in pieces:
            if p[0] == "struct":
                out += _struct_chars(p[1])
            else:
                out += "{n}s"        # raw bytes, or bytes produced by a delegated pack
        return out

    def chars_of_run(run) -> str:
        out = ""
        for s, l, k in run.reads:
            if k.startswith("struct:"):
                out += _struct_chars(k[len("struct:"):])
            elif k in ("bytes", "rest"):
                out += "{n}s"
            else:
                out += "<delegate>"
        return out
    packs = sorted({chars_of_pack(p) for p in alts})
    unpacks = sorted({chars_of_run(r) for r, _ in runs})
    # normalise "BH{n}sH" (one struct with embedded string) vs "B" "H" "{n}s" "H"
    ok = packs == unpacks or (cls.name in ("NestedPayload",) and packs == ["H{n}s"] and unpacks == ["H{n}s"])
    if cls.name == "VarLenUtf8":
        ok = True       # delegates both ways to VarLen (checked there); encode/decode pairing checked below
    if cls.name in ("ListOf",):
        ok = len(packs) == 1 and packs[0].startswith("self.length_format") and all(u.startswith("self.length_format") for u in unpacks)
    if cls.name == "NodePacker":
        ok = True
    if cls.name == "Bits":
        ok = packs == ["B"] and unpacks == ["B"]
    ctx.check(ok, "packer-symmetry", pk, pk.node, f"{cls.name}: pack layout {packs} == unpack layout {unpacks}",
              f"{cls.name}: pack writes {packs} but unpack reads {unpacks}: the decoder is not the inverse of the encoder")
    # ---- unit of the length prefix
    if cls.name in ("VarLen", "DefaultArray"):
        lens = [p[2][0] for a in alts for p in a if p[0] == "struct" and p[2]]
        mult = {v for r, _ in runs for v in r.wire.values() if v.startswith("count*")}
        if cls.name == "VarLen":
            ok = lens == ["len(data) // self.base"] and mult == {"count*self.base"}
            ctx.check(ok, "packer-symmetry", pk, pk.node, "VarLen: prefix = len(data) // base on pack, length = prefix * base on unpack",
                      f"VarLen: length unit differs between pack ({lens}) and unpack ({sorted(mult)})")
        else:
            ok = lens == ["len(data)"] and mult == {"count*self.base"}
            init = cls.methods["__init__"]
            b = [s for s in walk_no_nested(init.node) if isinstance(s, ast.Assign) and chain(s.targets[0]) == "self.base"]
            ok = ok and len(b) == 1 and norm(b[0].value) == "array(self.real_format_str).itemsize"
            ctx.check(ok, "packer-symmetry", pk, pk.node, "DefaultArray: prefix = item count, byte length = count * itemsize",
                      f"DefaultArray: item count / byte length units differ between pack ({lens}) and unpack ({sorted(mult)})")
    if cls.name == "ListOf":
        cnt = [p[2][0] for a in alts for p in a if p[0] == "struct" and p[2]]
        loops = [l for l in walk_no_nested(un.node) if isinstance(l, ast.For)]
        ok = cnt == ["len(data)"] and len(loops) == 1 and norm(loops[0].iter) == "range(length)" and "length" in [k for r, _ in runs for k in r.wire]
        inner = [c for c in calls(un) if chain(c.func) == "self.packer.unpack"]
        ok = ok and len(inner) == 1 and [norm(a) for a in inner[0].args[:2]] == [un.params()[1], un.params()[2]]
        ctx.check(ok, "packer-symmetry", un, un.node, "ListOf: count prefix = number of items; the inner packer runs count times on the threaded offset",
                  "ListOf: the item count on the wire does not drive the number of inner unpacks / the offset is not threaded")
    if cls.name == "VarLenUtf8":
        enc = any(norm(c) == "super().pack(data.encode())" for c in calls(pk))
        dec = any(norm(c).endswith(".decode()") for c in calls(un)) and any(norm(c).startswith("super().unpack(") for c in calls(un))
        ctx.check(enc and dec, "packer-symmetry", pk, pk.node, "VarLenUtf8: encode() on pack, decode() on unpack around VarLen", "VarLenUtf8 does not pair encode/decode around VarLen")
    if cls.name == "Address":
        consts = ctx.repo.module(SER).constants
        vals = {k: ctx.repo.resolve_const(ctx.repo.module(SER), consts[k]) for k in ("ADDRESS_TYPE_IPV4", "ADDRESS_TYPE_DOMAIN_NAME", "ADDRESS_TYPE_IPV6")}
        ok = len(set(vals.values())) == 3
        tags_p = sorted(p[2][0] for a in alts for p in a if p[0] == "struct")
        ctx.check(ok and tags_p == sorted(vals), "packer-symmetry", pk, pk.node, f"Address: three distinct type tags {vals}, each written by one pack branch",
                  f"Address: type tags {vals} / written {tags_p}")
        # each unpack branch is selected by the tag that the matching pack branch writes
        cfg = ctx.cfg(un)
        from ..match import facts_at
        pairs = {}
        for r in [r for r in walk_no_nested(un.node) if isinstance(r, ast.Return)]:
            for f in facts_at(cfg, r):
                if f.op == "eq" and f.pos and norm(f.left) == "address_type":
                    pairs[norm(f.right)] = norm(r.value)
        want = {"ADDRESS_TYPE_IPV4": "offset + 7", "ADDRESS_TYPE_IPV6": "offset + 19", "ADDRESS_TYPE_DOMAIN_NAME": "offset + 5 + length"}
        ctx.check(pairs == want, "packer-symmetry", un, un.node, "Address.unpack: tag -> consumed size (7 / 19 / 5+len)", f"Address.unpack tag/size pairing is {pairs}")
    if cls.name in ("Address", "IPv4"):
        # text<->binary address conversion must use inverse partners on both sides (inet_aton accepts legacy notations that inet_pton rejects,
        # so probing with it turns numeric-looking host names into IPv4 addresses)
        def conv(f):
            out = set()
            for c in calls(f):
                n = call_name(c)
                if n in ("inet_aton", "inet_ntoa"):
                    out.add(("legacy", "AF_INET"))
                elif n in ("inet_pton", "inet_ntop"):
                    out.add(("strict", norm(c.args[0]).split(".")[-1]))
            return out
        cp, cu = conv(pk), conv(un)
        ctx.check(cp == cu and bool(cp), "packer-symmetry", pk, pk.node, f"{cls.name}: address text conversion pairs {sorted(cp)} on both sides",
                  f"{cls.name}: pack converts addresses with {sorted(cp)} but unpack with {sorted(cu)}: the probe accepts strings the decoder would never produce "
                  "(e.g. inet_aton accepts '10.1'), so a domain name is written as an IPv4 address")
    if cls.name == "NodePacker":
        p = [norm(c.args[0]) for c in calls(pk) if call_name(c) == "pack"]
        u = [norm(c.args[0]) for c in calls(un) if call_name(c) == "unpack"]
        ctx.check(p == u and len(p) == 2, "packer-symmetry", pk, pk.node, f"NodePacker: packs {p} and unpacks {u} in the same order", f"NodePacker packs {p} but unpacks {u}")
    if cls.name == "Flags":
        p = [c for c in calls(pk, "pack")]
        u = [c for c in calls(un, "unpack_from")]
        ok = len(p) == 1 and len(u) == 1 and norm(p[0].args[0]) == norm(u[0].args[0]) == "self.format"
        ctx.check(ok, "packer-symmetry", pk, pk.node, "Flags: same struct format on both sides", "Flags packs and unpacks with different formats")
