"""C02.packer-symmetry: abstract run of every Packer.pack / Packer.unpack (offset arithmetic, layout agreement)."""
from __future__ import annotations

import ast
import functools
import operator
import re
import struct

from ..core import Ctx
from ..match import arg, call_name, calls, local_defs, rchain, resolve, single_def
from ..model import NOCONST, AnalysisError, ClassInfo, FuncInfo, ancestors, chain, const_value, enclosing_stmt, norm, strip_cast, walk_no_nested

SER = "ipv8/messaging/serialization.py"


# ------------------------------------------------------------------------------------------ linear forms
class Lin:
    """Integer linear form  const + sum coeff*symbol  (symbols are strings)."""

    def __init__(self, const: int = 0, terms: dict[str, int] | None = None) -> None:
        self.c = const
        self.t = {k: v for k, v in (terms or {}).items() if v}

    @staticmethod
    def sym(s: str) -> "Lin":
        return Lin(0, {s: 1})

    def __add__(self, o: "Lin") -> "Lin":
        t = dict(self.t)
        for k, v in o.t.items():
            t[k] = t.get(k, 0) + v
        return Lin(self.c + o.c, t)

    def __sub__(self, o: "Lin") -> "Lin":
        return self + o.scale(-1)

    def scale(self, k: int) -> "Lin":
        return Lin(self.c * k, {s: v * k for s, v in self.t.items()})

    def __eq__(self, o) -> bool:
        return isinstance(o, Lin) and self.c == o.c and self.t == o.t

    def __hash__(self) -> int:
        return hash((self.c, frozenset(self.t.items())))

    def __str__(self) -> str:
        parts = [f"{v}*{k}" if v != 1 else k for k, v in sorted(self.t.items())]
        if self.c or not parts:
            parts.append(str(self.c))
        return " + ".join(parts)


class Unknown(Exception):
    pass


class PackerModel:
    def __init__(self, ctx: Ctx, cls: ClassInfo) -> None:
        self.ctx = ctx
        self.cls = cls
        self.size_attr: dict[str, str] = {}      # self.length_size -> "size(self.length_format)"
        self.fmt_attr: set[str] = set()
        self.struct_attr: dict[str, ast.AST | str] = {}   # self.X = Struct(fmt)  ->  X: fmt (constant node, or "self.<attr>" text)
        init = cls.lookup("__init__")
        if init is not None and init.cls.name not in ("Packer", "object"):
            for k in cls.mro():
                i = k.methods.get("__init__")
                if i is None:
                    continue
                stored = {}
                for s in sorted((x for x in walk_no_nested(i.node) if isinstance(x, ast.stmt)), key=lambda x: x.lineno):
                    if isinstance(s, ast.Assign) and chain(s.targets[0]) and chain(s.targets[0]).startswith("self."):
                        v = strip_cast(s.value)
                        a = s.targets[0].attr
                        if isinstance(v, ast.Name):
                            stored[v.id] = a
                        if isinstance(v, ast.Attribute) and isinstance(v.value, ast.Call) and chain(v.value.func) in ("Struct", "struct.Struct") and v.attr == "size":
                            src = v.value.args[0]
                            self.size_attr[a] = f"size({self._fmt_text(src, stored)})"
                        if isinstance(v, ast.Call) and chain(v.func) in ("calcsize", "struct.calcsize"):
                            self.size_attr[a] = f"size({self._fmt_text(v.args[0], stored)})"
                        if isinstance(v, ast.Call) and chain(v.func) in ("Struct", "struct.Struct") and len(v.args) == 1:
                            self.struct_attr[a] = v.args[0] if isinstance(const_value(v.args[0]), str) else self._fmt_text(v.args[0], stored)
                        if isinstance(v, ast.Attribute) and chain(v) and chain(v).startswith("self.") and chain(v).count(".") == 2 and v.attr == "size" \
                                and v.value.attr in self.struct_attr:
                            self.size_attr[a] = self.struct_size_text(v.value.attr)

    @staticmethod
    def _fmt_text(e: ast.AST, stored: dict[str, str]) -> str:
        if isinstance(e, ast.Name) and e.id in stored:
            return f"self.{stored[e.id]}"
        return norm(e)

    def struct_fmt_text(self, attr: str) -> str:
        """Format of the precompiled struct self.<attr>, as the text an inline unpack_from(fmt, ..) would show."""
        f = self.struct_attr[attr]
        return f if isinstance(f, str) else (const_value(f) if isinstance(const_value(f), str) else norm(f))

    def struct_size_text(self, attr: str) -> str:
        return f"size({self.struct_fmt_text(attr)})"

    def struct_size(self, attr: str) -> Lin:
        f = self.struct_attr[attr]
        if not isinstance(f, str) and isinstance(const_value(f), str):
            return Lin(struct.calcsize(const_value(f)))
        return Lin.sym(self.struct_size_text(attr))

    def struct_of(self, e: ast.AST) -> str | None:
        """attr name X if e is `self.X` and X holds a precompiled Struct."""
        if isinstance(e, ast.Attribute) and isinstance(e.value, ast.Name) and e.value.id == "self" and e.attr in self.struct_attr:
            return e.attr
        return None

    def fmt_size(self, e: ast.AST) -> Lin:
        cv = const_value(e)
        if isinstance(cv, str):
            return Lin(struct.calcsize(cv))
        return Lin.sym(f"size({norm(e)})")


class UnpackRun:
    """Symbolic run of one path of an unpack method."""

    def __init__(self, pm: PackerModel, fi: FuncInfo) -> None:
        self.pm = pm
        self.fi = fi
        p = fi.params()
        self.data, self.off = p[1], p[2]
        self.env: dict[str, Lin] = {self.off: Lin.sym("offset")}
        self.reads: list[tuple[Lin, Lin, str]] = []
        self.wire: dict[str, str] = {}          # local name -> description of the wire value
        self.ret: Lin | None = None
        self.ret_node: ast.Return | None = None
        self.fresh = 0
        self.read_of: dict[int, int] = {}       # id(unpack_from call) -> index into self.reads
        self.tuples: dict[str, int] = {}        # local bound to the whole tuple of a struct read -> read index
        self.loops: list[tuple[ast.For, Lin | None]] = []    # for-loops entered on this path and the linear form of `range(N)`'s N
        self.seen: list[ast.AST] = []           # every expression evaluated on this path (for per-path call inventories)
        self.delegates: list[ast.Call] = []     # delegated unpack calls in the order they consume bytes

    def wsym(self, read: int, index: int) -> Lin:
        """Symbol of value `index` of struct read number `read` (named by position of the read, not by the local it is stored in)."""
        return Lin.sym(f"wire{read}[{index}]")

    def wire_tuple(self, e: ast.AST) -> int | None:
        """Read index if e evaluates to the whole value tuple of an unpack_from on the data buffer."""
        e = strip_cast(e)
        if isinstance(e, ast.Call) and id(e) in self.read_of:
            return self.read_of[id(e)]
        if isinstance(e, ast.Name) and e.id in self.tuples:
            return self.tuples[e.id]
        return None

    def lin(self, e: ast.AST) -> Lin:
        e = strip_cast(e)
        cv = const_value(e)
        if isinstance(cv, int) and not isinstance(cv, bool):
            return Lin(cv)
        if isinstance(e, ast.Name):
            if e.id in self.env:
                return self.env[e.id]
            if e.id not in self.fi.params() and not local_defs(self.fi, e.id):
                c = self.pm.ctx.repo.resolve_const(self.fi.module, e, self.fi.cls)      # module-level integer constant
                if isinstance(c, int) and not isinstance(c, bool):
                    return Lin(c)
            raise Unknown(f"name {e.id}")
        if isinstance(e, ast.Attribute) and e.attr == "size" and self.pm.struct_of(e.value) is not None:
            return self.pm.struct_size(self.pm.struct_of(e.value))
        if isinstance(e, ast.Attribute) and chain(e) and chain(e).startswith("self."):
            a = e.attr
            if a in self.pm.size_attr and chain(e).count(".") == 1:
                v = self.pm.size_attr[a]
                m = re.fullmatch(r"size\('([^']*)'\)", v)
                return Lin(struct.calcsize(m.group(1))) if m else Lin.sym(v)
            return Lin.sym(chain(e))
        if isinstance(e, ast.Call) and chain(e.func) in ("calcsize", "struct.calcsize") and len(e.args) == 1:
            return self.pm.fmt_size(e.args[0])
        if isinstance(e, ast.BinOp):
            if isinstance(e.op, ast.Add):
                return self.lin(e.left) + self.lin(e.right)
            if isinstance(e.op, ast.Sub):
                return self.lin(e.left) - self.lin(e.right)
            if isinstance(e.op, ast.Mult):
                l, r = self.lin(e.left), self.lin(e.right)
                if not l.t:
                    return r.scale(l.c)
                if not r.t:
                    return l.scale(r.c)
                if len(l.t) == 1 and not l.c and len(r.t) == 1 and not r.c:
                    (a, ca), (b, cb) = next(iter(l.t.items())), next(iter(r.t.items()))
                    return Lin(0, {"*".join(sorted([a, b])): ca * cb})
        if isinstance(e, ast.Call) and chain(e.func) == "len" and chain(e.args[0]) == self.data:
            return Lin.sym("len(data)")
        if isinstance(e, ast.Subscript) and not isinstance(e.slice, ast.Slice):
            r, i = self.wire_tuple(e.value), const_value(e.slice)
            if r is not None and isinstance(i, int) and not isinstance(i, bool) and i >= 0:
                return self.wsym(r, i)
        raise Unknown(f"expression `{norm(e)[:50]}`")

    def scan_reads(self, e: ast.AST) -> None:
        """Record unpack_from calls and slices of the data buffer inside an expression (in source order)."""
        self.seen.append(e)
        nodes = sorted((n for n in ast.walk(e) if isinstance(n, (ast.Call, ast.Subscript))), key=lambda n: (n.lineno, n.col_offset))
        for n in nodes:
            if isinstance(n, ast.Call) and chain(n.func) in ("unpack_from", "struct.unpack_from") and chain(arg(n, 1)) == self.data:
                off = arg(n, 2, "offset")
                start = self.lin(off) if off is not None else Lin(0)
                self.read_of[id(n)] = len(self.reads)
                self.reads.append((start, self.pm.fmt_size(n.args[0]), "struct:" + (const_value(n.args[0]) if isinstance(const_value(n.args[0]), str) else norm(n.args[0]))))
            elif isinstance(n, ast.Call) and isinstance(n.func, ast.Attribute) and n.func.attr == "unpack_from" and self.pm.struct_of(n.func.value) is not None \
                    and chain(arg(n, 0, "buffer")) == self.data:
                x = self.pm.struct_of(n.func.value)
                off = arg(n, 1, "offset")
                start = self.lin(off) if off is not None else Lin(0)
                self.read_of[id(n)] = len(self.reads)
                self.reads.append((start, self.pm.struct_size(x), "struct:" + self.pm.struct_fmt_text(x)))
            elif isinstance(n, ast.Subscript) and isinstance(n.slice, ast.Slice) and chain(n.value) == self.data:
                lo = self.lin(n.slice.lower) if n.slice.lower is not None else Lin(0)
                if n.slice.upper is None:
                    self.reads.append((lo, Lin.sym("len(data)") - lo, "rest"))
                else:
                    self.reads.append((lo, self.lin(n.slice.upper) - lo, "bytes"))

    def enter_loop(self, loop: ast.For) -> None:
        """The body of `for .. in range(N)` is entered: remember N as a linear form (None when it is not one)."""
        it = strip_cast(loop.iter)
        n = None
        if isinstance(it, ast.Call) and chain(it.func) == "range" and len(it.args) == 1 and not it.keywords:
            try:
                n = self.lin(it.args[0])
            except Unknown:
                n = None
        self.loops.append((loop, n))
        for t in ast.walk(loop.target):
            if isinstance(t, ast.Name):
                self.env.pop(t.id, None)
                self.tuples.pop(t.id, None)

    def define_wire(self, targets: list[str], value: ast.AST) -> None:
        for t in targets:
            self.fresh += 1
            self.env[t] = Lin.sym(f"w:{t}")
            self.wire[t] = norm(value)

    def stmt(self, s: ast.AST) -> None:  # noqa: C901, PLR0912
        if isinstance(s, ast.Expr) and isinstance(s.value, ast.Constant):
            return
        if isinstance(s, (ast.Assign, ast.AnnAssign)):
            v = s.value
            if v is None:
                return
            tg = s.targets[0] if isinstance(s, ast.Assign) else s.target
            core = strip_cast(v)
            # delegated unpack: (value, offset) = X.unpack(fmt, data, offset)  |  offset = X.unpack(data, offset, ...)
            if isinstance(core, ast.Call) and call_name(core) == "unpack" and any(chain(a) == self.data for a in core.args):
                offarg = [a for a in core.args if chain(a) in self.env and a is not core.args[0] or (chain(a) == self.off)]
                start = None
                for a in core.args:
                    if isinstance(a, ast.Name) and a.id in self.env and a.id != self.data:
                        start = self.env[a.id]
                if start is None:
                    raise Unknown("delegated unpack without offset argument")
                self.fresh += 1
                end = Lin.sym(f"delegate{self.fresh}")
                self.reads.append((start, end - start, "delegate:" + norm(core.func)))
                self.delegates.append(core)
                self.seen.append(v)
                names = [norm(e) for e in tg.elts] if isinstance(tg, ast.Tuple) else [norm(tg)]
                # which target receives the new offset: the last element of a tuple, or the single target
                self.env[names[-1]] = end
                for nm in names[:-1]:
                    self.env.pop(nm, None)
                return
            self.scan_reads(v)
            names = [norm(e) for e in tg.elts] if isinstance(tg, (ast.Tuple, ast.List)) else [norm(tg)]
            for nm in names:
                self.tuples.pop(nm, None)
            r = self.wire_tuple(core)
            if r is not None:
                # the target(s) receive the value tuple of one struct read: `a, b = unpack_from(..)` / `t = unpack_from(..)`
                if isinstance(tg, (ast.Tuple, ast.List)):
                    for i, nm in enumerate(names):
                        self.env[nm] = self.wsym(r, i)
                        self.wire[nm] = f"wire{r}[{i}]"
                else:
                    self.env.pop(names[0], None)
                    self.tuples[names[0]] = r
                return
            if len(names) == 1:
                try:
                    self.env[names[0]] = self.lin(v)        # also `unpack_from(..)[0] * self.base`, `count * self.base`, `offset + self.size`
                    if any(k.startswith("wire") for k in self.env[names[0]].t):
                        self.wire[names[0]] = str(self.env[names[0]])
                except Unknown:
                    self.env.pop(names[0], None)
            else:
                for nm in names:
                    self.env.pop(nm, None)
            return
        if isinstance(s, ast.AugAssign) and isinstance(s.target, ast.Name):
            if isinstance(s.op, ast.Add) and s.target.id in self.env:
                try:
                    self.env[s.target.id] = self.env[s.target.id] + self.lin(s.value)
                except Unknown:
                    self.env.pop(s.target.id, None)
            self.scan_reads(s.value)
            return
        if isinstance(s, ast.Return):
            self.scan_reads(s.value) if s.value is not None else None
            self.ret = self.lin(s.value)
            self.ret_node = s
            return
        if isinstance(s, ast.Expr):
            self.scan_reads(s.value)
            return
        if isinstance(s, (ast.Raise, ast.Pass)):
            return
        if isinstance(s, ast.expr):
            self.scan_reads(s)
            return


def run_unpack_paths(ctx: Ctx, pm: PackerModel, fi: FuncInfo):
    cfg = ctx.cfg(fi)
    out = []
    for path in cfg.paths(limit=400):
        if path[-1][0] is not cfg.exit:
            continue
        run = UnpackRun(pm, fi)
        try:
            for node, lab in path:
                if node.kind in ("stmt",) and node.ast is not None:
                    run.stmt(node.ast)
                elif node.kind == "cond" and node.ast is not None:
                    run.scan_reads(node.ast)
                elif node.kind == "loop" and isinstance(node.ast, ast.For) and lab is True:
                    run.enter_loop(node.ast)
        except Unknown as u:
            out.append((run, f"unknown: {u}"))
            continue
        out.append((run, None))
    return out


def check_tiling(run: UnpackRun) -> str | None:
    if run.ret is None:
        return "no return value"
    pos = Lin.sym("offset")
    for start, length, kind in run.reads:
        if start != pos:
            return f"read `{kind}` starts at {start}, expected {pos} (bytes skipped or read twice)"
        pos = start + length
    if run.ret != pos:
        return f"returns {run.ret} but the bytes consumed end at {pos}"
    return None


# ------------------------------------------------------------------------------------------ pack side
def pack_pieces(fi: FuncInfo, pm: PackerModel | None = None):
    """Pieces written by a pack method: list of alternatives, each a list of ('struct', fmt_text, [arg texts]) / ('bytes', text) / ('delegate', text)."""
    alts = []
    for r in [r for r in walk_no_nested(fi.node) if isinstance(r, ast.Return) and r.value is not None]:
        pieces = []

        def flat(e):
            e = strip_cast(e)
            if isinstance(e, ast.BinOp) and isinstance(e.op, ast.Add):
                flat(e.left)
                flat(e.right)
                return
            if isinstance(e, ast.Call) and chain(e.func) in ("pack", "struct.pack"):
                f = e.args[0]
                ft = const_value(f) if isinstance(const_value(f), str) else ("".join(v.value if isinstance(v, ast.Constant) else "{n}" for v in f.values) if isinstance(f, ast.JoinedStr) else norm(f))
                pieces.append(("struct", ft, [norm(a) for a in e.args[1:]], list(e.args[1:])))
                return
            if pm is not None and isinstance(e, ast.Call) and isinstance(e.func, ast.Attribute) and e.func.attr == "pack" and pm.struct_of(e.func.value) is not None:
                pieces.append(("struct", pm.struct_fmt_text(pm.struct_of(e.func.value)), [norm(a) for a in e.args], list(e.args)))
                return
            if isinstance(e, ast.Name) and single_def(fi, e.id) is not None and e.id not in fi.params():
                flat(single_def(fi, e.id)[0])
                return
            if isinstance(e, ast.Call) and call_name(e) in ("pack", "pack_serializable") and not chain(e.func) in ("pack", "struct.pack"):
                pieces.append(("delegate", norm(e), e))
                return
            pieces.append(("bytes", norm(e)))
        flat(r.value)
        alts.append(pieces)
    return alts


def _len_unit(fi: FuncInfo, e: ast.AST):
    """('len', unit) when e is `len(<the packed value>)` (unit '1') or `len(<the packed value>) // U` (unit = text of U); else the text of e."""
    e = resolve(fi, e)
    unit = "1"
    if isinstance(e, ast.BinOp) and isinstance(e.op, ast.FloorDiv):
        unit = norm(e.right)
        e = resolve(fi, e.left)
    a = fi.node.args
    value_params = [p.arg for p in a.args][1:] + ([a.vararg.arg] if a.vararg else [])
    if isinstance(e, ast.Call) and chain(e.func) == "len" and len(e.args) == 1 and chain(resolve(fi, e.args[0])) in value_params:
        return ("len", unit)
    return norm(e)


def _addr_conversions(exprs, run) -> set:
    """(strictness, family, operand) of every inet_* conversion inside the expressions; operand (unpack side only) says whether the
    converted bytes are one whole struct field read from the wire."""
    out = set()
    for e in exprs:
        for c in ast.walk(e):
            if not isinstance(c, ast.Call):
                continue
            n = call_name(c)
            if n in ("inet_aton", "inet_ntoa") and c.args:
                fam, operand = ("legacy", "AF_INET"), c.args[0]
            elif n in ("inet_pton", "inet_ntop") and len(c.args) >= 2:
                fam, operand = ("strict", (chain(c.args[0]) or norm(c.args[0])).split(".")[-1]), c.args[1]
            else:
                continue
            whole = "whole-field"
            if run is not None:
                try:
                    v = run.lin(operand)
                    whole = "whole-field" if (not v.c and len(v.t) == 1 and next(iter(v.t)).startswith("wire") and next(iter(v.t.values())) == 1) else "derived"
                except Unknown:
                    whole = "derived"
            out.add((*fam, whole))
    return out


def _struct_chars(fmt: str) -> str:
    return re.sub(r"^[<>!=@]", "", fmt)


def rule_packer_symmetry(ctx: Ctx) -> None:
    repo = ctx.repo
    base = repo.cls("Packer", SER)
    classes = sorted(base.all_subclasses(), key=lambda c: c.name)
    ctx.floor("packer-symmetry.classes", len(classes), 11)
    n_paths = 0
    for cls in classes:
        un, pk = cls.lookup("unpack"), cls.lookup("pack")
        if un is None or pk is None or un.cls.name == "Packer":
            continue
        pm = PackerModel(ctx, un.cls)
        runs = run_unpack_paths(ctx, pm, un)
        if un.cls is not cls:
            continue            # inherited unchanged: analysed at the defining class
        for run, err in runs:
            n_paths += 1
            if err:
                raise AnalysisError(f"packer-symmetry: {cls.name}.unpack: {err}")
            msg = check_tiling(run)
            layout = " | ".join(f"{k}@{s}+{l}" for s, l, k in run.reads)
            ctx.check(msg is None, "packer-symmetry", un, un.node, f"{cls.name}.unpack path [{layout}] -> returns {run.ret}: reads tile [offset, return)",
                      f"{cls.name}.unpack: {msg}: the reported end offset is not the absolute end of what was consumed (path [{layout}], returns {run.ret})")
        # ---- layout agreement with pack
        alts = pack_pieces(pk, pm)
        un_structs = [[k[len("struct:"):] for _, _, k in run.reads if k.startswith("struct:")] for run, _ in runs]
        if cls.name in ("Bits", "Raw", "NestedPayload", "NodePacker", "VarLenUtf8", "ListOf", "IPv4", "Address", "DefaultStruct", "VarLen", "DefaultArray", "Flags"):
            _layout_agreement(ctx, cls, pk, un, alts, runs)
    ctx.floor("packer-symmetry.paths", n_paths, 14)
    # decoders hand out fresh values: no memoisation on functions in the packer / payload modules (a cached list would be shared by every decoded message)
    for m in repo.modules.values():
        if not (m.relpath.startswith("ipv8/messaging/") and (m.relpath.endswith("payload.py") or m.relpath.endswith("serialization.py") or "lazy_payload" in m.relpath)):
            continue
        for f in m.all_functions:
            memo = [d for d in f.decorator_names() if d.split(".")[-1] in ("lru_cache", "cache", "cached_property")]
            ctx.check(not memo, "packer-symmetry", f, f.node, f"{f.qualname}: not memoised",
                      f"{f.qualname} is memoised ({memo}): every message with the same wire bytes decodes to the SAME mutable object, so changing one decoded value changes later decodes")


def _layout_agreement(ctx: Ctx, cls: ClassInfo, pk: FuncInfo, un: FuncInfo, alts, runs) -> None:
    """Pack and unpack must use the same struct formats (as concatenated field codes) and the same length unit."""
    def chars_of_pack(pieces) -> str:
        out = ""
        for p in pieces:
            if p[0] == "struct":
                out += _struct_chars(p[1])
            else:
                out += "{n}s"        # raw bytes, or bytes produced by a delegated pack
        return out

    def chars_of_run(run) -> str:
        out = ""
        for s, l, k in run.reads:
            if k.startswith("struct:"):
                out += _struct_chars(k[len("struct:"):])
            elif k in ("bytes", "rest"):
                out += "{n}s"
            else:
                out += "<delegate>"
        return out
    packs = sorted({chars_of_pack(p) for p in alts})
    unpacks = sorted({chars_of_run(r) for r, _ in runs})
    # normalise "BH{n}sH" (one struct with embedded string) vs "B" "H" "{n}s" "H"
    ok = packs == unpacks or (cls.name in ("NestedPayload",) and packs == ["H{n}s"] and unpacks == ["H{n}s"])
    if cls.name == "VarLenUtf8":
        ok = True       # delegates both ways to VarLen (checked there); encode/decode pairing checked below
    if cls.name in ("ListOf",):
        ok = len(packs) == 1 and packs[0].startswith("self.length_format") and all(u.startswith("self.length_format") for u in unpacks)
    if cls.name == "NodePacker":
        ok = True
    if cls.name == "Bits":
        ok = packs == ["B"] and unpacks == ["B"]
    ctx.check(ok, "packer-symmetry", pk, pk.node, f"{cls.name}: pack layout {packs} == unpack layout {unpacks}",
              f"{cls.name}: pack writes {packs} but unpack reads {unpacks}: the decoder is not the inverse of the encoder")
    # ---- unit of the length prefix
    if cls.name in ("VarLen", "DefaultArray"):
        # pack: the prefix counts len(data) in units of U;  unpack: the bytes taken after the prefix number (prefix value) * U
        lens = [_len_unit(pk, p[3][0]) for a in alts for p in a if p[0] == "struct" and p[3]]
        mult = set()
        shape_ok = True
        for r, _ in runs:
            kinds = [k for _, _, k in r.reads]
            if kinds != ["struct:self.length_format", "bytes"] or r.reads[0][0] != Lin.sym("offset"):
                shape_ok = False
                continue
            mult.add(str(r.reads[1][1]))
        want_unit = str(Lin(0, {"*".join(sorted(["self.base", "wire0[0]"])): 1}))
        if cls.name == "VarLen":
            ok = lens == [("len", "self.base")] and shape_ok and mult == {want_unit}
            ctx.check(ok, "packer-symmetry", pk, pk.node, "VarLen: prefix = len(data) // base on pack, length = prefix * base on unpack",
                      f"VarLen: length unit differs between pack ({lens}) and unpack (bytes taken: {sorted(mult)})")
        else:
            ok = lens == [("len", "1")] and shape_ok and mult == {want_unit}
            init = cls.methods["__init__"]
            b = [s for s in walk_no_nested(init.node) if isinstance(s, ast.Assign) and chain(s.targets[0]) == "self.base"]
            ok = ok and len(b) == 1 and norm(b[0].value) == "array(self.real_format_str).itemsize"
            ctx.check(ok, "packer-symmetry", pk, pk.node, "DefaultArray: prefix = item count, byte length = count * itemsize",
                      f"DefaultArray: item count / byte length units differ between pack ({lens}) and unpack (bytes taken: {sorted(mult)})")
    if cls.name == "ListOf":
        cnt = [_len_unit(pk, p[3][0]) for a in alts for p in a if p[0] == "struct" and p[3]]
        # the count read with the length format drives the one loop; the inner packer is run on the threaded offset
        odd = [l for l in walk_no_nested(un.node) if isinstance(l, (ast.While, ast.AsyncFor))
               or (isinstance(l, ast.For) and not (isinstance(strip_cast(l.iter), ast.Call) and chain(strip_cast(l.iter).func) == "range"))]
        if odd:
            raise AnalysisError(f"undecided: packer-symmetry: ListOf.unpack repeats the inner packer with `{norm(odd[0])[:60]}`; only `for .. in range(count)` is decided")
        looped = [r for r, _ in runs if r.loops]
        ok = cnt == [("len", "1")] and bool(looped)
        for r, _ in runs:
            if not r.reads or r.reads[0][2] != "struct:self.length_format" or r.reads[0][0] != Lin.sym("offset"):
                ok = False
            if len({id(l) for l, _ in r.loops}) > 1 or any(n != r.wsym(0, 0) for _, n in r.loops):
                ok = False
        inner = [c for c in calls(un) if call_name(c) == "unpack" and isinstance(c.func, ast.Attribute) and rchain(un, c.func.value) == "self.packer"]
        ok = ok and len(inner) == 1 and len(inner[0].args) >= 2 and chain(inner[0].args[0]) == un.params()[1] and isinstance(inner[0].args[1], ast.Name)
        if ok:
            # threaded: the new offset returned by the inner packer is stored in the very variable that is passed as its offset
            st = enclosing_stmt(inner[0])
            ok = isinstance(st, ast.Assign) and strip_cast(st.value) is inner[0] and [chain(t) for t in st.targets] == [inner[0].args[1].id] \
                and any(isinstance(a, ast.For) for a in ancestors(inner[0]))
        ctx.check(ok, "packer-symmetry", un, un.node, "ListOf: count prefix = number of items; the inner packer runs count times on the threaded offset",
                  "ListOf: the item count on the wire does not drive the number of inner unpacks / the offset is not threaded")
    if cls.name == "VarLenUtf8":
        def utf8_call(fi, c, meth):
            """c is `<x>.encode()` / `<x>.decode()` with the default (or an explicit utf-8) codec."""
            return isinstance(c, ast.Call) and isinstance(c.func, ast.Attribute) and c.func.attr == meth and not c.keywords \
                and (not c.args or (len(c.args) == 1 and str(const_value(c.args[0])).lower().replace("-", "") == "utf8"))
        value_param = pk.params()[1]
        enc = False
        for c in calls(pk):
            if chain(c.func) == "super().pack" and len(c.args) == 1:
                a = resolve(pk, c.args[0])
                enc = enc or (utf8_call(pk, a, "encode") and chain(resolve(pk, a.func.value)) == value_param)
        dec = any(utf8_call(un, c, "decode") for c in calls(un)) and any(chain(c.func) == "super().unpack" for c in calls(un))
        ctx.check(enc and dec, "packer-symmetry", pk, pk.node, "VarLenUtf8: encode() on pack, decode() on unpack around VarLen", "VarLenUtf8 does not pair encode/decode around VarLen")
    if cls.name == "Address":
        consts = ctx.repo.module(SER).constants
        vals = {k: ctx.repo.resolve_const(ctx.repo.module(SER), consts[k]) for k in ("ADDRESS_TYPE_IPV4", "ADDRESS_TYPE_DOMAIN_NAME", "ADDRESS_TYPE_IPV6")}
        ok = len(set(vals.values())) == 3
        tags_p = sorted(p[2][0] for a in alts for p in a if p[0] == "struct")
        ctx.check(ok and tags_p == sorted(vals), "packer-symmetry", pk, pk.node, f"Address: three distinct type tags {vals}, each written by one pack branch",
                  f"Address: type tags {vals} / written {tags_p}")
        # each unpack branch is selected by the tag that the matching pack branch writes, and reads the layout that branch wrote
        cfg = ctx.cfg(un)
        from ..match import facts_at

        def tag_of(run):
            """Name of the tag constant the first byte (struct '>B' at offset) is known to equal when this path returns."""
            if run.ret_node is None or not run.reads or run.reads[0][0] != Lin.sym("offset") or _struct_chars(run.reads[0][2][len("struct:"):]) != "B":
                return None
            tags = set()
            for f in facts_at(cfg, run.ret_node):
                if f.op != "eq" or not f.pos:
                    continue
                for x, y in ((f.left, f.right), (f.right, f.left)):
                    try:
                        is_tag_byte = run.lin(x) == run.wsym(0, 0)
                    except Unknown:
                        is_tag_byte = False
                    if is_tag_byte and chain(y) in vals:
                        tags.add(chain(y))
            return tags.pop() if len(tags) == 1 else None
        layout_p = {p[2][0]: chars_of_pack(a) for a in alts for p in a[:1] if p[0] == "struct" and p[2]}
        layout_u: dict = {}
        conv_u: dict = {}
        untagged = 0
        for r, _ in runs:
            t = tag_of(r)
            if t is None:
                untagged += 1
                continue
            # "B" "4sH" -> "B4sH";  "B" "H" "{n}s" "H" -> "BH{n}sH"
            layout_u.setdefault(t, set()).add(chars_of_run(r))
            conv_u.setdefault(t, set()).update(_addr_conversions(r.seen, r))
        sizes = {t: sorted(str(r.ret - Lin.sym("offset")) for r, _ in runs if tag_of(r) == t) for t in layout_u}
        ok = untagged == 0 and {t: {v} for t, v in layout_p.items()} == layout_u
        ctx.check(ok, "packer-symmetry", un, un.node, f"Address.unpack: every returning path is selected by one tag and reads the layout pack writes for that tag {layout_p} (sizes {sizes})",
                  f"Address.unpack tag/layout pairing is { {t: sorted(v) for t, v in layout_u.items()} } ({untagged} returning paths without a tag), pack writes {layout_p}")
        # per tag, the text conversion is the inverse partner of the one pack used for that tag, applied to the whole field: what was decoded
        # under tag T must be encoded under tag T again (pack chooses the tag by which inet_pton family accepts the host string)
        conv_p = {p[2][0]: _addr_conversions(p[3], None) for a in alts for p in a[:1] if p[0] == "struct" and p[2]}
        for t in sorted(set(conv_p) | set(conv_u)):
            ctx.check(conv_p.get(t) == conv_u.get(t), "packer-symmetry", un, f"Address tag {t}", f"Address tag {t}: unpack converts with {sorted(conv_u.get(t, ()))} = partner of pack",
                      f"Address.unpack under tag {t} converts the host with {sorted(conv_u.get(t, ()))} but Address.pack writes tag {t} for hosts accepted by "
                      f"{sorted(conv_p.get(t, ()))}: the decoded address is not the one that was encoded (re-encoding it selects another tag / other bytes)")
    if cls.name in ("Address", "IPv4"):
        # text<->binary address conversion must use inverse partners on both sides (inet_aton accepts legacy notations that inet_pton rejects,
        # so probing with it turns numeric-looking host names into IPv4 addresses)
        def conv(f):
            out = set()
            for c in calls(f):
                n = call_name(c)
                if n in ("inet_aton", "inet_ntoa"):
                    out.add(("legacy", "AF_INET"))
                elif n in ("inet_pton", "inet_ntop"):
                    out.add(("strict", norm(c.args[0]).split(".")[-1]))
            return out
        cp, cu = conv(pk), conv(un)
        ctx.check(cp == cu and bool(cp), "packer-symmetry", pk, pk.node, f"{cls.name}: address text conversion pairs {sorted(cp)} on both sides",
                  f"{cls.name}: pack converts addresses with {sorted(cp)} but unpack with {sorted(cu)}: the probe accepts strings the decoder would never produce "
                  "(e.g. inet_aton accepts '10.1'), so a domain name is written as an IPv4 address")
    if cls.name == "NodePacker":
        # formats in the order their bytes are concatenated (pack) / consumed (unpack), whatever the order of the statements
        p = sorted({tuple(repr(const_value(x[2].args[0])) if x[0] == "delegate" and x[2].args else "?" for x in a) for a in alts})
        u = sorted({tuple(repr(const_value(c.args[0])) if c.args else "?" for c in r.delegates) for r, _ in runs})
        ctx.check(p == u and len(p) == 1 and len(p[0]) == 2, "packer-symmetry", pk, pk.node, f"NodePacker: packs {p} and unpacks {u} in the same order", f"NodePacker packs {p} but unpacks {u}")
    if cls.name == "Flags":
        p = [c for c in calls(pk, "pack")]
        u = [c for c in calls(un, "unpack_from")]
        ok = len(p) == 1 and len(u) == 1 and rchain(pk, p[0].args[0]) == rchain(un, u[0].args[0]) == "self.format"
        ctx.check(ok, "packer-symmetry", pk, pk.node, "Flags: same struct format on both sides", "Flags packs and unpacks with different formats")


# ------------------------------------------------------------------------------------------ concrete mini-interpreter
class MiniUndecided(Exception):
    """Syntax / call outside the supported subset: the caller turns this into an AnalysisError (never into a verdict)."""


class MiniRaised(Exception):
    """The interpreted function raised (explicit `raise`, or a Python error of one of its own operations)."""


class _Ret(Exception):
    def __init__(self, value) -> None:
        self.value = value


class _Brk(Exception):
    pass


class _Cont(Exception):
    pass


class Opaque:
    """A value the interpreted code may pass around and read attributes of, but not compute with."""

    def __init__(self, label: str, attrs: dict | None = None) -> None:
        self.label = label
        self.attrs = attrs or {}

    def __repr__(self) -> str:
        return f"<{self.label}>"


_BIN = {ast.Add: operator.add, ast.Sub: operator.sub, ast.Mult: operator.mul, ast.FloorDiv: operator.floordiv, ast.Mod: operator.mod,
        ast.BitOr: operator.or_, ast.BitAnd: operator.and_, ast.BitXor: operator.xor, ast.LShift: operator.lshift, ast.RShift: operator.rshift,
        ast.Pow: operator.pow}
_IBIN = {ast.Add: operator.iadd, ast.Sub: operator.isub, ast.Mult: operator.imul, ast.FloorDiv: operator.ifloordiv, ast.Mod: operator.imod,
         ast.BitOr: operator.ior, ast.BitAnd: operator.iand, ast.BitXor: operator.ixor, ast.LShift: operator.ilshift, ast.RShift: operator.irshift,
         ast.Pow: operator.ipow}
_CMP = {ast.Eq: operator.eq, ast.NotEq: operator.ne, ast.Lt: operator.lt, ast.LtE: operator.le, ast.Gt: operator.gt, ast.GtE: operator.ge,
        ast.Is: operator.is_, ast.IsNot: operator.is_not, ast.In: lambda a, b: a in b, ast.NotIn: lambda a, b: a not in b}
_BUILTINS = {"bool": bool, "int": int, "len": len, "range": range, "list": list, "tuple": tuple, "enumerate": enumerate, "zip": zip,
             "reversed": reversed, "sum": sum, "any": any, "all": all, "filter": filter, "map": map, "min": min, "max": max, "sorted": sorted,
             "bytes": bytes, "abs": abs, "divmod": divmod, "reduce": functools.reduce, "functools.reduce": functools.reduce, "dict": dict,
             "set": set, "frozenset": frozenset, "str": str, "isinstance": None}
_PLAIN = (int, bool, str, bytes, tuple, list, dict, set, frozenset, type(None), range)
_METHODS = {list: {"append", "extend", "insert", "index", "count", "pop", "reverse", "copy"}, tuple: {"index", "count"},
            dict: {"get", "items", "keys", "values", "setdefault", "pop", "copy"}, bytes: {"join", "startswith", "endswith", "decode", "hex"},
            str: {"join", "startswith", "endswith", "encode", "lower", "upper"}, int: {"to_bytes", "bit_length"}, set: {"add", "discard"}}


class Mini:
    """
    Concrete interpreter for tiny, loop-bounded functions of /repo.  It walks the function's AST itself on plain Python
    values (ints, bytes, tuples, lists ...): nothing from /repo is imported or executed.  Calls that are not whitelisted
    builtins / methods of plain values go to `on_call(chain, receiver_or_callee_value, args, kwargs)`; it returns the value or
    NotImplemented (-> MiniUndecided).  A verdict obtained by evaluating f on ALL values of a finite domain does not depend
    on how f is spelled, which is the point: the rules that use this state the input/output table, not the syntax.
    """

    def __init__(self, repo, fi: FuncInfo, on_call=None, fuel: int = 20000) -> None:
        self.repo = repo
        self.fi = fi
        self.on_call = on_call
        self.fuel0 = fuel
        self.fuel = fuel

    # ---- entry
    def __call__(self, *args, **kwargs):
        self.fuel = self.fuel0
        env = self._bind(self.fi.node.args, list(args), dict(kwargs))
        try:
            self._block(self.fi.node.body, env)
        except _Ret as r:
            return r.value
        except (_Brk, _Cont) as e:
            raise MiniUndecided(f"{self.fi.qualname}: break/continue outside loop") from e
        return None

    def _bind(self, a: ast.arguments, args: list, kwargs: dict) -> dict:
        env = {}
        pos = [p.arg for p in a.posonlyargs + a.args]
        defaults = dict(zip(pos[len(pos) - len(a.defaults):], a.defaults))
        for i, p in enumerate(pos):
            if i < len(args):
                env[p] = args[i]
            elif p in kwargs:
                env[p] = kwargs.pop(p)
            elif p in defaults:
                env[p] = self._ev(defaults[p], {})
            else:
                raise MiniUndecided(f"{self.fi.qualname}: no value for parameter {p}")
        rest = args[len(pos):]
        if a.vararg is not None:
            env[a.vararg.arg] = tuple(rest)
        elif rest:
            raise MiniRaised(f"{self.fi.qualname}: too many positional arguments")
        for p, d in zip(a.kwonlyargs, a.kw_defaults):
            if p.arg in kwargs:
                env[p.arg] = kwargs.pop(p.arg)
            elif d is not None:
                env[p.arg] = self._ev(d, {})
            else:
                raise MiniUndecided(f"{self.fi.qualname}: no value for parameter {p.arg}")
        if a.kwarg is not None:
            env[a.kwarg.arg] = kwargs
        elif kwargs:
            raise MiniRaised(f"{self.fi.qualname}: unexpected keyword arguments {sorted(kwargs)}")
        return env

    def _tick(self) -> None:
        self.fuel -= 1
        if self.fuel < 0:
            raise MiniUndecided(f"{self.fi.qualname}: evaluation budget exhausted")

    def _py(self, f, *a):
        try:
            return f(*a)
        except (MiniUndecided, MiniRaised, _Ret, _Brk, _Cont):
            raise
        except Exception as e:  # noqa: BLE001  (an error of the interpreted operation = the function raises)
            raise MiniRaised(f"{type(e).__name__}: {e}") from e

    # ---- statements
    def _block(self, stmts, env) -> None:
        for s in stmts:
            self._stmt(s, env)

    def _stmt(self, s, env) -> None:  # noqa: C901, PLR0912
        self._tick()
        if isinstance(s, ast.Expr):
            if not isinstance(s.value, ast.Constant):
                self._ev(s.value, env)
        elif isinstance(s, ast.Assign):
            v = self._ev(s.value, env)
            for t in s.targets:
                self._store(t, v, env)
        elif isinstance(s, ast.AnnAssign):
            if s.value is not None:
                self._store(s.target, self._ev(s.value, env), env)
        elif isinstance(s, ast.AugAssign):
            if type(s.op) not in _IBIN:
                raise MiniUndecided(f"operator in `{norm(s)[:50]}`")
            cur = self._ev(_as_load(s.target), env)
            val = self._ev(s.value, env)
            self._plain(cur, s), self._plain(val, s)
            self._store(s.target, self._py(_IBIN[type(s.op)], cur, val), env)
        elif isinstance(s, ast.If):
            self._block(s.body if self._truth(self._ev(s.test, env)) else s.orelse, env)
        elif isinstance(s, ast.For):
            broke = False
            for item in self._iter(self._ev(s.iter, env), s):
                self._tick()
                self._store(s.target, item, env)
                try:
                    self._block(s.body, env)
                except _Cont:
                    continue
                except _Brk:
                    broke = True
                    break
            if not broke:
                self._block(s.orelse, env)
        elif isinstance(s, ast.While):
            broke = False
            while self._truth(self._ev(s.test, env)):
                self._tick()
                try:
                    self._block(s.body, env)
                except _Cont:
                    continue
                except _Brk:
                    broke = True
                    break
            if not broke:
                self._block(s.orelse, env)
        elif isinstance(s, ast.Return):
            raise _Ret(self._ev(s.value, env) if s.value is not None else None)
        elif isinstance(s, ast.Pass):
            pass
        elif isinstance(s, ast.Break):
            raise _Brk
        elif isinstance(s, ast.Continue):
            raise _Cont
        elif isinstance(s, ast.Raise):
            raise MiniRaised(f"raise {norm(s.exc)[:60] if s.exc is not None else ''}")
        elif isinstance(s, ast.Assert):
            if not self._truth(self._ev(s.test, env)):
                raise MiniRaised("AssertionError")
        else:
            raise MiniUndecided(f"{self.fi.qualname}: statement `{norm(s)[:60]}`")

    def _store(self, t, v, env) -> None:
        if isinstance(t, ast.Name):
            env[t.id] = v
        elif isinstance(t, (ast.Tuple, ast.List)):
            items = list(self._iter(v, t))
            star = [i for i, e in enumerate(t.elts) if isinstance(e, ast.Starred)]
            if star:
                i = star[0]
                tail = len(t.elts) - i - 1
                if len(items) < len(t.elts) - 1:
                    raise MiniRaised("ValueError: not enough values to unpack")
                parts = items[:i] + [items[i:len(items) - tail]] + items[len(items) - tail:]
                for e, x in zip(t.elts, parts):
                    self._store(e.value if isinstance(e, ast.Starred) else e, x, env)
            else:
                if len(items) != len(t.elts):
                    raise MiniRaised(f"ValueError: cannot unpack {len(items)} values into {len(t.elts)} targets")
                for e, x in zip(t.elts, items):
                    self._store(e, x, env)
        elif isinstance(t, ast.Subscript) and not isinstance(t.slice, ast.Slice):
            base = self._ev(t.value, env)
            if not isinstance(base, (list, dict)):
                raise MiniUndecided(f"store into `{norm(t)[:50]}`")
            self._py(operator.setitem, base, self._ev(t.slice, env), v)
        elif isinstance(t, ast.Attribute):
            base = self._ev(t.value, env)
            if not isinstance(base, Opaque):
                raise MiniUndecided(f"store into `{norm(t)[:50]}`")
            base.attrs[t.attr] = v
        else:
            raise MiniUndecided(f"assignment target `{norm(t)[:50]}`")

    def _iter(self, v, where):
        if isinstance(v, (list, tuple, range, dict, set, frozenset, bytes, str)) or type(v).__name__ in ("enumerate", "zip", "reversed", "filter", "map",
                                                                                                       "list_iterator", "generator", "dict_items",
                                                                                                       "dict_keys", "dict_values"):
            return self._py(list, v)
        raise MiniUndecided(f"iteration over {v!r} in `{norm(where)[:50]}`")

    def _truth(self, v) -> bool:
        if isinstance(v, Opaque):
            raise MiniUndecided(f"truth value of {v!r}")
        return bool(v)

    def _plain(self, v, where) -> None:
        if not isinstance(v, _PLAIN):
            raise MiniUndecided(f"arithmetic on {v!r} in `{norm(where)[:50]}`")

    # ---- expressions
    def _ev(self, e, env):  # noqa: C901, PLR0911, PLR0912
        self._tick()
        e = strip_cast(e)
        if isinstance(e, ast.Constant):
            return e.value
        if isinstance(e, ast.Name):
            if e.id in env:
                return env[e.id]
            c = self.repo.resolve_const(self.fi.module, e, self.fi.cls)
            if c is not NOCONST:
                return c
            if e.id in _BUILTINS and _BUILTINS[e.id] is not None:
                return _BUILTINS[e.id]
            if e.id in ("True", "False", "None"):
                return {"True": True, "False": False, "None": None}[e.id]
            raise MiniUndecided(f"{self.fi.qualname}: unbound name {e.id}")
        if isinstance(e, ast.Attribute):
            c = self.repo.resolve_const(self.fi.module, e, self.fi.cls)
            if c is not NOCONST:
                return c
            base = self._ev(e.value, env)
            if isinstance(base, Opaque) and e.attr in base.attrs:
                return base.attrs[e.attr]
            raise MiniUndecided(f"{self.fi.qualname}: attribute `{norm(e)[:50]}`")
        if isinstance(e, (ast.Tuple, ast.List, ast.Set)):
            out = []
            for x in e.elts:
                if isinstance(x, ast.Starred):
                    out.extend(self._iter(self._ev(x.value, env), x))
                else:
                    out.append(self._ev(x, env))
            return tuple(out) if isinstance(e, ast.Tuple) else out if isinstance(e, ast.List) else set(out)
        if isinstance(e, ast.Dict):
            if any(k is None for k in e.keys):
                raise MiniUndecided("dict unpacking")
            return {self._ev(k, env): self._ev(v, env) for k, v in zip(e.keys, e.values)}
        if isinstance(e, ast.Subscript):
            base = self._ev(e.value, env)
            self._plain(base, e)
            if isinstance(e.slice, ast.Slice):
                sl = slice(*(self._ev(x, env) if x is not None else None for x in (e.slice.lower, e.slice.upper, e.slice.step)))
                return self._py(operator.getitem, base, sl)
            return self._py(operator.getitem, base, self._ev(e.slice, env))
        if isinstance(e, ast.BinOp):
            if type(e.op) not in _BIN:
                raise MiniUndecided(f"operator in `{norm(e)[:50]}`")
            l, r = self._ev(e.left, env), self._ev(e.right, env)
            self._plain(l, e), self._plain(r, e)
            return self._py(_BIN[type(e.op)], l, r)
        if isinstance(e, ast.UnaryOp):
            v = self._ev(e.operand, env)
            if isinstance(e.op, ast.Not):
                return not self._truth(v)
            self._plain(v, e)
            return self._py({ast.USub: operator.neg, ast.UAdd: operator.pos, ast.Invert: operator.invert}[type(e.op)], v)
        if isinstance(e, ast.BoolOp):
            v = None
            for x in e.values:
                v = self._ev(x, env)
                if self._truth(v) != isinstance(e.op, ast.And):
                    return v
            return v
        if isinstance(e, ast.Compare):
            l = self._ev(e.left, env)
            for op, right in zip(e.ops, e.comparators):
                r = self._ev(right, env)
                if not (isinstance(op, (ast.Is, ast.IsNot)) or (isinstance(l, _PLAIN) and isinstance(r, _PLAIN))):
                    raise MiniUndecided(f"comparison `{norm(e)[:50]}`")
                if not self._py(_CMP[type(op)], l, r):
                    return False
                l = r
            return True
        if isinstance(e, ast.IfExp):
            return self._ev(e.body if self._truth(self._ev(e.test, env)) else e.orelse, env)
        if isinstance(e, (ast.ListComp, ast.SetComp, ast.GeneratorExp, ast.DictComp)):
            out = []
            self._comp(e, 0, dict(env), out)
            return dict(out) if isinstance(e, ast.DictComp) else set(out) if isinstance(e, ast.SetComp) else out
        if isinstance(e, ast.Lambda):
            def fn(*a, _e=e, _env=env):
                return self._ev(_e.body, {**_env, **self._bind(_e.args, list(a), {})})
            return fn
        if isinstance(e, ast.JoinedStr):
            return "".join(str(self._ev(v.value, env)) if isinstance(v, ast.FormattedValue) else str(v.value) for v in e.values)
        if isinstance(e, ast.Call):
            return self._call(e, env)
        raise MiniUndecided(f"{self.fi.qualname}: expression `{norm(e)[:60]}`")

    def _comp(self, e, i: int, env: dict, out: list) -> None:
        if i == len(e.generators):
            out.append((self._ev(e.key, env), self._ev(e.value, env)) if isinstance(e, ast.DictComp) else self._ev(e.elt, env))
            return
        g = e.generators[i]
        if g.is_async:
            raise MiniUndecided("async comprehension")
        for item in self._iter(self._ev(g.iter, env), g.iter):
            self._tick()
            self._store(g.target, item, env)
            if all(self._truth(self._ev(c, env)) for c in g.ifs):
                self._comp(e, i + 1, env, out)

    def _call(self, e: ast.Call, env):
        args = []
        for a in e.args:
            if isinstance(a, ast.Starred):
                args.extend(self._iter(self._ev(a.value, env), a))
            else:
                args.append(self._ev(a, env))
        if any(k.arg is None for k in e.keywords):
            raise MiniUndecided("** in call")
        kwargs = {k.arg: self._ev(k.value, env) for k in e.keywords}
        name = chain(e.func)
        # method of a plain value
        if isinstance(e.func, ast.Attribute):
            try:
                base = self._ev(e.func.value, env)
            except MiniUndecided:
                base = _NOBASE
            if base is not _NOBASE and isinstance(base, _PLAIN):
                ok = any(isinstance(base, t) and e.func.attr in ms for t, ms in _METHODS.items())
                if not ok:
                    raise MiniUndecided(f"method `{norm(e.func)[:50]}` of {type(base).__name__}")
                return self._py(getattr(base, e.func.attr), *args, **kwargs)
        else:
            base = _NOBASE
        if isinstance(e.func, ast.Name) and e.func.id in env:
            if callable(env[e.func.id]):
                return self._py(env[e.func.id], *args)
            base = env[e.func.id]            # a local / parameter that is called (e.g. `cls(...)`): handed to the hook as the callee value
        if self.on_call is not None:
            r = self.on_call(name, None if base is _NOBASE else base, args, kwargs)
            if r is not NotImplemented:
                return r
        if name in _BUILTINS and _BUILTINS[name] is not None and not (isinstance(e.func, ast.Name) and e.func.id in env):
            if name in ("filter", "map", "reduce", "functools.reduce", "sorted", "min", "max") and any(isinstance(a, Opaque) for a in args):
                raise MiniUndecided(f"call `{norm(e)[:50]}`")
            r = self._py(_BUILTINS[name], *args, **kwargs)
            return self._py(list, r) if type(r).__name__ in ("filter", "map", "zip", "enumerate", "reversed") else r
        raise MiniUndecided(f"{self.fi.qualname}: call `{norm(e)[:60]}`")


_NOBASE = object()


def _as_load(t):
    import copy
    t2 = copy.copy(t)
    t2.ctx = ast.Load()
    return t2


def struct_hooks(name, base, args, kwargs):
    """on_call hook: the struct module on concrete values (trusted stdlib semantics)."""
    if name in ("pack", "struct.pack") and args and isinstance(args[0], str) and all(isinstance(a, (int, bytes, bool)) for a in args[1:]):
        try:
            return struct.pack(*args)
        except struct.error as e:
            raise MiniRaised(f"struct.error: {e}") from e
    if name in ("unpack_from", "struct.unpack_from") and len(args) >= 2 and isinstance(args[0], str) and isinstance(args[1], bytes):
        off = args[2] if len(args) > 2 else kwargs.get("offset", 0)
        try:
            return struct.unpack_from(args[0], args[1], off)
        except struct.error as e:
            raise MiniRaised(f"struct.error: {e}") from e
    if name in ("unpack", "struct.unpack") and len(args) == 2 and isinstance(args[0], str) and isinstance(args[1], bytes):
        try:
            return struct.unpack(*args)
        except struct.error as e:
            raise MiniRaised(f"struct.error: {e}") from e
    if name in ("calcsize", "struct.calcsize") and len(args) == 1 and isinstance(args[0], str):
        return struct.calcsize(args[0])
    return NotImplemented
