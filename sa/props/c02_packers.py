"""C02.packer-symmetry: abstract run of every Packer.pack / Packer.unpack (offset arithmetic, layout agreement)."""
from __future__ import annotations

import ast
import functools
import operator
import re
import struct

from ..core import Ctx
from ..match import arg, call_name, calls, local_defs, rchain, resolve, single_def
from ..model import NOCONST, AnalysisError, ClassInfo, FuncInfo, ancestors, chain, clone, const_value, enclosing_stmt, norm, strip_cast, walk_no_nested

SER = "ipv8/messaging/serialization.py"


# ------------------------------------------------------------------------------------------ linear forms
class Lin:
    """Integer linear form  const + sum coeff*symbol  (symbols are strings)."""

    def __init__(self, const: int = 0, terms: dict[str, int] | None = None) -> None:
        self.c = const
        self.t = {k: v for k, v in (terms or {}).items() if v}

    @staticmethod
    def sym(s: str) -> "Lin":
        return Lin(0, {s: 1})

    def __add__(self, o: "Lin") -> "Lin":
        t = dict(self.t)
        for k, v in o.t.items():
            t[k] = t.get(k, 0) + v
        return Lin(self.c + o.c, t)

    def __sub__(self, o: "Lin") -> "Lin":
        return self + o.scale(-1)

    def scale(self, k: int) -> "Lin":
        return Lin(self.c * k, {s: v * k for s, v in self.t.items()})

    def __eq__(self, o) -> bool:
        return isinstance(o, Lin) and self.c == o.c and self.t == o.t

    def __hash__(self) -> int:
        return hash((self.c, frozenset(self.t.items())))

    def __str__(self) -> str:
        parts = [f"{v}*{k}" if v != 1 else k for k, v in sorted(self.t.items())]
        if self.c or not parts:
            parts.append(str(self.c))
        return " + ".join(parts)


class Unknown(Exception):
    pass


class _Infeasible(Exception):
    """The path cannot be taken under the assumed tag value / the selected entry of a constant table."""


_WRAPPERS = ("MappingProxyType", "types.MappingProxyType", "dict", "tuple", "list", "frozenset")


_NOTAG = object()


def const_display(repo, fi: FuncInfo, k: ClassInfo | None, e: ast.AST) -> ast.AST | None:
    """The literal (tuple / list / dict / set display) that e denotes when e is such a display or names a module-level / class-level constant."""
    def is_local(name: str) -> bool:
        return name in fi.params() or bool(local_defs(fi, name))
    e = strip_cast(e)
    for _ in range(4):
        if isinstance(e, ast.Call) and chain(e.func) in _WRAPPERS and len(e.args) == 1 and not e.keywords:
            e = strip_cast(e.args[0])
            continue
        if isinstance(e, (ast.Tuple, ast.List, ast.Dict, ast.Set)):
            return e
        if isinstance(e, ast.Name) and not is_local(e.id):
            r = repo.resolve_name(fi.module, e.id)
            if isinstance(r, tuple) and r[0] == "const":
                e = strip_cast(r[2])
                continue
            a = k.lookup_attr(e.id) if k is not None else None      # a name used inside a class-level table
            if a is not None:
                e = strip_cast(a)
                continue
            return None
        if isinstance(e, ast.Attribute) and isinstance(e.value, ast.Name):
            kk = k if e.value.id in ("self", "cls") else repo.resolve_class_expr(fi.module, e.value)
            a = kk.lookup_attr(e.attr) if kk is not None else None
            if a is not None and not any(isinstance(st, ast.Assign) and chain(st.targets[0]) == f"self.{e.attr}"
                                         for m in kk.methods.values() for st in walk_no_nested(m.node)):
                e = strip_cast(a)
                continue
            return None
        return None
    return None


def table_entries(const_expr, it: ast.AST) -> list[ast.AST] | None:
    it = strip_cast(it)
    if isinstance(it, ast.Call) and isinstance(it.func, ast.Attribute) and it.func.attr in ("items", "keys", "values") and not it.args and not it.keywords:
        d = const_expr(it.func.value)
        if isinstance(d, ast.Dict) and d.keys and all(k is not None for k in d.keys):
            if it.func.attr == "items":
                return [ast.Tuple(elts=[k, v], ctx=ast.Load()) for k, v in zip(d.keys, d.values)]
            return list(d.keys if it.func.attr == "keys" else d.values)
        return None
    t = const_expr(it)
    if isinstance(t, (ast.Tuple, ast.List)) and t.elts and not any(isinstance(x, ast.Starred) for x in t.elts):
        return list(t.elts)
    if isinstance(t, ast.Dict) and t.keys and all(k is not None for k in t.keys):
        return list(t.keys)
    return None


class PackerModel:
    def __init__(self, ctx: Ctx, cls: ClassInfo) -> None:
        self.ctx = ctx
        self.cls = cls
        self.size_attr: dict[str, str] = {}      # self.length_size -> "size(self.length_format)"
        self.fmt_attr: set[str] = set()
        self.struct_attr: dict[str, ast.AST | str] = {}   # self.X = Struct(fmt)  ->  X: fmt (constant node, or "self.<attr>" text)
        init = cls.lookup("__init__")
        if init is not None and init.cls.name not in ("Packer", "object"):
            for k in cls.mro():
                i = k.methods.get("__init__")
                if i is None:
                    continue
                stored = {}
                for s in sorted((x for x in walk_no_nested(i.node) if isinstance(x, ast.stmt)), key=lambda x: x.lineno):
                    if isinstance(s, ast.Assign) and chain(s.targets[0]) and chain(s.targets[0]).startswith("self."):
                        v = strip_cast(s.value)
                        a = s.targets[0].attr
                        if isinstance(v, ast.Name):
                            stored[v.id] = a
                        if isinstance(v, ast.Attribute) and isinstance(v.value, ast.Call) and chain(v.value.func) in ("Struct", "struct.Struct") and v.attr == "size":
                            src = v.value.args[0]
                            self.size_attr[a] = f"size({self._fmt_text(src, stored)})"
                        if isinstance(v, ast.Call) and chain(v.func) in ("calcsize", "struct.calcsize"):
                            self.size_attr[a] = f"size({self._fmt_text(v.args[0], stored)})"
                        if isinstance(v, ast.Call) and chain(v.func) in ("Struct", "struct.Struct") and len(v.args) == 1:
                            self.struct_attr[a] = v.args[0] if isinstance(const_value(v.args[0]), str) else self._fmt_text(v.args[0], stored)
                        if isinstance(v, ast.Attribute) and chain(v) and chain(v).startswith("self.") and chain(v).count(".") == 2 and v.attr == "size" \
                                and v.value.attr in self.struct_attr:
                            self.size_attr[a] = self.struct_size_text(v.value.attr)

    @staticmethod
    def _fmt_text(e: ast.AST, stored: dict[str, str]) -> str:
        if isinstance(e, ast.Name) and e.id in stored:
            return f"self.{stored[e.id]}"
        return norm(e)

    def struct_fmt_text(self, attr: str) -> str:
        """Format of the precompiled struct self.<attr>, as the text an inline unpack_from(fmt, ..) would show."""
        f = self.struct_attr[attr]
        return f if isinstance(f, str) else (const_value(f) if isinstance(const_value(f), str) else norm(f))

    def struct_size_text(self, attr: str) -> str:
        return f"size({self.struct_fmt_text(attr)})"

    def struct_size(self, attr: str) -> Lin:
        f = self.struct_attr[attr]
        if not isinstance(f, str) and isinstance(const_value(f), str):
            return Lin(struct.calcsize(const_value(f)))
        return Lin.sym(self.struct_size_text(attr))

    def struct_of(self, e: ast.AST) -> str | None:
        """attr name X if e is `self.X` and X holds a precompiled Struct."""
        if isinstance(e, ast.Attribute) and isinstance(e.value, ast.Name) and e.value.id == "self" and e.attr in self.struct_attr:
            return e.attr
        # a precompiled struct held in a module-level / class-level constant: NAME = Struct(fmt)
        init = None
        key = None
        if isinstance(e, ast.Name):
            r = self.ctx.repo.resolve_name(self.cls.module, e.id)
            if isinstance(r, tuple) and r[0] == "const":
                init, key = strip_cast(r[2]), "@" + e.id
        elif isinstance(e, ast.Attribute) and isinstance(e.value, ast.Name) and e.value.id in ("self", "cls", self.cls.name):
            a = self.cls.lookup_attr(e.attr)
            if a is not None:
                init, key = strip_cast(a), "@" + self.cls.name + "." + e.attr
        if isinstance(init, ast.Call) and chain(init.func) in ("Struct", "struct.Struct") and len(init.args) == 1 and isinstance(const_value(init.args[0]), str):
            self.struct_attr.setdefault(key, init.args[0])
            return key
        return None

    def fmt_size(self, e: ast.AST) -> Lin:
        cv = const_value(e)
        if isinstance(cv, str):
            return Lin(struct.calcsize(cv))
        return Lin.sym(f"size({norm(e)})")


class UnpackRun:
    """Symbolic run of one path of an unpack method."""

    def __init__(self, pm: PackerModel, fi: FuncInfo) -> None:
        self.pm = pm
        self.fi = fi
        p = fi.params()
        self.data, self.off = p[1], p[2]
        self.env: dict[str, Lin] = {self.off: Lin.sym("offset")}
        self.reads: list[tuple[Lin, Lin, str]] = []
        self.wire: dict[str, str] = {}          # local name -> description of the wire value
        self.ret: Lin | None = None
        self.ret_node: ast.Return | None = None
        self.fresh = 0
        self.read_of: dict[int, int] = {}       # id(unpack_from call) -> index into self.reads
        self.tuples: dict[str, int] = {}        # local bound to the whole tuple of a struct read -> read index
        self.loops: list[tuple[ast.For, Lin | None]] = []    # for-loops entered on this path and the linear form of `range(N)`'s N
        self.seen: list[ast.AST] = []           # every expression evaluated on this path (for per-path call inventories)
        self.delegates: list[ast.Call] = []     # delegated unpack calls in the order they consume bytes
        self.delegate_fmts: list = []           # their first argument (format name) with bound locals replaced
        self.bind: dict[str, ast.AST] = {}      # local name -> closed constant expression (entry of a constant table, argument of a followed helper)
        self.conds: list[tuple[ast.AST, bool]] = []   # condition atoms taken on this path with their outcome
        self.convs: set = set()                 # address text conversions evaluated on this path (see _addr_conversions)
        self.byte_of: dict[int, int] = {}       # id(`data[i]` subscript) -> index into self.reads
        self.assume: tuple[dict, str] | None = None   # ({tag constant name: value}, assumed tag name or "<other>") for the first wire byte
        self.memo: dict = {}                    # (constant dict, key value) -> the entry this path assumes the lookup yields
        self.frames: list = []                  # saved caller frames while a helper is followed
        self.retvals = None                     # value(s) returned by the frame that just finished (followed helper)

    _COPIED = ("env", "reads", "wire", "read_of", "tuples", "loops", "seen", "delegates", "delegate_fmts", "bind", "conds", "convs", "byte_of", "frames", "memo")

    def clone(self) -> "UnpackRun":
        r = UnpackRun.__new__(UnpackRun)
        r.__dict__.update(self.__dict__)
        for k in self._COPIED:
            v = getattr(self, k)
            setattr(r, k, dict(v) if isinstance(v, dict) else set(v) if isinstance(v, set) else list(v))
        return r

    # ---- constant bindings / constant tables
    def subst(self, e: ast.AST) -> ast.AST:
        """e with a bound local replaced by the constant expression it stands for (also `spec[1]` of a bound tuple literal)."""
        e = strip_cast(e)
        for _ in range(6):
            if isinstance(e, ast.Name) and e.id in self.bind and e.id not in self.env:
                e = strip_cast(self.bind[e.id])
                continue
            if self.memo and isinstance(e, (ast.Subscript, ast.Call)):
                k = self.memo_key(e)
                if k is not None and k in self.memo:
                    e = strip_cast(self.memo[k])
                    continue
            if isinstance(e, ast.Subscript) and not isinstance(e.slice, ast.Slice) and isinstance(strip_cast(e.value), (ast.Name, ast.Subscript)):
                base = self.subst(e.value)
                i = const_value(e.slice)
                if isinstance(base, (ast.Tuple, ast.List)) and isinstance(i, int) and not isinstance(i, bool) and -len(base.elts) <= i < len(base.elts) \
                        and not any(isinstance(x, ast.Starred) for x in base.elts):
                    e = strip_cast(base.elts[i])
                    continue
            break
        return e

    def _is_local(self, name: str) -> bool:
        return name in self.fi.params() or bool(local_defs(self.fi, name))

    def closed(self, e: ast.AST) -> bool:
        """e mentions no local of the current function (so it means the same wherever it is evaluated on this path)."""
        return not any(isinstance(n, ast.Name) and self._is_local(n.id) and n.id not in ("self", "cls") for n in ast.walk(e)) \
            and not any(isinstance(n, (ast.Call, ast.Lambda, ast.ListComp, ast.GeneratorExp, ast.DictComp, ast.SetComp, ast.Await, ast.NamedExpr)) for n in ast.walk(e))

    def const_expr(self, e: ast.AST) -> ast.AST | None:
        """The literal (tuple / list / dict / set display) a module-level or class-level constant table denotes, if e names one."""
        return const_display(self.pm.ctx.repo, self.fi, self.fi.cls or self.pm.cls, self.subst(e))

    def table_entries(self, it: ast.AST) -> list[ast.AST] | None:
        """Elements a `for` over a constant table visits (tuple / list display, dict display -> keys, D.items() -> (key, value) pairs)."""
        return table_entries(self.const_expr, it)

    def bind_pattern(self, tgt: ast.AST, value: ast.AST) -> None:
        """Bind the names of an assignment / loop target to a closed constant expression (element-wise for tuple displays)."""
        value = self.subst(value)
        if isinstance(tgt, ast.Name):
            for d in (self.env, self.tuples, self.wire, self.bind):
                d.pop(tgt.id, None)
            self.bind[tgt.id] = value
            return
        if isinstance(tgt, (ast.Tuple, ast.List)) and isinstance(value, (ast.Tuple, ast.List)) and len(tgt.elts) == len(value.elts) \
                and not any(isinstance(x, ast.Starred) for x in list(tgt.elts) + list(value.elts)):
            for t, v in zip(tgt.elts, value.elts):
                self.bind_pattern(t, v)
            return
        for n in ast.walk(tgt):
            if isinstance(n, ast.Name):
                for d in (self.env, self.tuples, self.wire, self.bind):
                    d.pop(n.id, None)

    # ---- decisions under the assumed tag / bound constants
    def _tag_byte(self, x: ast.AST) -> bool:
        try:
            return bool(self.reads) and self.reads[0][0] == Lin.sym("offset") and _struct_chars(self.reads[0][2][len("struct:"):]) == "B" \
                and self.reads[0][2].startswith("struct:") and self.lin(x) == self.wsym(0, 0)
        except Unknown:
            return False

    def _tagval(self, y: ast.AST):
        y = self.subst(y)
        vals = self.assume[0]
        c = chain(y)
        if c is not None and c.split(".")[-1] in vals:
            return vals[c.split(".")[-1]]
        cv = self.pm.ctx.repo.resolve_const(self.fi.module, y, self.fi.cls)
        return cv if isinstance(cv, int) and not isinstance(cv, bool) else None

    def _none_ness(self, e: ast.AST) -> bool | None:
        """True: e is None; False: e is certainly not None; None: unknown (e is a closed constant expression)."""
        if isinstance(e, ast.Constant):
            return e.value is None
        if isinstance(e, (ast.Tuple, ast.List, ast.Dict, ast.Set, ast.Lambda, ast.JoinedStr)):
            return False
        repo = self.pm.ctx.repo
        if isinstance(e, ast.Attribute) and isinstance(e.value, ast.Name) and e.value.id in ("self", "cls"):
            k = self.fi.cls or self.pm.cls
            return False if k is not None and k.lookup(e.attr) is not None else None
        if isinstance(e, ast.Name):
            r = repo.resolve_name(self.fi.module, e.id)
            k = self.fi.cls or self.pm.cls
            if isinstance(r, (FuncInfo, ClassInfo)) or (r is None and k is not None and k.lookup(e.id) is not None):
                return False
        cv = repo.resolve_const(self.fi.module, e, self.fi.cls)
        return None if cv is NOCONST else cv is None

    def decide(self, atom: ast.AST) -> bool | None:
        """Outcome of a condition atom that is fixed by the assumed tag value or by a bound constant; None when it is open."""
        a = strip_cast(atom)
        if isinstance(a, (ast.Name, ast.Subscript, ast.Call)) and self.subst(a) is not a:
            v = self.subst(a)
            nn = self._none_ness(v)
            if nn is True:
                return False
            if isinstance(v, (ast.Tuple, ast.List, ast.Dict, ast.Set)):
                return bool(v.elts if not isinstance(v, ast.Dict) else v.keys)
            if isinstance(v, ast.Constant):
                return bool(v.value)
            if nn is False and isinstance(v, (ast.Attribute, ast.Name, ast.Lambda)):
                cv = self.pm.ctx.repo.resolve_const(self.fi.module, v, self.fi.cls)
                return True if cv is NOCONST else bool(cv)
            return None
        if not (isinstance(a, ast.Compare) and len(a.ops) == 1):
            return None
        op, l, r = a.ops[0], a.left, a.comparators[0]
        if isinstance(op, (ast.Is, ast.IsNot, ast.Eq, ast.NotEq)):
            for x, y in ((l, r), (r, l)):
                if isinstance(y, ast.Constant) and y.value is None and isinstance(strip_cast(x), (ast.Name, ast.Subscript, ast.Call)):
                    sx = self.subst(x)
                    if sx is not strip_cast(x):
                        nn = self._none_ness(sx)
                        if nn is not None:
                            return nn == isinstance(op, (ast.Is, ast.Eq))
        if self.assume is None:
            return None
        vals, tag = self.assume
        assumed = vals.get(tag, _NOTAG)
        if isinstance(op, (ast.Eq, ast.NotEq, ast.Is, ast.IsNot)):
            for x, y in ((l, r), (r, l)):
                if self._tag_byte(x):
                    tv = self._tagval(y)
                    if tv is None:
                        return None
                    return (assumed == tv) == isinstance(op, (ast.Eq, ast.Is))
        if isinstance(op, (ast.In, ast.NotIn)) and self._tag_byte(l):
            c = self.const_expr(r)
            elts = None
            if isinstance(c, (ast.Tuple, ast.List, ast.Set)):
                elts = list(c.elts)
            elif isinstance(c, ast.Dict) and all(k is not None for k in c.keys):
                elts = list(c.keys)
            if elts is not None:
                tvs = [self._tagval(x) for x in elts]
                if all(t is not None for t in tvs):
                    return (assumed in tvs) == isinstance(op, ast.In)
        return None

    def cond(self, atom: ast.AST, lab) -> None:
        """A condition atom is evaluated with outcome `lab` on this path."""
        if lab in (True, False):
            v = self.decide(atom)
            if v is not None and v != lab:
                raise _Infeasible
            self.conds.append((atom, lab))
        self.scan_reads(atom)

    # ---- constant-table lookups: `x = TABLE[key]` / `TABLE.get(key[, default])`
    def table_lookup(self, v: ast.AST):
        """(dict display, key expression, default expression | None, raises_when_missing) if v looks a key up in a constant dict; else None."""
        v = strip_cast(v)
        if isinstance(v, ast.Subscript) and not isinstance(v.slice, ast.Slice):
            d = self.const_expr(v.value) if isinstance(strip_cast(v.value), (ast.Name, ast.Attribute, ast.Dict)) else None
            if isinstance(d, ast.Dict) and all(k is not None for k in d.keys):
                return d, v.slice, None, True
        if isinstance(v, ast.Call) and isinstance(v.func, ast.Attribute) and v.func.attr == "get" and 1 <= len(v.args) <= 2 and not v.keywords:
            d = self.const_expr(v.func.value) if isinstance(strip_cast(v.func.value), (ast.Name, ast.Attribute, ast.Dict)) else None
            if isinstance(d, ast.Dict) and all(k is not None for k in d.keys):
                return d, v.args[0], (v.args[1] if len(v.args) == 2 else ast.Constant(value=None)), False
        return None

    def memo_key(self, v: ast.AST):
        t = self.table_lookup(v)
        if t is None:
            return None
        d, key, default, raises = t
        try:
            kv = str(self.lin(key))
        except Unknown:
            kv = "?" + norm(self.subst(key))
        return (ast.dump(d), kv, raises, None if default is None else ast.dump(self.subst(default)))

    def lookup_alternatives(self, v: ast.AST) -> list[ast.AST] | None:
        """The closed expressions a constant-dict lookup may yield on this path (one under an assumed tag); raises _Infeasible for a KeyError."""
        t = self.table_lookup(v)
        if t is None:
            return None
        d, key, default, raises = t
        if default is not None:
            default = self.subst(default)
            if not self.closed(default):
                return None
        if not all(self.closed(x) for x in d.values):
            return None
        if self.assume is not None and self._tag_byte(key):
            vals, tag = self.assume
            assumed = vals.get(tag, _NOTAG)
            tvs = [self._tagval(k) for k in d.keys]
            if all(tv is not None for tv in tvs):
                hit = [val for tv, val in zip(tvs, d.values) if tv == assumed]
                if hit:
                    return [hit[-1]]
                if raises:
                    raise _Infeasible
                return [default]
        return list(d.values) + ([] if raises else [default])

    def wsym(self, read: int, index: int) -> Lin:
        """Symbol of value `index` of struct read number `read` (named by position of the read, not by the local it is stored in)."""
        return Lin.sym(f"wire{read}[{index}]")

    def wire_tuple(self, e: ast.AST) -> int | None:
        """Read index if e evaluates to the whole value tuple of an unpack_from on the data buffer."""
        e = strip_cast(e)
        if isinstance(e, ast.Call) and id(e) in self.read_of:
            return self.read_of[id(e)]
        if isinstance(e, ast.Name) and e.id in self.tuples:
            return self.tuples[e.id]
        return None

    def lin(self, e: ast.AST) -> Lin:
        e = strip_cast(e)
        cv = const_value(e)
        if isinstance(cv, int) and not isinstance(cv, bool):
            return Lin(cv)
        if isinstance(e, ast.Subscript) and id(e) in self.byte_of:
            return self.wsym(self.byte_of[id(e)], 0)
        if isinstance(e, (ast.Name, ast.Subscript)):
            b = self.subst(e)
            if b is not e:
                return self.lin(b)
        if isinstance(e, ast.Name):
            if e.id in self.env:
                return self.env[e.id]
            if e.id not in self.fi.params() and not local_defs(self.fi, e.id):
                c = self.pm.ctx.repo.resolve_const(self.fi.module, e, self.fi.cls)      # module-level integer constant
                if isinstance(c, int) and not isinstance(c, bool):
                    return Lin(c)
            raise Unknown(f"name {e.id}")
        if isinstance(e, ast.Attribute) and e.attr == "size" and self.pm.struct_of(e.value) is not None:
            return self.pm.struct_size(self.pm.struct_of(e.value))
        if isinstance(e, ast.Attribute) and chain(e) and chain(e).startswith("self."):
            a = e.attr
            if a in self.pm.size_attr and chain(e).count(".") == 1:
                v = self.pm.size_attr[a]
                m = re.fullmatch(r"size\('([^']*)'\)", v)
                return Lin(struct.calcsize(m.group(1))) if m else Lin.sym(v)
            return Lin.sym(chain(e))
        if isinstance(e, ast.Call) and chain(e.func) in ("calcsize", "struct.calcsize") and len(e.args) == 1:
            return self.pm.fmt_size(self.subst(e.args[0]))
        if isinstance(e, ast.BinOp):
            if isinstance(e.op, ast.Add):
                return self.lin(e.left) + self.lin(e.right)
            if isinstance(e.op, ast.Sub):
                return self.lin(e.left) - self.lin(e.right)
            if isinstance(e.op, ast.Mult):
                l, r = self.lin(e.left), self.lin(e.right)
                if not l.t:
                    return r.scale(l.c)
                if not r.t:
                    return l.scale(r.c)
                if len(l.t) == 1 and not l.c and len(r.t) == 1 and not r.c:
                    (a, ca), (b, cb) = next(iter(l.t.items())), next(iter(r.t.items()))
                    return Lin(0, {"*".join(sorted([a, b])): ca * cb})
        if isinstance(e, ast.Call) and chain(e.func) == "len" and chain(e.args[0]) == self.data:
            return Lin.sym("len(data)")
        if isinstance(e, ast.Subscript) and not isinstance(e.slice, ast.Slice):
            r, i = self.wire_tuple(e.value), const_value(e.slice)
            if r is not None and isinstance(i, int) and not isinstance(i, bool) and i >= 0:
                return self.wsym(r, i)
        raise Unknown(f"expression `{norm(e)[:50]}`")

    def scan_reads(self, e: ast.AST) -> None:
        """Record unpack_from calls and slices of the data buffer inside an expression (in source order)."""
        self.seen.append(e)
        nodes = sorted((n for n in ast.walk(e) if isinstance(n, (ast.Call, ast.Subscript))), key=lambda n: (getattr(n, "lineno", 0), getattr(n, "col_offset", 0)))
        for n in nodes:
            if isinstance(n, ast.Call) and chain(n.func) in ("unpack_from", "struct.unpack_from") and chain(arg(n, 1)) == self.data:
                off = arg(n, 2, "offset")
                start = self.lin(off) if off is not None else Lin(0)
                self.read_of[id(n)] = len(self.reads)
                f = self.subst(n.args[0])
                self.reads.append((start, self.pm.fmt_size(f), "struct:" + (const_value(f) if isinstance(const_value(f), str) else norm(f))))
            elif isinstance(n, ast.Subscript) and not isinstance(n.slice, ast.Slice) and chain(n.value) == self.data and self.data is not None:
                # data[i]: one unsigned byte, the same value as unpack_from(">B", data, i)[0]
                self.byte_of[id(n)] = len(self.reads)
                self.reads.append((self.lin(n.slice), Lin(1), "struct:>B"))
            elif isinstance(n, ast.Call) and isinstance(n.func, ast.Attribute) and n.func.attr == "unpack_from" and self.pm.struct_of(n.func.value) is not None \
                    and chain(arg(n, 0, "buffer")) == self.data:
                x = self.pm.struct_of(n.func.value)
                off = arg(n, 1, "offset")
                start = self.lin(off) if off is not None else Lin(0)
                self.read_of[id(n)] = len(self.reads)
                self.reads.append((start, self.pm.struct_size(x), "struct:" + self.pm.struct_fmt_text(x)))
            elif isinstance(n, ast.Subscript) and isinstance(n.slice, ast.Slice) and chain(n.value) == self.data:
                lo = self.lin(n.slice.lower) if n.slice.lower is not None else Lin(0)
                if n.slice.upper is None:
                    self.reads.append((lo, Lin.sym("len(data)") - lo, "rest"))
                else:
                    self.reads.append((lo, self.lin(n.slice.upper) - lo, "bytes"))
        self.convs |= _addr_conversions([e], self)

    def enter_loop(self, loop: ast.For) -> None:
        """The body of `for .. in range(N)` is entered: remember N as a linear form (None when it is not one)."""
        it = strip_cast(loop.iter)
        n = None
        if isinstance(it, ast.Call) and chain(it.func) == "range" and 1 <= len(it.args) <= 3 and not it.keywords:
            try:
                if len(it.args) == 1:
                    n = self.lin(it.args[0])
                elif len(it.args) == 2 or const_value(it.args[2]) == 1:
                    n = self.lin(it.args[1]) - self.lin(it.args[0])       # range(a, b[, 1]): b - a rounds (for b >= a)
            except Unknown:
                n = None
        self.loops.append((loop, n))
        for t in ast.walk(loop.target):
            if isinstance(t, ast.Name):
                self.env.pop(t.id, None)
                self.tuples.pop(t.id, None)

    def value_of(self, x: ast.AST):
        """What one right-hand side evaluates to on this path: ("tuple", read) | ("lin", Lin) | ("const", closed expr) | None (unknown)."""
        r = self.wire_tuple(x)
        if r is not None:
            return ("tuple", r)
        b = self.subst(x)
        cv = const_value(b)
        if self.closed(b) and not (isinstance(cv, int) and not isinstance(cv, bool)):
            return ("const", b)          # `self.length_format`, ">4sH", socket.AF_INET, a class: lin() still evaluates it through the binding
        try:
            return ("lin", self.lin(x))
        except Unknown:
            pass
        return None

    def assign(self, nm: str, val) -> None:
        for d in (self.tuples, self.env, self.wire, self.bind):
            d.pop(nm, None)
        if val is None:
            return
        if val[0] == "tuple":
            self.tuples[nm] = val[1]
        elif val[0] == "const":
            self.bind[nm] = val[1]
        else:
            self.env[nm] = val[1]
            if any(k.startswith("wire") for k in val[1].t):
                self.wire[nm] = str(val[1])

    # ---- followed helpers: a frame per call, sharing the reads / conditions of the path
    def push_frame(self, callee: FuncInfo, call: ast.Call, skip_first: bool) -> None:
        a = callee.node.args
        if a.vararg or a.kwarg or any(isinstance(x, ast.Starred) for x in call.args) or any(k.arg is None for k in call.keywords):
            raise Unknown(f"call of helper {callee.qualname} with * / **")
        params = [x.arg for x in a.posonlyargs + a.args]
        recv = params[0] if skip_first and params else None
        pos = params[1:] if skip_first else params
        if len(call.args) > len(pos):
            raise Unknown(f"call of helper {callee.qualname}: too many arguments")
        given: dict[str, ast.AST] = dict(zip(pos, call.args))
        for k in call.keywords:
            given[k.arg] = k.value
        defaults = dict(zip(params[len(params) - len(a.defaults):], a.defaults))
        for kw, d in zip(a.kwonlyargs, a.kw_defaults):
            pos.append(kw.arg)
            if d is not None:
                defaults[kw.arg] = d
        env, tuples, bind, data = {}, {}, {}, None
        for prm in pos:
            if prm in given:
                x = given[prm]
                if chain(x) == self.data and self.data is not None:
                    data = prm
                    continue
                val = self.value_of(x)
            elif prm in defaults:
                d = strip_cast(defaults[prm])
                val = ("const", d)
                cv = const_value(d)
                if isinstance(cv, int) and not isinstance(cv, bool):
                    val = ("lin", Lin(cv))
            else:
                raise Unknown(f"call of helper {callee.qualname}: no argument for {prm}")
            if val is None:
                continue
            if val[0] == "tuple":
                tuples[prm] = val[1]
            elif val[0] == "lin":
                env[prm] = val[1]
            else:
                bind[prm] = val[1]
        self.frames.append((self.fi, self.data, self.off, self.env, self.tuples, self.bind, self.wire, recv))
        self.fi, self.data, self.off = callee, data, None
        self.env, self.tuples, self.bind, self.wire = env, tuples, bind, {}
        self.retvals = None

    def finish_frame(self, ret: ast.Return | None) -> None:
        """The followed helper returns: evaluate its result in its own frame, then restore the caller's frame."""
        vals = None
        if ret is not None and ret.value is not None:
            self.scan_reads(ret.value)
            v = strip_cast(ret.value)
            lit = self.subst(v) if isinstance(v, (ast.Name, ast.Subscript)) else v
            if isinstance(lit, ast.Tuple) and not any(isinstance(x, ast.Starred) for x in lit.elts):
                vals = [self.value_of(x) for x in lit.elts]
            else:
                vals = self.value_of(v)
        fi, data, off, env, tuples, bind, wire, _ = self.frames.pop()
        self.fi, self.data, self.off = fi, data, off
        self.env, self.tuples, self.bind, self.wire = dict(env), dict(tuples), dict(bind), dict(wire)
        self.retvals = vals

    def enter_while(self, loop: ast.While) -> None:
        """
        `while` driven by a counter: `c = N ... while c > 0: ...; c -= 1` (also `while c`, `c != 0`, `c >= 1`) or
        `i = 0 ... while i < N: ...; i += 1` (also `i != N`, `N > i`): the number of rounds as a linear form, evaluated where the loop starts.
        """
        if any(l is loop for l, _ in self.loops):
            return
        n = None
        body_nodes = [x for st in loop.body for x in walk_no_nested(st)]
        jumps = any(isinstance(x, (ast.Break, ast.Continue)) for x in body_nodes)

        def steps(name: str):
            """the single top-level `name += k` / `name -= k` of the loop body, if that is the only store to name in the loop"""
            stores_ = [x for x in body_nodes if isinstance(x, ast.Name) and x.id == name and isinstance(x.ctx, ast.Store)]
            top = [st for st in loop.body if isinstance(st, ast.AugAssign) and isinstance(st.target, ast.Name) and st.target.id == name
                   and isinstance(st.op, (ast.Add, ast.Sub)) and const_value(st.value) == 1]
            if len(stores_) == 1 and len(top) == 1:
                return 1 if isinstance(top[0].op, ast.Add) else -1
            return None

        def stored(e: ast.AST) -> bool:
            names = {x.id for x in ast.walk(e) if isinstance(x, ast.Name)}
            return any(isinstance(x, ast.Name) and x.id in names and isinstance(x.ctx, ast.Store) for x in body_nodes)
        t = strip_cast(loop.test)
        try:
            if not jumps and not loop.orelse:
                if isinstance(t, ast.Name) and steps(t.id) == -1:
                    n = self.lin(t)
                elif isinstance(t, ast.Compare) and len(t.ops) == 1:
                    l, op, r = t.left, t.ops[0], t.comparators[0]
                    if isinstance(op, ast.Lt) or (isinstance(op, ast.LtE)):
                        l, op, r = r, (ast.Gt() if isinstance(op, ast.Lt) else ast.GtE()), l          # a < b  ==  b > a
                    if isinstance(l, ast.Name) and steps(l.id) == -1 and ((isinstance(op, (ast.Gt, ast.NotEq)) and const_value(r) == 0)
                                                                          or (isinstance(op, ast.GtE) and const_value(r) == 1)):
                        n = self.lin(l)                       # counts down to zero
                    elif isinstance(r, ast.Name) and steps(r.id) == 1 and isinstance(op, ast.Gt) and not stored(l):
                        n = self.lin(l) - self.lin(r)         # N > i, i counts up
                    elif isinstance(op, ast.NotEq):
                        for i_, n_ in ((l, r), (r, l)):
                            if isinstance(i_, ast.Name) and steps(i_.id) == 1 and not stored(n_):
                                n = self.lin(n_) - self.lin(i_)
        except Unknown:
            n = None
        self.loops.append((loop, n))

    def define_wire(self, targets: list[str], value: ast.AST) -> None:
        for t in targets:
            self.fresh += 1
            self.env[t] = Lin.sym(f"w:{t}")
            self.wire[t] = norm(value)

    def stmt(self, s: ast.AST) -> None:  # noqa: C901, PLR0912
        if isinstance(s, ast.Expr) and isinstance(s.value, ast.Constant):
            return
        if isinstance(s, (ast.Assign, ast.AnnAssign)):
            v = s.value
            if v is None:
                return
            tg = s.targets[0] if isinstance(s, ast.Assign) else s.target
            core = strip_cast(v)
            # delegated unpack: (value, offset) = X.unpack(fmt, data, offset)  |  offset = X.unpack(data, offset, ...)
            if isinstance(core, ast.Call) and call_name(core) == "unpack" and any(chain(a) == self.data for a in core.args):
                offarg = [a for a in core.args if chain(a) in self.env and a is not core.args[0] or (chain(a) == self.off)]
                start = None
                for a in core.args:
                    if isinstance(a, ast.Name) and a.id in self.env and a.id != self.data:
                        start = self.env[a.id]
                if start is None:
                    raise Unknown("delegated unpack without offset argument")
                self.fresh += 1
                end = Lin.sym(f"delegate{self.fresh}")
                self.reads.append((start, end - start, "delegate:" + norm(core.func)))
                self.delegates.append(core)
                self.delegate_fmts.append(self.subst(core.args[0]) if core.args else None)
                self.seen.append(v)
                names = [norm(e) for e in tg.elts] if isinstance(tg, ast.Tuple) else [norm(tg)]
                # which target receives the new offset: the last element of a tuple, or the single target
                self.env[names[-1]] = end
                for nm in names[:-1]:
                    self.env.pop(nm, None)
                return
            self.scan_reads(v)
            names = [norm(e) for e in tg.elts] if isinstance(tg, (ast.Tuple, ast.List)) else [norm(tg)]
            lit = self.subst(core) if isinstance(core, (ast.Name, ast.Subscript, ast.Call)) else core
            if isinstance(tg, (ast.Tuple, ast.List)) and isinstance(lit, (ast.Tuple, ast.List)) and len(lit.elts) == len(tg.elts) \
                    and not any(isinstance(x, ast.Starred) for x in list(lit.elts) + list(tg.elts)):
                # simultaneous assignment `a, b = (x, y)` (what is left of a helper that returned a pair; an entry of a constant table):
                # every right-hand side is evaluated before any target is bound, then each target receives its own element
                vals = [self.value_of(x) for x in lit.elts]
                for nm, val in zip(names, vals):
                    self.assign(nm, val)
                return
            if isinstance(tg, ast.Name) and lit is not core and self.closed(lit):
                self.bind_pattern(tg, lit)          # `fmt = spec[0]` of a bound table entry
                return
            for nm in names:
                self.tuples.pop(nm, None)
                self.bind.pop(nm, None)
            r = self.wire_tuple(core)
            if r is not None:
                # the target(s) receive the value tuple of one struct read: `a, b = unpack_from(..)` / `t = unpack_from(..)`
                if isinstance(tg, (ast.Tuple, ast.List)):
                    for i, nm in enumerate(names):
                        self.env[nm] = self.wsym(r, i)
                        self.wire[nm] = f"wire{r}[{i}]"
                else:
                    self.env.pop(names[0], None)
                    self.tuples[names[0]] = r
                return
            if len(names) == 1:
                # also `unpack_from(..)[0] * self.base`, `count * self.base`, `offset + self.size`; a closed constant expression is kept as such
                self.assign(names[0], self.value_of(v))
            else:
                for nm in names:
                    self.env.pop(nm, None)
            return
        if isinstance(s, ast.AugAssign) and isinstance(s.target, ast.Name):
            if s.target.id in self.bind and s.target.id not in self.env:
                try:
                    self.env[s.target.id] = self.lin(s.target)
                except Unknown:
                    pass
                self.bind.pop(s.target.id, None)
            if isinstance(s.op, (ast.Add, ast.Sub)) and s.target.id in self.env:
                try:
                    d = self.lin(s.value)
                    self.env[s.target.id] = self.env[s.target.id] + (d if isinstance(s.op, ast.Add) else d.scale(-1))
                except Unknown:
                    self.env.pop(s.target.id, None)
            else:
                self.env.pop(s.target.id, None)
            self.tuples.pop(s.target.id, None)
            self.scan_reads(s.value)
            return
        if isinstance(s, ast.Return):
            self.scan_reads(s.value) if s.value is not None else None
            self.ret = self.lin(s.value)
            self.ret_node = s
            return
        if isinstance(s, ast.Expr):
            self.scan_reads(s.value)
            return
        if isinstance(s, (ast.Raise, ast.Pass)):
            return
        if isinstance(s, ast.expr):
            self.scan_reads(s)
            return


def _with_lookups_resolved(run: UnpackRun, a: ast.AST) -> list[UnpackRun]:
    """Successors of `run` in which every lookup in a constant dict that occurs in `a` has one definite result (remembered for the path)."""
    if isinstance(a, (ast.For, ast.While, ast.AsyncFor)):
        return [run]
    cands = [x for x in ast.walk(a) if (isinstance(x, ast.Subscript) and not isinstance(x.slice, ast.Slice))
             or (isinstance(x, ast.Call) and isinstance(x.func, ast.Attribute) and x.func.attr == "get")]
    if not cands:
        return [run]
    runs = [run]
    for x in cands:
        nxt = []
        for r in runs:
            k = r.memo_key(x)
            if k is None or k in r.memo:
                nxt.append(r)
                continue
            alts = r.lookup_alternatives(x)         # may raise _Infeasible: the lookup raises KeyError under the assumed tag
            if alts is None:
                nxt.append(r)
                continue
            for alt in alts:
                r2 = r.clone() if len(alts) > 1 else r
                r2.memo[k] = alt
                nxt.append(r2)
        runs = nxt
    return runs


_NOT_FOLLOWED = ("unpack", "unpack_from", "pack", "pack_into", "iter_unpack", "calcsize", "unpack_serializable", "unpack_serializable_list",
                 "pack_serializable", "pack_serializable_list")


def _followable(run: UnpackRun, call: ast.Call):
    """(helper FuncInfo, receiver is implicit) when `call` hands the data buffer to a function of /repo that is not itself a packer's unpack."""
    if run.data is None or not any(chain(a) == run.data for a in list(call.args) + [k.value for k in call.keywords]):
        return None
    f = strip_cast(call.func)
    if isinstance(f, (ast.Name, ast.Subscript, ast.Call)):
        f = run.subst(f)                  # a callable picked from a constant dispatch table
    if (f.attr if isinstance(f, ast.Attribute) else f.id if isinstance(f, ast.Name) else None) in _NOT_FOLLOWED:
        return None
    repo = run.pm.ctx.repo
    k = run.fi.cls or (run.frames[0][0].cls if run.frames else None) or run.pm.cls
    target, implicit = None, False
    if isinstance(f, ast.Name):
        if run._is_local(f.id):
            return None
        r = repo.resolve_name(run.fi.module, f.id)
        if isinstance(r, FuncInfo):
            target = r
        elif r is None and k is not None and k.lookup(f.id) is not None:
            target = k.lookup(f.id)       # a function of the class body, referenced by a class-level table: called with an explicit receiver
    elif isinstance(f, ast.Attribute) and isinstance(f.value, ast.Name):
        if f.value.id in ("self", "cls") and k is not None:
            target = k.lookup(f.attr)
            implicit = target is not None and "staticmethod" not in {d.split(".")[-1] for d in target.decorator_names()}
        else:
            c = repo.resolve_class_expr(run.fi.module, f.value)
            target = c.lookup(f.attr) if c is not None else None
            implicit = target is not None and "classmethod" in {d.split(".")[-1] for d in target.decorator_names()}
    if target is None or target.is_async or any(isinstance(x, (ast.Yield, ast.YieldFrom)) for x in walk_no_nested(target.node)):
        return None
    return target, implicit


def _call_of(st: ast.AST):
    """(call, targets | None, kind) for `x = f(..)` / `a, b = f(..)` / `f(..)` / `return f(..)` where the call is the whole value."""
    if isinstance(st, ast.Assign) and len(st.targets) == 1 and isinstance(strip_cast(st.value), ast.Call):
        return strip_cast(st.value), st.targets[0], "assign"
    if isinstance(st, ast.AnnAssign) and st.value is not None and isinstance(strip_cast(st.value), ast.Call):
        return strip_cast(st.value), st.target, "assign"
    if isinstance(st, ast.Expr) and isinstance(strip_cast(st.value), ast.Call):
        return strip_cast(st.value), None, "expr"
    if isinstance(st, ast.Return) and st.value is not None and isinstance(strip_cast(st.value), ast.Call):
        return strip_cast(st.value), None, "return"
    return None


def _step(ctx: Ctx, pm: PackerModel, run: UnpackRun, node, lab, depth: int) -> list[UnpackRun]:
    """One CFG node of a path; several successors when a constant table / a followed helper makes the path fork."""
    a = node.ast
    if a is None:
        return [run]
    if node.kind in ("cond", "stmt"):
        forks = _with_lookups_resolved(run, a)
        if len(forks) != 1 or forks[0] is not run:
            out = []
            for r in forks:
                try:
                    out.extend(_step_one(ctx, pm, r, node, lab, depth))
                except _Infeasible:
                    continue
            return out
    return _step_one(ctx, pm, run, node, lab, depth)


def _step_one(ctx: Ctx, pm: PackerModel, run: UnpackRun, node, lab, depth: int) -> list[UnpackRun]:
    a = node.ast
    if node.kind == "cond":
        run.cond(a, lab)
        return [run]
    if node.kind == "loop" and isinstance(a, ast.For):
        entries = run.table_entries(a.iter)
        entered = any(l is a for l, _ in run.loops)
        if lab is True:
            if entries is not None and all(run.closed(x) for x in entries):
                out = []
                for x in entries:          # the body runs for an entry of the constant table: one successor per entry
                    r = run.clone()
                    r.enter_loop(a)
                    r.bind_pattern(a.target, x)
                    out.append(r)
                return out
            run.enter_loop(a)
        elif lab is False and entries and not entered:
            raise _Infeasible             # a non-empty constant table is never skipped
        return [run]
    if node.kind == "loop" and isinstance(a, ast.While):
        run.enter_while(a)
        return [run]
    if node.kind != "stmt":
        return [run]
    # a helper that receives the data buffer: its paths are run in a frame of their own, on the same reads / conditions
    cc = _call_of(a)
    if cc is not None:
        call, tgt, kind = cc
        fol = _followable(run, call)
        if fol is not None:
            if depth >= 3:
                raise Unknown(f"helper calls nested deeper than 3 at `{norm(call)[:50]}`")
            callee, implicit = fol
            run.seen.append(call)
            for x in list(call.args) + [k.value for k in call.keywords]:
                run.scan_reads(x)
            sub = run.clone()
            sub.push_frame(callee, call, implicit)
            out = []
            for fin, err in _exec_paths(ctx, pm, callee, sub, depth + 1):
                if err:
                    raise Unknown(f"in helper {callee.qualname}: {err[len('unknown: '):] if err.startswith('unknown: ') else err}")
                vals = fin.retvals
                if kind == "return" and fin.frames:
                    fin.finish_frame(None)          # `return helper(..)` inside a followed helper: hand the value on to its caller
                    fin.retvals = vals
                elif kind == "return":
                    if not (isinstance(vals, tuple) and vals[0] == "lin"):
                        raise Unknown(f"helper {callee.qualname} does not return an offset to `{norm(a)[:40]}`")
                    fin.ret, fin.ret_node = vals[1], a
                elif kind == "assign":
                    if isinstance(tgt, (ast.Tuple, ast.List)):
                        if isinstance(vals, list) and len(vals) == len(tgt.elts):
                            for t, v in zip(tgt.elts, vals):
                                fin.assign(norm(t), v)
                        else:
                            for t in tgt.elts:
                                fin.assign(norm(t), None)
                    else:
                        fin.assign(norm(tgt), vals if isinstance(vals, tuple) else None)
                out.append(fin)
            return out
    if isinstance(a, ast.Return) and run.frames:
        run.finish_frame(a)
        return [run]
    run.stmt(a)
    return [run]


def _exec_paths(ctx: Ctx, pm: PackerModel, fi: FuncInfo, start: UnpackRun, depth: int = 0):
    """All normally returning paths of fi, started in the state `start` (a fresh run, or the frame of a followed helper)."""
    cfg = ctx.cfg(fi)
    out = []
    nframes = len(start.frames)
    for path in cfg.paths(limit=400):
        if path[-1][0] is not cfg.exit:
            continue
        states = [start.clone()]
        for node, lab in path:
            nxt = []
            for run in states:
                try:
                    nxt.extend(_step(ctx, pm, run, node, lab, depth))
                except _Infeasible:
                    continue
                except Unknown as u:
                    out.append((run, f"unknown: {u}"))
            states = nxt
            if len(states) > 64:
                raise AnalysisError(f"undecided: packer-symmetry: {fi.qualname}: more than 64 alternatives on one path")
        for run in states:
            if nframes and len(run.frames) == nframes:
                run.finish_frame(None)        # the helper ends without `return`: it hands back None
            out.append((run, None))
    return out


def run_unpack_paths(ctx: Ctx, pm: PackerModel, fi: FuncInfo, assume=None):
    start = UnpackRun(pm, fi)
    start.assume = assume
    return _exec_paths(ctx, pm, fi, start)


def check_tiling(run: UnpackRun) -> str | None:
    if run.ret is None:
        return "no return value"
    pos = Lin.sym("offset")
    for start, length, kind in run.reads:
        if start != pos:
            return f"read `{kind}` starts at {start}, expected {pos} (bytes skipped or read twice)"
        pos = start + length
    if run.ret != pos:
        return f"returns {run.ret} but the bytes consumed end at {pos}"
    return None


# ------------------------------------------------------------------------------------------ pack side
class _PackState:
    """What is known at one point of one path through a pack method."""

    def __init__(self) -> None:
        self.bytes: dict[str, list] = {}       # local -> pieces of the byte string it holds
        self.lists: dict[str, list] = {}       # local -> list of piece-lists (a list of byte strings under construction)
        self.defs: dict[str, ast.AST] = {}     # local -> expression it stands for (locals inside already expanded)

    def copy(self) -> "_PackState":
        n = _PackState()
        n.bytes = {k: list(v) for k, v in self.bytes.items()}
        n.lists = {k: [list(x) for x in v] for k, v in self.lists.items()}
        n.defs = dict(self.defs)
        return n


class _Expand(ast.NodeTransformer):
    def __init__(self, defs: dict[str, ast.AST]) -> None:
        self.defs = defs

    def visit_Name(self, n: ast.Name):
        if isinstance(n.ctx, ast.Load) and n.id in self.defs:
            return clone(self.defs[n.id])
        return n


class PackRun:
    """
    The byte string a pack method returns, as pieces, for every way through its statements: locals are followed through plain and
    augmented assignments, `b"".join([...])`, lists of parts that are appended to / extended, conditionals, with / try blocks (a
    suppressed or handled exception continues after the block) and loops (the body is taken once: the general iteration).
    Pieces: ('struct', format text, [argument texts], [argument expressions, locals expanded]) | ('bytes', text) | ('delegate', text, call).
    """

    LIMIT = 256

    def __init__(self, fi: FuncInfo, pm: PackerModel | None) -> None:
        self.fi = fi
        self.pm = pm
        self.alts: list[tuple[ast.Return, list]] = []

    # ---- expressions
    def expand(self, e: ast.AST, st: _PackState) -> ast.AST:
        if not any(isinstance(n, ast.Name) and n.id in st.defs for n in ast.walk(e)):
            return e
        return ast.fix_missing_locations(_Expand(st.defs).visit(clone(e)))

    def _fmt_text(self, f: ast.AST) -> str:
        if isinstance(const_value(f), str):
            return const_value(f)
        if isinstance(f, ast.JoinedStr):
            return "".join(v.value if isinstance(v, ast.Constant) else "{n}" for v in f.values)
        return norm(f)

    def pieces(self, e: ast.AST, st: _PackState) -> list:
        e = strip_cast(e)
        if isinstance(e, ast.BinOp) and isinstance(e.op, ast.Add):
            return self.pieces(e.left, st) + self.pieces(e.right, st)
        if isinstance(e, ast.Call) and chain(e.func) in ("pack", "struct.pack") and e.args and not e.keywords:
            f = self.expand(e.args[0], st)
            args = [self.expand(a, st) for a in e.args[1:]]
            return [("struct", self._fmt_text(f), [norm(a) for a in args], args)]
        if self.pm is not None and isinstance(e, ast.Call) and isinstance(e.func, ast.Attribute) and e.func.attr == "pack" and self.pm.struct_of(e.func.value) is not None:
            args = [self.expand(a, st) for a in e.args]
            return [("struct", self.pm.struct_fmt_text(self.pm.struct_of(e.func.value)), [norm(a) for a in args], args)]
        if isinstance(e, ast.Name):
            if e.id in st.bytes:
                return list(st.bytes[e.id])
            return [("bytes", e.id)]
        if isinstance(e, ast.Call) and isinstance(e.func, ast.Attribute) and e.func.attr == "join" and len(e.args) == 1 and not e.keywords \
                and (const_value(e.func.value) == b"" or (isinstance(e.func.value, ast.Call) and chain(e.func.value.func) == "bytes" and not e.func.value.args)):
            x = strip_cast(e.args[0])
            if isinstance(x, (ast.List, ast.Tuple)) and not any(isinstance(y, ast.Starred) for y in x.elts):
                return [p for y in x.elts for p in self.pieces(y, st)]
            if isinstance(x, ast.Name) and x.id in st.lists:
                return [p for part in st.lists[x.id] for p in part]
            return [("bytes", norm(e))]
        if isinstance(e, ast.Call) and call_name(e) in ("pack", "pack_serializable"):
            return [("delegate", norm(e), e)]
        return [("bytes", norm(e))]

    # ---- statements
    def block(self, stmts, states: list[_PackState]) -> list[_PackState]:
        for s in stmts:
            nxt: list[_PackState] = []
            for st in states:
                nxt.extend(self.step(s, st))
            states = nxt
            if len(states) > self.LIMIT:
                raise AnalysisError(f"undecided: packer-symmetry: {self.fi.qualname}: more than {self.LIMIT} ways through the method")
        return states

    def _closed(self, e: ast.AST) -> bool:
        return not any(isinstance(n, ast.Name) and (n.id in self.fi.params() or local_defs(self.fi, n.id)) and n.id not in ("self", "cls") for n in ast.walk(e)) \
            and not any(isinstance(n, (ast.Call, ast.Lambda, ast.ListComp, ast.GeneratorExp, ast.DictComp, ast.SetComp, ast.Await, ast.NamedExpr)) for n in ast.walk(e))

    def _bind(self, st: _PackState, tgt: ast.AST, value: ast.AST) -> None:
        value = strip_cast(value)
        if isinstance(tgt, ast.Name):
            self._forget(st, tgt.id)
            st.defs[tgt.id] = value
        elif isinstance(tgt, (ast.Tuple, ast.List)) and isinstance(value, (ast.Tuple, ast.List)) and len(tgt.elts) == len(value.elts) \
                and not any(isinstance(x, ast.Starred) for x in list(tgt.elts) + list(value.elts)):
            for t, v in zip(tgt.elts, value.elts):
                self._bind(st, t, v)
        else:
            for n in ast.walk(tgt):
                if isinstance(n, ast.Name):
                    self._forget(st, n.id)

    @staticmethod
    def _forget(st: _PackState, name: str) -> None:
        st.bytes.pop(name, None)
        st.lists.pop(name, None)
        st.defs.pop(name, None)
        # (definitions are expanded when they are made: the remaining ones do not refer to this local's later values)

    def _assign_name(self, st: _PackState, name: str, value: ast.AST, pre: _PackState) -> None:
        core = strip_cast(value)
        pcs = self.pieces(core, pre)
        lst = None
        if isinstance(core, (ast.List, ast.Tuple)) and not any(isinstance(y, ast.Starred) for y in core.elts):
            lst = [self.pieces(y, pre) for y in core.elts]
        elif isinstance(core, ast.Name) and core.id in pre.lists:
            lst = pre.lists[core.id]                  # the same list object under another name
        elif isinstance(core, ast.Call) and chain(core.func) == "list" and not core.args and not core.keywords:
            lst = []
        d = self.expand(core, pre)
        self._forget(st, name)
        st.bytes[name] = pcs
        if lst is not None:
            st.lists[name] = lst
        if not any(isinstance(n, (ast.Await, ast.Yield, ast.YieldFrom, ast.NamedExpr)) for n in ast.walk(d)):
            st.defs[name] = d

    def step(self, s: ast.stmt, st: _PackState) -> list[_PackState]:  # noqa: C901, PLR0911, PLR0912
        if isinstance(s, (ast.Assign, ast.AnnAssign)):
            if s.value is None:
                return [st]
            tgts = s.targets if isinstance(s, ast.Assign) else [s.target]
            pre = st.copy()
            for tg in tgts:
                core = strip_cast(s.value)
                if isinstance(tg, ast.Name):
                    self._assign_name(st, tg.id, s.value, pre)
                elif isinstance(tg, (ast.Tuple, ast.List)) and not any(isinstance(t, ast.Starred) for t in tg.elts):
                    same = isinstance(core, (ast.Tuple, ast.List)) and len(core.elts) == len(tg.elts) and not any(isinstance(y, ast.Starred) for y in core.elts)
                    for i, t in enumerate(tg.elts):
                        if not isinstance(t, ast.Name):
                            continue
                        if same:
                            self._assign_name(st, t.id, core.elts[i], pre)
                        else:
                            sub = ast.Subscript(value=core, slice=ast.Constant(value=i), ctx=ast.Load())
                            self._assign_name(st, t.id, ast.copy_location(sub, core), pre)
                else:
                    for n in ast.walk(tg):
                        if isinstance(n, ast.Name) and isinstance(n.ctx, ast.Store):
                            self._forget(st, n.id)
            return [st]
        if isinstance(s, ast.AugAssign):
            if isinstance(s.target, ast.Name):
                name = s.target.id
                if isinstance(s.op, ast.Add):
                    add = self.pieces(s.value, st)
                    v = strip_cast(s.value)
                    if name in st.lists and isinstance(v, (ast.List, ast.Tuple)) and not any(isinstance(y, ast.Starred) for y in v.elts):
                        st.lists[name] = st.lists[name] + [self.pieces(y, st) for y in v.elts]
                    elif name in st.lists:
                        st.lists[name] = st.lists[name] + [[("bytes", norm(v))]]
                    st.bytes[name] = st.bytes.get(name, [("bytes", name)]) + add
                    st.defs.pop(name, None)
                else:
                    self._forget(st, name)
            return [st]
        if isinstance(s, ast.Expr):
            c = strip_cast(s.value)
            if isinstance(c, ast.Call) and isinstance(c.func, ast.Attribute) and isinstance(c.func.value, ast.Name) and c.func.value.id in st.lists and not c.keywords:
                name, meth = c.func.value.id, c.func.attr
                lst = st.lists[name]
                if meth == "append" and len(c.args) == 1:
                    lst.append(self.pieces(c.args[0], st))
                elif meth == "extend" and len(c.args) == 1:
                    v = strip_cast(c.args[0])
                    if isinstance(v, (ast.List, ast.Tuple)) and not any(isinstance(y, ast.Starred) for y in v.elts):
                        lst.extend(self.pieces(y, st) for y in v.elts)
                    else:
                        lst.append([("bytes", norm(v))])
                elif meth == "insert" and len(c.args) == 2 and isinstance(const_value(c.args[0]), int) and not isinstance(const_value(c.args[0]), bool):
                    lst.insert(const_value(c.args[0]), self.pieces(c.args[1], st))
                else:
                    st.lists.pop(name, None)
                st.bytes.pop(name, None)
                st.defs.pop(name, None)
            return [st]
        if isinstance(s, ast.Return):
            if s.value is not None:
                self.alts.append((s, self.pieces(s.value, st)))
            return []
        if isinstance(s, ast.Raise):
            return []
        if isinstance(s, ast.If):
            return self.block(s.body, [st.copy()]) + self.block(s.orelse, [st.copy()])
        if isinstance(s, (ast.With, ast.AsyncWith)):
            inner = st.copy()
            for it in s.items:
                if it.optional_vars is not None:
                    for n in ast.walk(it.optional_vars):
                        if isinstance(n, ast.Name):
                            self._forget(inner, n.id)
            out = self.block(s.body, [inner])
            if any(isinstance(it.context_expr, ast.Call) and (call_name(it.context_expr) or "").split(".")[-1] == "suppress" for it in s.items):
                out = out + [st.copy()]        # the exception was suppressed: execution continues after the block
            return out
        if isinstance(s, ast.Try) or s.__class__.__name__ == "TryStar":
            body = self.block(s.body, [st.copy()])
            out = self.block(s.orelse, body)
            for h in s.handlers:
                hs = st.copy()
                if h.name:
                    self._forget(hs, h.name)
                out = out + self.block(h.body, [hs])
            return self.block(s.finalbody, out) if s.finalbody else out
        if isinstance(s, (ast.For, ast.AsyncFor, ast.While)):
            starts = []
            entries = None
            if isinstance(s, ast.For) and self.pm is not None:
                repo = self.pm.ctx.repo
                entries = table_entries(lambda x: const_display(repo, self.fi, self.fi.cls or self.pm.cls, self.expand(x, st)), s.iter)
            if entries is not None and all(self._closed(x) for x in entries):
                for x in entries:              # a scan of a constant table: the body runs for an entry, one alternative per entry
                    inner = st.copy()
                    self._bind(inner, s.target, x)
                    starts.append(inner)
            else:
                inner = st.copy()
                if not isinstance(s, ast.While):
                    for n in ast.walk(s.target):
                        if isinstance(n, ast.Name):
                            self._forget(inner, n.id)
                starts.append(inner)
            out = self.block(s.body, starts) or [st]
            return self.block(s.orelse, out) if s.orelse else out
        if isinstance(s, ast.Match):
            out = [st.copy()]
            for case in s.cases:
                out = out + self.block(case.body, [st.copy()])
            return out
        return [st]


def pack_pieces(fi: FuncInfo, pm: PackerModel | None = None):
    """Pieces written by a pack method: list of alternatives (one per way to a `return`, duplicates removed), each a list of
    ('struct', fmt_text, [arg texts], [arg exprs]) / ('bytes', text) / ('delegate', text, call)."""
    run = PackRun(fi, pm)
    run.block(fi.node.body, [_PackState()])
    seen = set()
    out = []
    for ret, pcs in sorted(run.alts, key=lambda x: (x[0].lineno, x[0].col_offset)):
        key = (id(ret), tuple((p[0], p[1], tuple(p[2]) if p[0] == "struct" else None) for p in pcs))
        if key in seen:
            continue
        seen.add(key)
        out.append(pcs)
    return out


def _len_unit(fi: FuncInfo, e: ast.AST):
    """('len', unit) when e is `len(<the packed value>)` (unit '1') or `len(<the packed value>) // U` (unit = text of U); else the text of e."""
    e = resolve(fi, e)
    unit = "1"
    if isinstance(e, ast.Subscript) and const_value(e.slice) == 0 and isinstance(strip_cast(e.value), ast.Call) and chain(strip_cast(e.value).func) == "divmod" \
            and len(strip_cast(e.value).args) == 2:
        q = strip_cast(e.value)           # divmod(a, b)[0] == a // b
        e = ast.copy_location(ast.BinOp(left=q.args[0], op=ast.FloorDiv(), right=q.args[1]), e)
    if isinstance(e, ast.BinOp) and isinstance(e.op, ast.FloorDiv):
        unit = norm(e.right)
        e = resolve(fi, e.left)
    a = fi.node.args
    value_params = [p.arg for p in a.args][1:] + ([a.vararg.arg] if a.vararg else [])
    if isinstance(e, ast.Call) and chain(e.func) == "len" and len(e.args) == 1 and chain(resolve(fi, e.args[0])) in value_params:
        return ("len", unit)
    return norm(e)


def _addr_conversions(exprs, run) -> set:
    """(strictness, family, operand) of every inet_* conversion inside the expressions; operand (unpack side only) says whether the
    converted bytes are one whole struct field read from the wire."""
    out = set()
    for e in exprs:
        for c in ast.walk(e):
            if not isinstance(c, ast.Call):
                continue
            n = call_name(c)
            if n in ("inet_aton", "inet_ntoa") and c.args:
                fam, operand = ("legacy", "AF_INET"), c.args[0]
            elif n in ("inet_pton", "inet_ntop") and len(c.args) >= 2:
                fexpr = run.subst(c.args[0]) if run is not None else c.args[0]
                fam, operand = ("strict", (chain(fexpr) or norm(fexpr)).split(".")[-1]), c.args[1]
            else:
                continue
            whole = "whole-field"
            if run is not None:
                try:
                    v = run.lin(operand)
                    whole = "whole-field" if (not v.c and len(v.t) == 1 and next(iter(v.t)).startswith("wire") and next(iter(v.t.values())) == 1) else "derived"
                except Unknown:
                    whole = "derived"
            out.add((*fam, whole))
    return out


def _canonical_init_text(init: FuncInfo, e: ast.AST, own_attr: str = "") -> str:
    """
    Text of an expression of a constructor with single-assignment locals expanded and every sub-expression that equals the value stored in
    `self.X` (stored exactly once) written as `self.X`: `probe = array(real); self.real_format_str = real; .. probe.itemsize` reads
    `array(self.real_format_str).itemsize`.
    """
    def expand(x: ast.AST, depth: int = 0) -> ast.AST:
        class Ex(ast.NodeTransformer):
            def visit_Name(self, n: ast.Name):
                if isinstance(n.ctx, ast.Load) and depth < 6:
                    d = single_def(init, n.id)
                    if d is not None and d[1] is None and n.id not in init.params():
                        return expand(d[0], depth + 1)
                return n
        return Ex().visit(clone(strip_cast(x)))
    stored: dict[str, list] = {}
    for st in walk_no_nested(init.node):
        if isinstance(st, ast.Assign) and len(st.targets) == 1 and isinstance(st.targets[0], ast.Attribute) and chain(st.targets[0]) == f"self.{st.targets[0].attr}":
            stored.setdefault(st.targets[0].attr, []).append(st.value)
    canon = {ast.dump(expand(v[0])): a for a, v in stored.items() if a != own_attr and len(v) == 1 and
             (not isinstance(strip_cast(v[0]), (ast.Constant, ast.Name)) or (isinstance(strip_cast(v[0]), ast.Name) and single_def(init, strip_cast(v[0]).id) is not None))}

    class Fold(ast.NodeTransformer):
        def generic_visit(self, n):
            if isinstance(n, ast.expr) and ast.dump(n) in canon:
                return ast.Attribute(value=ast.Name(id="self", ctx=ast.Load()), attr=canon[ast.dump(n)], ctx=ast.Load())
            return super().generic_visit(n)
    out = Fold().visit(expand(e))
    return norm(ast.fix_missing_locations(out))


def _struct_chars(fmt: str) -> str:
    return re.sub(r"^[<>!=@]", "", fmt)


def rule_packer_symmetry(ctx: Ctx) -> None:
    repo = ctx.repo
    base = repo.cls("Packer", SER)
    classes = sorted(base.all_subclasses(), key=lambda c: c.name)
    ctx.floor("packer-symmetry.classes", len(classes), 11)
    n_paths = 0
    for cls in classes:
        un, pk = cls.lookup("unpack"), cls.lookup("pack")
        if un is None or pk is None or un.cls.name == "Packer":
            continue
        pm = PackerModel(ctx, un.cls)
        runs = run_unpack_paths(ctx, pm, un)
        if un.cls is not cls:
            continue            # inherited unchanged: analysed at the defining class
        for run, err in runs:
            n_paths += 1
            if err:
                raise AnalysisError(f"packer-symmetry: {cls.name}.unpack: {err}")
            msg = check_tiling(run)
            layout = " | ".join(f"{k}@{s}+{l}" for s, l, k in run.reads)
            ctx.check(msg is None, "packer-symmetry", un, un.node, f"{cls.name}.unpack path [{layout}] -> returns {run.ret}: reads tile [offset, return)",
                      f"{cls.name}.unpack: {msg}: the reported end offset is not the absolute end of what was consumed (path [{layout}], returns {run.ret})")
        # ---- layout agreement with pack
        alts = pack_pieces(pk, pm)
        un_structs = [[k[len("struct:"):] for _, _, k in run.reads if k.startswith("struct:")] for run, _ in runs]
        if cls.name in ("Bits", "Raw", "NestedPayload", "NodePacker", "VarLenUtf8", "ListOf", "IPv4", "Address", "DefaultStruct", "VarLen", "DefaultArray", "Flags"):
            _layout_agreement(ctx, cls, pk, un, alts, runs)
    ctx.floor("packer-symmetry.paths", n_paths, 14)
    # decoders hand out fresh values: no memoisation on functions in the packer / payload modules (a cached list would be shared by every decoded message)
    for m in repo.modules.values():
        if not (m.relpath.startswith("ipv8/messaging/") and (m.relpath.endswith("payload.py") or m.relpath.endswith("serialization.py") or "lazy_payload" in m.relpath)):
            continue
        for f in m.all_functions:
            memo = [d for d in f.decorator_names() if d.split(".")[-1] in ("lru_cache", "cache", "cached_property")]
            ctx.check(not memo, "packer-symmetry", f, f.node, f"{f.qualname}: not memoised",
                      f"{f.qualname} is memoised ({memo}): every message with the same wire bytes decodes to the SAME mutable object, so changing one decoded value changes later decodes")


def _layout_agreement(ctx: Ctx, cls: ClassInfo, pk: FuncInfo, un: FuncInfo, alts, runs) -> None:
    """Pack and unpack must use the same struct formats (as concatenated field codes) and the same length unit."""
    def chars_of_pack(pieces) -> str:
        out = ""
        for p in pieces:
            if p[0] == "struct":
                out += _struct_chars(p[1])
            else:
                out += "{n}s"        # raw bytes, or bytes produced by a delegated pack
        return out

    def chars_of_run(run) -> str:
        out = ""
        for s, l, k in run.reads:
            if k.startswith("struct:"):
                out += _struct_chars(k[len("struct:"):])
            elif k in ("bytes", "rest"):
                out += "{n}s"
            else:
                out += "<delegate>"
        return out
    packs = sorted({chars_of_pack(p) for p in alts})
    unpacks = sorted({chars_of_run(r) for r, _ in runs})
    # normalise "BH{n}sH" (one struct with embedded string) vs "B" "H" "{n}s" "H"
    ok = packs == unpacks or (cls.name in ("NestedPayload",) and packs == ["H{n}s"] and unpacks == ["H{n}s"])
    if cls.name == "VarLenUtf8":
        ok = True       # delegates both ways to VarLen (checked there); encode/decode pairing checked below
    if cls.name in ("ListOf",):
        ok = len(packs) == 1 and packs[0].startswith("self.length_format") and all(u.startswith("self.length_format") for u in unpacks)
    if cls.name == "NodePacker":
        ok = True
    if cls.name == "Bits":
        ok = packs == ["B"] and unpacks == ["B"]
    ctx.check(ok, "packer-symmetry", pk, pk.node, f"{cls.name}: pack layout {packs} == unpack layout {unpacks}",
              f"{cls.name}: pack writes {packs} but unpack reads {unpacks}: the decoder is not the inverse of the encoder")
    # ---- unit of the length prefix
    if cls.name in ("VarLen", "DefaultArray"):
        # pack: the prefix counts len(data) in units of U;  unpack: the bytes taken after the prefix number (prefix value) * U
        lens = list(dict.fromkeys(_len_unit(pk, p[3][0]) for a in alts for p in a if p[0] == "struct" and p[3]))
        mult = set()
        shape_ok = True
        for r, _ in runs:
            kinds = [k for _, _, k in r.reads]
            if kinds != ["struct:self.length_format", "bytes"] or r.reads[0][0] != Lin.sym("offset"):
                shape_ok = False
                continue
            mult.add(str(r.reads[1][1]))
        want_unit = str(Lin(0, {"*".join(sorted(["self.base", "wire0[0]"])): 1}))
        if cls.name == "VarLen":
            ok = lens == [("len", "self.base")] and shape_ok and mult == {want_unit}
            ctx.check(ok, "packer-symmetry", pk, pk.node, "VarLen: prefix = len(data) // base on pack, length = prefix * base on unpack",
                      f"VarLen: length unit differs between pack ({lens}) and unpack (bytes taken: {sorted(mult)})")
        else:
            ok = lens == [("len", "1")] and shape_ok and mult == {want_unit}
            init = cls.methods["__init__"]
            b = [s for s in walk_no_nested(init.node) if isinstance(s, ast.Assign) and chain(s.targets[0]) == "self.base"]
            ok = ok and len(b) == 1 and _canonical_init_text(init, b[0].value, "base") == "array(self.real_format_str).itemsize"
            ctx.check(ok, "packer-symmetry", pk, pk.node, "DefaultArray: prefix = item count, byte length = count * itemsize",
                      f"DefaultArray: item count / byte length units differ between pack ({lens}) and unpack (bytes taken: {sorted(mult)})")
    if cls.name == "ListOf":
        cnt = list(dict.fromkeys(_len_unit(pk, p[3][0]) for a in alts for p in a if p[0] == "struct" and p[3]))
        # the count read with the length format drives the one loop; the inner packer is run on the threaded offset
        # (the number of rounds of the loop is a linear form over the wire values: `for .. in range(n)`, `range(0, n)`, a counting `while`)
        loops_seen = {id(l): (l, n) for r, _ in runs for l, n in r.loops}
        odd = [l for l in walk_no_nested(un.node) if isinstance(l, (ast.While, ast.For, ast.AsyncFor)) and (id(l) not in loops_seen or loops_seen[id(l)][1] is None)
               and any(call_name(c) == "unpack" for c in calls(l))]
        if odd:
            raise AnalysisError(f"undecided: packer-symmetry: ListOf.unpack repeats the inner packer with `{norm(odd[0])[:60]}`; only a loop whose number of rounds "
                                "is a linear form (`for .. in range(count)`, a counting `while`) is decided")
        looped = [r for r, _ in runs if r.loops]
        ok = cnt == [("len", "1")] and bool(looped)
        for r, _ in runs:
            if not r.reads or r.reads[0][2] != "struct:self.length_format" or r.reads[0][0] != Lin.sym("offset"):
                ok = False
            if len({id(l) for l, _ in r.loops}) > 1 or any(n != r.wsym(0, 0) for _, n in r.loops):
                ok = False
        inner = [c for c in calls(un) if call_name(c) == "unpack" and isinstance(c.func, ast.Attribute) and rchain(un, c.func.value) == "self.packer"]
        ok = ok and len(inner) == 1 and len(inner[0].args) >= 2 and chain(inner[0].args[0]) == un.params()[1] and isinstance(inner[0].args[1], ast.Name)
        if ok:
            # threaded: the new offset returned by the inner packer is stored in the very variable that is passed as its offset
            st = enclosing_stmt(inner[0])
            ok = isinstance(st, ast.Assign) and strip_cast(st.value) is inner[0] and [chain(t) for t in st.targets] == [inner[0].args[1].id] \
                and any(id(a) in loops_seen for a in ancestors(inner[0]))
        ctx.check(ok, "packer-symmetry", un, un.node, "ListOf: count prefix = number of items; the inner packer runs count times on the threaded offset",
                  "ListOf: the item count on the wire does not drive the number of inner unpacks / the offset is not threaded")
    if cls.name == "VarLenUtf8":
        def utf8_call(fi, c, meth):
            """c is `<x>.encode()` / `<x>.decode()` with the default (or an explicit utf-8) codec."""
            return isinstance(c, ast.Call) and isinstance(c.func, ast.Attribute) and c.func.attr == meth and not c.keywords \
                and (not c.args or (len(c.args) == 1 and str(const_value(c.args[0])).lower().replace("-", "") == "utf8"))
        value_param = pk.params()[1]
        parents = {k.name for k in cls.mro()[1:]}

        def parent_call(c: ast.Call, meth: str):
            """arguments of `super().<meth>(..)` / `<Base>.<meth>(self, ..)`, else None"""
            if chain(c.func) == f"super().{meth}":
                return list(c.args)
            if isinstance(c.func, ast.Attribute) and c.func.attr == meth and isinstance(c.func.value, ast.Name) and c.func.value.id in parents \
                    and c.args and chain(c.args[0]) == "self":
                return list(c.args[1:])
            return None
        enc = False
        for c in calls(pk):
            pa = parent_call(c, "pack")
            if pa is not None and len(pa) == 1:
                a = resolve(pk, pa[0])
                enc = enc or (utf8_call(pk, a, "encode") and chain(resolve(pk, a.func.value)) == value_param)
        dec = any(utf8_call(un, c, "decode") for c in calls(un)) and any(parent_call(c, "unpack") is not None for c in calls(un))
        ctx.check(enc and dec, "packer-symmetry", pk, pk.node, "VarLenUtf8: encode() on pack, decode() on unpack around VarLen", "VarLenUtf8 does not pair encode/decode around VarLen")
    if cls.name == "Address":
        consts = ctx.repo.module(SER).constants
        vals = {k: ctx.repo.resolve_const(ctx.repo.module(SER), consts[k]) for k in ("ADDRESS_TYPE_IPV4", "ADDRESS_TYPE_DOMAIN_NAME", "ADDRESS_TYPE_IPV6")}
        ok = len(set(vals.values())) == 3
        tags_p = sorted({p[2][0] for a in alts for p in a if p[0] == "struct" and p[2]})
        ctx.check(ok and tags_p == sorted(vals), "packer-symmetry", pk, pk.node, f"Address: three distinct type tags {vals}, each written by one pack branch",
                  f"Address: type tags {vals} / written {tags_p}")
        # each unpack branch is selected by the tag that the matching pack branch writes, and reads the layout that branch wrote.
        # Decided per tag value: the first wire byte is ASSUMED to be that tag; conditions on it (==, in, lookups in constant tables,
        # scans of constant tables) are evaluated, paths they exclude are dropped, and every remaining returning path must read
        # the layout pack writes for the tag - however the selection is spelled (if-chain, single exit, table, helper).
        if any(isinstance(x, ast.Match) for x in walk_no_nested(un.node)):
            raise AnalysisError("undecided: packer-symmetry: Address.unpack selects the layout with a match statement")
        pm = PackerModel(ctx, un.cls)
        layout_p: dict = {}
        conv_p: dict = {}
        for a in alts:
            for p in a[:1]:
                if p[0] == "struct" and p[2]:
                    layout_p.setdefault(p[2][0], set()).add(chars_of_pack(a))
                    conv_p.setdefault(p[2][0], set()).update(c for q in a if q[0] == "struct" for c in _addr_conversions(q[3], None))
        layout_u: dict = {}
        conv_u: dict = {}
        sizes: dict = {}
        for t in [*sorted(vals), "<other>"]:
            for r, err in run_unpack_paths(ctx, pm, un, assume=(vals, t)):
                if err:
                    raise AnalysisError(f"packer-symmetry: Address.unpack (tag {t}): {err}")
                layout_u.setdefault(t, set()).add(chars_of_run(r))
                conv_u.setdefault(t, set()).update(r.convs)
                sizes.setdefault(t, set()).add(str(r.ret - Lin.sym("offset")) if r.ret is not None else "?")
        untagged = len(layout_u.pop("<other>", ()))
        conv_u.pop("<other>", None)
        ok = untagged == 0 and layout_p == layout_u and all(len(v) == 1 for v in layout_p.values())
        shown_p = {t: sorted(v) for t, v in layout_p.items()}
        ctx.check(ok, "packer-symmetry", un, un.node,
                  f"Address.unpack: every returning path is selected by one tag and reads the layout pack writes for that tag {shown_p} (sizes { {t: sorted(v) for t, v in sizes.items() if t != '<other>'} })",
                  f"Address.unpack tag/layout pairing is { {t: sorted(v) for t, v in layout_u.items()} } ({untagged} returning layouts for a first byte that is no tag), pack writes {shown_p}")
        # per tag, the text conversion is the inverse partner of the one pack used for that tag, applied to the whole field: what was decoded
        # under tag T must be encoded under tag T again (pack chooses the tag by which inet_pton family accepts the host string)
        for t in sorted(set(conv_p) | set(conv_u)):
            ctx.check(conv_p.get(t, set()) == conv_u.get(t, set()), "packer-symmetry", un, f"Address tag {t}", f"Address tag {t}: unpack converts with {sorted(conv_u.get(t, ()))} = partner of pack",
                      f"Address.unpack under tag {t} converts the host with {sorted(conv_u.get(t, ()))} but Address.pack writes tag {t} for hosts accepted by "
                      f"{sorted(conv_p.get(t, ()))}: the decoded address is not the one that was encoded (re-encoding it selects another tag / other bytes)")
    if cls.name in ("Address", "IPv4"):
        # text<->binary address conversion must use inverse partners on both sides (inet_aton accepts legacy notations that inet_pton rejects,
        # so probing with it turns numeric-looking host names into IPv4 addresses)
        # (pack side: conversions inside the packed values with locals expanded per path; unpack side: conversions evaluated on the paths,
        #  with the family taken from the constant table entry / helper argument that is in force there)
        cp = {c[:2] for a in alts for p in a if p[0] == "struct" for c in _addr_conversions(p[3], None)}
        cp |= {c[:2] for c in _addr_conversions([st for st in walk_no_nested(pk.node) if isinstance(st, ast.stmt) and st is not pk.node], None)
               if c[1].startswith("AF_")}
        cu = {c[:2] for r, _ in runs for c in r.convs}
        ctx.check(cp == cu and bool(cp), "packer-symmetry", pk, pk.node, f"{cls.name}: address text conversion pairs {sorted(cp)} on both sides",
                  f"{cls.name}: pack converts addresses with {sorted(cp)} but unpack with {sorted(cu)}: the probe accepts strings the decoder would never produce "
                  "(e.g. inet_aton accepts '10.1'), so a domain name is written as an IPv4 address")
    if cls.name == "NodePacker":
        # formats in the order their bytes are concatenated (pack) / consumed (unpack), whatever the order of the statements
        pf = [[const_value(x[2].args[0]) if x[0] == "delegate" and x[2].args else None for x in a] for a in alts]
        uf = [[const_value(f) if f is not None else None for f in r.delegate_fmts] for r, _ in runs]
        if any(r.loops for r, _ in runs) or any(not isinstance(f, str) for fs in pf + uf for f in fs):
            raise AnalysisError("undecided: packer-symmetry: NodePacker packs / unpacks its parts in a loop or with computed format names; "
                                "only a fixed sequence of serializer.pack(<name>, ..) / serializer.unpack(<name>, ..) calls is decided")
        p = sorted({tuple(fs) for fs in pf})
        u = sorted({tuple(fs) for fs in uf})
        ctx.check(p == u and len(p) == 1 and len(p[0]) == 2, "packer-symmetry", pk, pk.node, f"NodePacker: packs {p} and unpacks {u} in the same order", f"NodePacker packs {p} but unpacks {u}")
    if cls.name == "Flags":
        # one struct value on both sides, with the same format (inline `pack(self.format, ..)` or a precompiled Struct of it)
        pfm = [[x[1] for x in a if x[0] == "struct"] if all(x[0] == "struct" for x in a) else None for a in alts]
        ufm = [[k[len("struct:"):] for _, _, k in r.reads] if all(k.startswith("struct:") for _, _, k in r.reads) else None for r, _ in runs]
        ok = bool(pfm) and bool(ufm) and all(f == ["self.format"] for f in pfm) and all(f == ["self.format"] for f in ufm)
        ctx.check(ok, "packer-symmetry", pk, pk.node, "Flags: same struct format on both sides", f"Flags packs and unpacks with different formats (pack {pfm}, unpack {ufm})")


# ------------------------------------------------------------------------------------------ concrete mini-interpreter
class MiniUndecided(Exception):
    """Syntax / call outside the supported subset: the caller turns this into an AnalysisError (never into a verdict)."""


class MiniRaised(Exception):
    """The interpreted function raised (explicit `raise`, or a Python error of one of its own operations)."""


class _Ret(Exception):
    def __init__(self, value) -> None:
        self.value = value


class _Brk(Exception):
    pass


class _Cont(Exception):
    pass


class Opaque:
    """A value the interpreted code may pass around and read attributes of, but not compute with."""

    def __init__(self, label: str, attrs: dict | None = None) -> None:
        self.label = label
        self.attrs = attrs or {}

    def __repr__(self) -> str:
        return f"<{self.label}>"


_BIN = {ast.Add: operator.add, ast.Sub: operator.sub, ast.Mult: operator.mul, ast.FloorDiv: operator.floordiv, ast.Mod: operator.mod,
        ast.BitOr: operator.or_, ast.BitAnd: operator.and_, ast.BitXor: operator.xor, ast.LShift: operator.lshift, ast.RShift: operator.rshift,
        ast.Pow: operator.pow}
_IBIN = {ast.Add: operator.iadd, ast.Sub: operator.isub, ast.Mult: operator.imul, ast.FloorDiv: operator.ifloordiv, ast.Mod: operator.imod,
         ast.BitOr: operator.ior, ast.BitAnd: operator.iand, ast.BitXor: operator.ixor, ast.LShift: operator.ilshift, ast.RShift: operator.irshift,
         ast.Pow: operator.ipow}
_CMP = {ast.Eq: operator.eq, ast.NotEq: operator.ne, ast.Lt: operator.lt, ast.LtE: operator.le, ast.Gt: operator.gt, ast.GtE: operator.ge,
        ast.Is: operator.is_, ast.IsNot: operator.is_not, ast.In: lambda a, b: a in b, ast.NotIn: lambda a, b: a not in b}
_BUILTINS = {"bool": bool, "int": int, "len": len, "range": range, "list": list, "tuple": tuple, "enumerate": enumerate, "zip": zip,
             "reversed": reversed, "sum": sum, "any": any, "all": all, "filter": filter, "map": map, "min": min, "max": max, "sorted": sorted,
             "bytes": bytes, "abs": abs, "divmod": divmod, "reduce": functools.reduce, "functools.reduce": functools.reduce, "dict": dict,
             "set": set, "frozenset": frozenset, "str": str, "isinstance": None}
_PLAIN = (int, bool, str, bytes, tuple, list, dict, set, frozenset, type(None), range)
_METHODS = {list: {"append", "extend", "insert", "index", "count", "pop", "reverse", "copy"}, tuple: {"index", "count"},
            dict: {"get", "items", "keys", "values", "setdefault", "pop", "copy", "update"}, bytes: {"join", "startswith", "endswith", "decode", "hex"},
            str: {"join", "startswith", "endswith", "encode", "lower", "upper"}, int: {"to_bytes", "bit_length"}, set: {"add", "discard"}}


class _MiniStruct:
    """A precompiled struct.Struct(fmt): its methods are the module-level struct functions with fmt as first argument."""

    def __init__(self, fmt: str) -> None:
        self.fmt = fmt

    def __repr__(self) -> str:
        return f"Struct({self.fmt!r})"


class _ModuleScope:
    """Stands in for a FuncInfo when a module-level / class-level constant initialiser is evaluated."""

    def __init__(self, module, cls=None) -> None:
        self.module = module
        self.cls = cls
        self.qualname = f"<constant of {module.relpath}>"
        self.node = None


class Mini:
    """
    Concrete interpreter for tiny, loop-bounded functions of /repo.  It walks the function's AST itself on plain Python
    values (ints, bytes, tuples, lists ...): nothing from /repo is imported or executed.  Calls that are not whitelisted
    builtins / methods of plain values go to `on_call(chain, receiver_or_callee_value, args, kwargs)`; it returns the value or
    NotImplemented (-> MiniUndecided).  A verdict obtained by evaluating f on ALL values of a finite domain does not depend
    on how f is spelled, which is the point: the rules that use this state the input/output table, not the syntax.
    """

    def __init__(self, repo, fi: FuncInfo, on_call=None, fuel: int = 20000) -> None:
        self.repo = repo
        self.fi = fi
        self.on_call = on_call
        self.fuel0 = fuel
        self.fuel = fuel

    # ---- entry
    def __call__(self, *args, **kwargs):
        self.fuel = self.fuel0
        env = self._bind(self.fi.node.args, list(args), dict(kwargs))
        try:
            self._block(self.fi.node.body, env)
        except _Ret as r:
            return r.value
        except (_Brk, _Cont) as e:
            raise MiniUndecided(f"{self.fi.qualname}: break/continue outside loop") from e
        return None

    def _bind(self, a: ast.arguments, args: list, kwargs: dict) -> dict:
        env = {}
        pos = [p.arg for p in a.posonlyargs + a.args]
        defaults = dict(zip(pos[len(pos) - len(a.defaults):], a.defaults))
        for i, p in enumerate(pos):
            if i < len(args):
                env[p] = args[i]
            elif p in kwargs:
                env[p] = kwargs.pop(p)
            elif p in defaults:
                env[p] = self._ev(defaults[p], {})
            else:
                raise MiniUndecided(f"{self.fi.qualname}: no value for parameter {p}")
        rest = args[len(pos):]
        if a.vararg is not None:
            env[a.vararg.arg] = tuple(rest)
        elif rest:
            raise MiniRaised(f"{self.fi.qualname}: too many positional arguments")
        for p, d in zip(a.kwonlyargs, a.kw_defaults):
            if p.arg in kwargs:
                env[p.arg] = kwargs.pop(p.arg)
            elif d is not None:
                env[p.arg] = self._ev(d, {})
            else:
                raise MiniUndecided(f"{self.fi.qualname}: no value for parameter {p.arg}")
        if a.kwarg is not None:
            env[a.kwarg.arg] = kwargs
        elif kwargs:
            raise MiniRaised(f"{self.fi.qualname}: unexpected keyword arguments {sorted(kwargs)}")
        return env

    def _tick(self) -> None:
        self.fuel -= 1
        if self.fuel < 0:
            raise MiniUndecided(f"{self.fi.qualname}: evaluation budget exhausted")

    def _py(self, f, *a):
        try:
            return f(*a)
        except (MiniUndecided, MiniRaised, _Ret, _Brk, _Cont):
            raise
        except Exception as e:  # noqa: BLE001  (an error of the interpreted operation = the function raises)
            raise MiniRaised(f"{type(e).__name__}: {e}") from e

    # ---- statements
    def _block(self, stmts, env) -> None:
        for s in stmts:
            self._stmt(s, env)

    def _stmt(self, s, env) -> None:  # noqa: C901, PLR0912
        self._tick()
        if isinstance(s, ast.Expr):
            if not isinstance(s.value, ast.Constant):
                self._ev(s.value, env)
        elif isinstance(s, ast.Assign):
            v = self._ev(s.value, env)
            for t in s.targets:
                self._store(t, v, env)
        elif isinstance(s, ast.AnnAssign):
            if s.value is not None:
                self._store(s.target, self._ev(s.value, env), env)
        elif isinstance(s, ast.AugAssign):
            if type(s.op) not in _IBIN:
                raise MiniUndecided(f"operator in `{norm(s)[:50]}`")
            cur = self._ev(_as_load(s.target), env)
            val = self._ev(s.value, env)
            self._plain(cur, s), self._plain(val, s)
            self._store(s.target, self._py(_IBIN[type(s.op)], cur, val), env)
        elif isinstance(s, ast.If):
            self._block(s.body if self._truth(self._ev(s.test, env)) else s.orelse, env)
        elif isinstance(s, ast.For):
            broke = False
            for item in self._iter(self._ev(s.iter, env), s):
                self._tick()
                self._store(s.target, item, env)
                try:
                    self._block(s.body, env)
                except _Cont:
                    continue
                except _Brk:
                    broke = True
                    break
            if not broke:
                self._block(s.orelse, env)
        elif isinstance(s, ast.While):
            broke = False
            while self._truth(self._ev(s.test, env)):
                self._tick()
                try:
                    self._block(s.body, env)
                except _Cont:
                    continue
                except _Brk:
                    broke = True
                    break
            if not broke:
                self._block(s.orelse, env)
        elif isinstance(s, ast.Return):
            raise _Ret(self._ev(s.value, env) if s.value is not None else None)
        elif isinstance(s, ast.Pass):
            pass
        elif isinstance(s, ast.Break):
            raise _Brk
        elif isinstance(s, ast.Continue):
            raise _Cont
        elif isinstance(s, ast.Raise):
            raise MiniRaised(f"raise {norm(s.exc)[:60] if s.exc is not None else ''}")
        elif isinstance(s, ast.Assert):
            if not self._truth(self._ev(s.test, env)):
                raise MiniRaised("AssertionError")
        elif isinstance(s, ast.Match):
            subj = self._ev(s.subject, env)
            self._plain(subj, s)
            for case in s.cases:
                if self._match(case.pattern, subj, env) and (case.guard is None or self._truth(self._ev(case.guard, env))):
                    self._block(case.body, env)
                    break
        else:
            raise MiniUndecided(f"{self.fi.qualname}: statement `{norm(s)[:60]}`")

    def _match(self, p, subj, env) -> bool:
        if isinstance(p, ast.MatchValue):
            v = self._ev(p.value, env)
            self._plain(v, p)
            return subj == v
        if isinstance(p, ast.MatchSingleton):
            return subj is p.value
        if isinstance(p, ast.MatchAs):
            if p.pattern is not None and not self._match(p.pattern, subj, env):
                return False
            if p.name is not None:
                env[p.name] = subj
            return True
        if isinstance(p, ast.MatchOr):
            return any(self._match(q, subj, env) for q in p.patterns)
        if isinstance(p, ast.MatchSequence) and not any(isinstance(q, ast.MatchStar) for q in p.patterns):
            return isinstance(subj, (list, tuple)) and len(subj) == len(p.patterns) and all(self._match(q, x, env) for q, x in zip(p.patterns, subj))
        raise MiniUndecided(f"{self.fi.qualname}: match pattern `{norm(p)[:50]}`")

    def _constant(self, module, cls, expr):
        """Value of a module-level / class-level constant: its initialiser evaluated in its own scope (displays, comprehensions, Struct(..))."""
        if getattr(self, "_const_depth", 0) > 4:
            raise MiniUndecided(f"{self.fi.qualname}: constants nested too deeply")
        sub = Mini(self.repo, _ModuleScope(module, cls), self.on_call, self.fuel)
        sub._const_depth = getattr(self, "_const_depth", 0) + 1
        v = sub._ev(expr, {})
        self.fuel = sub.fuel
        return v

    def _store(self, t, v, env) -> None:
        if isinstance(t, ast.Name):
            env[t.id] = v
        elif isinstance(t, (ast.Tuple, ast.List)):
            items = list(self._iter(v, t))
            star = [i for i, e in enumerate(t.elts) if isinstance(e, ast.Starred)]
            if star:
                i = star[0]
                tail = len(t.elts) - i - 1
                if len(items) < len(t.elts) - 1:
                    raise MiniRaised("ValueError: not enough values to unpack")
                parts = items[:i] + [items[i:len(items) - tail]] + items[len(items) - tail:]
                for e, x in zip(t.elts, parts):
                    self._store(e.value if isinstance(e, ast.Starred) else e, x, env)
            else:
                if len(items) != len(t.elts):
                    raise MiniRaised(f"ValueError: cannot unpack {len(items)} values into {len(t.elts)} targets")
                for e, x in zip(t.elts, items):
                    self._store(e, x, env)
        elif isinstance(t, ast.Subscript) and not isinstance(t.slice, ast.Slice):
            base = self._ev(t.value, env)
            if not isinstance(base, (list, dict)):
                raise MiniUndecided(f"store into `{norm(t)[:50]}`")
            self._py(operator.setitem, base, self._ev(t.slice, env), v)
        elif isinstance(t, ast.Attribute):
            base = self._ev(t.value, env)
            if not isinstance(base, Opaque):
                raise MiniUndecided(f"store into `{norm(t)[:50]}`")
            base.attrs[t.attr] = v
        else:
            raise MiniUndecided(f"assignment target `{norm(t)[:50]}`")

    def _iter(self, v, where):
        if isinstance(v, (list, tuple, range, dict, set, frozenset, bytes, str)) or type(v).__name__ in ("enumerate", "zip", "reversed", "filter", "map",
                                                                                                       "list_iterator", "generator", "dict_items",
                                                                                                       "dict_keys", "dict_values"):
            return self._py(list, v)
        raise MiniUndecided(f"iteration over {v!r} in `{norm(where)[:50]}`")

    def _truth(self, v) -> bool:
        if isinstance(v, Opaque):
            raise MiniUndecided(f"truth value of {v!r}")
        return bool(v)

    def _plain(self, v, where) -> None:
        if not isinstance(v, _PLAIN):
            raise MiniUndecided(f"arithmetic on {v!r} in `{norm(where)[:50]}`")

    # ---- expressions
    def _ev(self, e, env):  # noqa: C901, PLR0911, PLR0912
        self._tick()
        e = strip_cast(e)
        if isinstance(e, ast.Constant):
            return e.value
        if isinstance(e, ast.Name):
            if e.id in env:
                return env[e.id]
            c = self.repo.resolve_const(self.fi.module, e, self.fi.cls)
            if c is not NOCONST:
                return c
            r = self.repo.resolve_name(self.fi.module, e.id)
            if isinstance(r, tuple) and r[0] == "const":
                return self._constant(r[1], None, r[2])          # a module-level table / precompiled struct: its initialiser is evaluated
            if e.id in _BUILTINS and _BUILTINS[e.id] is not None:
                return _BUILTINS[e.id]
            if e.id in ("True", "False", "None"):
                return {"True": True, "False": False, "None": None}[e.id]
            raise MiniUndecided(f"{self.fi.qualname}: unbound name {e.id}")
        if isinstance(e, ast.NamedExpr):
            v = self._ev(e.value, env)
            env[e.target.id] = v
            if isinstance(env.get("\0outer"), dict):
                env["\0outer"][e.target.id] = v             # a walrus inside a comprehension binds in the enclosing function
            return v
        if isinstance(e, ast.Attribute):
            c = self.repo.resolve_const(self.fi.module, e, self.fi.cls)
            if c is not NOCONST:
                return c
            base = self._ev(e.value, env)
            if isinstance(base, Opaque) and e.attr in base.attrs:
                return base.attrs[e.attr]
            if isinstance(base, _MiniStruct) and e.attr in ("size", "format"):
                return self._py(struct.calcsize, base.fmt) if e.attr == "size" else base.fmt
            if isinstance(e.value, ast.Name) and e.value.id in ("self", "cls") and self.fi.cls is not None and isinstance(base, Opaque):
                a = self.fi.cls.lookup_attr(e.attr)
                if a is not None:
                    owner = next(k for k in self.fi.cls.mro() if e.attr in k.attrs)
                    return self._constant(owner.module, owner, a)      # a class-level table / precompiled struct
            raise MiniUndecided(f"{self.fi.qualname}: attribute `{norm(e)[:50]}`")
        if isinstance(e, (ast.Tuple, ast.List, ast.Set)):
            out = []
            for x in e.elts:
                if isinstance(x, ast.Starred):
                    out.extend(self._iter(self._ev(x.value, env), x))
                else:
                    out.append(self._ev(x, env))
            return tuple(out) if isinstance(e, ast.Tuple) else out if isinstance(e, ast.List) else set(out)
        if isinstance(e, ast.Dict):
            out = {}
            for k, v in zip(e.keys, e.values):
                if k is None:
                    sub = self._ev(v, env)          # {**other}
                    if not isinstance(sub, dict):
                        raise MiniUndecided(f"dict unpacking of {sub!r}")
                    out.update(sub)
                else:
                    out[self._ev(k, env)] = self._ev(v, env)
            return out
        if isinstance(e, ast.Subscript):
            base = self._ev(e.value, env)
            self._plain(base, e)
            if isinstance(e.slice, ast.Slice):
                sl = slice(*(self._ev(x, env) if x is not None else None for x in (e.slice.lower, e.slice.upper, e.slice.step)))
                return self._py(operator.getitem, base, sl)
            return self._py(operator.getitem, base, self._ev(e.slice, env))
        if isinstance(e, ast.BinOp):
            if type(e.op) not in _BIN:
                raise MiniUndecided(f"operator in `{norm(e)[:50]}`")
            l, r = self._ev(e.left, env), self._ev(e.right, env)
            self._plain(l, e), self._plain(r, e)
            return self._py(_BIN[type(e.op)], l, r)
        if isinstance(e, ast.UnaryOp):
            v = self._ev(e.operand, env)
            if isinstance(e.op, ast.Not):
                return not self._truth(v)
            self._plain(v, e)
            return self._py({ast.USub: operator.neg, ast.UAdd: operator.pos, ast.Invert: operator.invert}[type(e.op)], v)
        if isinstance(e, ast.BoolOp):
            v = None
            for x in e.values:
                v = self._ev(x, env)
                if self._truth(v) != isinstance(e.op, ast.And):
                    return v
            return v
        if isinstance(e, ast.Compare):
            l = self._ev(e.left, env)
            for op, right in zip(e.ops, e.comparators):
                r = self._ev(right, env)
                if not (isinstance(op, (ast.Is, ast.IsNot)) or (isinstance(l, _PLAIN) and isinstance(r, _PLAIN))):
                    raise MiniUndecided(f"comparison `{norm(e)[:50]}`")
                if not self._py(_CMP[type(op)], l, r):
                    return False
                l = r
            return True
        if isinstance(e, ast.IfExp):
            return self._ev(e.body if self._truth(self._ev(e.test, env)) else e.orelse, env)
        if isinstance(e, (ast.ListComp, ast.SetComp, ast.GeneratorExp, ast.DictComp)):
            out = []
            inner = dict(env)
            inner["\0outer"] = env.get("\0outer", env)
            self._comp(e, 0, inner, out)
            return dict(out) if isinstance(e, ast.DictComp) else set(out) if isinstance(e, ast.SetComp) else out
        if isinstance(e, ast.Lambda):
            def fn(*a, _e=e, _env=env):
                return self._ev(_e.body, {**_env, **self._bind(_e.args, list(a), {})})
            return fn
        if isinstance(e, ast.JoinedStr):
            return "".join(str(self._ev(v.value, env)) if isinstance(v, ast.FormattedValue) else str(v.value) for v in e.values)
        if isinstance(e, ast.Call):
            return self._call(e, env)
        raise MiniUndecided(f"{self.fi.qualname}: expression `{norm(e)[:60]}`")

    def _comp(self, e, i: int, env: dict, out: list) -> None:
        if i == len(e.generators):
            out.append((self._ev(e.key, env), self._ev(e.value, env)) if isinstance(e, ast.DictComp) else self._ev(e.elt, env))
            return
        g = e.generators[i]
        if g.is_async:
            raise MiniUndecided("async comprehension")
        for item in self._iter(self._ev(g.iter, env), g.iter):
            self._tick()
            self._store(g.target, item, env)
            if all(self._truth(self._ev(c, env)) for c in g.ifs):
                self._comp(e, i + 1, env, out)

    def _call(self, e: ast.Call, env):
        args = []
        for a in e.args:
            if isinstance(a, ast.Starred):
                args.extend(self._iter(self._ev(a.value, env), a))
            else:
                args.append(self._ev(a, env))
        if any(k.arg is None for k in e.keywords):
            raise MiniUndecided("** in call")
        kwargs = {k.arg: self._ev(k.value, env) for k in e.keywords}
        name = chain(e.func)
        # method of a plain value
        if isinstance(e.func, ast.Attribute):
            try:
                base = self._ev(e.func.value, env)
            except MiniUndecided:
                base = _NOBASE
            if base is not _NOBASE and isinstance(base, _PLAIN):
                ok = any(isinstance(base, t) and e.func.attr in ms for t, ms in _METHODS.items())
                if not ok:
                    raise MiniUndecided(f"method `{norm(e.func)[:50]}` of {type(base).__name__}")
                return self._py(getattr(base, e.func.attr), *args, **kwargs)
            if base is not _NOBASE and isinstance(base, _MiniStruct) and e.func.attr in ("pack", "unpack", "unpack_from", "iter_unpack"):
                # method of a precompiled struct = the struct function of that name with the format in front
                name, base, args = e.func.attr, _NOBASE, [base.fmt, *args]
        else:
            base = _NOBASE
        if isinstance(e.func, ast.Name) and e.func.id in env:
            if callable(env[e.func.id]):
                return self._py(env[e.func.id], *args)
            base = env[e.func.id]            # a local / parameter that is called (e.g. `cls(...)`): handed to the hook as the callee value
        if name in ("Struct", "struct.Struct") and len(args) == 1 and isinstance(args[0], str) and not kwargs and not (isinstance(e.func, ast.Name) and e.func.id in env):
            self._py(struct.calcsize, args[0])
            return _MiniStruct(args[0])
        if self.on_call is not None:
            r = self.on_call(name, None if base is _NOBASE else base, args, kwargs)
            if r is not NotImplemented:
                return r
        target, recv = self._helper(e, base)
        if target is not None:
            sub = Mini(self.repo, target, self.on_call, self.fuel)
            sub._call_depth = getattr(self, "_call_depth", 0) + 1
            try:
                return sub(*([recv] if recv is not _NOBASE else []), *args, **kwargs)
            finally:
                self.fuel = sub.fuel
        if name in _BUILTINS and _BUILTINS[name] is not None and not (isinstance(e.func, ast.Name) and e.func.id in env):
            if name in ("filter", "map", "reduce", "functools.reduce", "sorted", "min", "max") and any(isinstance(a, Opaque) for a in args):
                raise MiniUndecided(f"call `{norm(e)[:50]}`")
            r = self._py(_BUILTINS[name], *args, **kwargs)
            return self._py(list, r) if type(r).__name__ in ("filter", "map", "zip", "enumerate", "reversed") else r
        raise MiniUndecided(f"{self.fi.qualname}: call `{norm(e)[:60]}`")


_NOBASE = object()


def _mini_helper(self: Mini, e: ast.Call, base):
    """(FuncInfo, receiver | _NOBASE) of a call to a plain function of /repo that the interpreted function may run itself: a module-level
    function, or a method of the function's own class called on `self` / `cls`."""
    if getattr(self, "_call_depth", 0) > 4 or self.fi.node is None:
        return None, _NOBASE
    f = e.func
    target, recv = None, _NOBASE
    if isinstance(f, ast.Name):
        r = self.repo.resolve_name(self.fi.module, f.id)
        if isinstance(r, FuncInfo) and r.cls is None:
            target = r
    elif isinstance(f, ast.Attribute) and isinstance(f.value, ast.Name) and f.value.id in ("self", "cls") and self.fi.cls is not None and isinstance(base, Opaque) \
            and self.fi.params()[:1] == [f.value.id]:
        m = self.fi.cls.lookup(f.attr)
        if m is not None:
            decs = {d.split(".")[-1] for d in m.decorator_names()}
            if "staticmethod" in decs:
                target = m
            elif not decs or decs == {"classmethod"}:
                if ("classmethod" in decs) == (f.value.id == "cls"):
                    target, recv = m, base
    if target is None or target.is_async or target is self.fi or any(isinstance(x, (ast.Yield, ast.YieldFrom)) for x in walk_no_nested(target.node)):
        return None, _NOBASE
    return target, recv


Mini._helper = _mini_helper


def _as_load(t):
    import copy
    t2 = copy.copy(t)
    t2.ctx = ast.Load()
    return t2


def struct_hooks(name, base, args, kwargs):
    """on_call hook: the struct module on concrete values (trusted stdlib semantics)."""
    if name in ("pack", "struct.pack") and args and isinstance(args[0], str) and all(isinstance(a, (int, bytes, bool)) for a in args[1:]):
        try:
            return struct.pack(*args)
        except struct.error as e:
            raise MiniRaised(f"struct.error: {e}") from e
    if name in ("unpack_from", "struct.unpack_from") and len(args) >= 2 and isinstance(args[0], str) and isinstance(args[1], bytes):
        off = args[2] if len(args) > 2 else kwargs.get("offset", 0)
        try:
            return struct.unpack_from(args[0], args[1], off)
        except struct.error as e:
            raise MiniRaised(f"struct.error: {e}") from e
    if name in ("unpack", "struct.unpack") and len(args) == 2 and isinstance(args[0], str) and isinstance(args[1], bytes):
        try:
            return struct.unpack(*args)
        except struct.error as e:
            raise MiniRaised(f"struct.error: {e}") from e
    if name in ("calcsize", "struct.calcsize") and len(args) == 1 and isinstance(args[0], str):
        return struct.calcsize(args[0])
    return NotImplemented
